"""Tiny helpers to read specific Rust constructs (used by the C01/C02 translators).

Not a Rust front-end: comment/string stripping, brace matching, function body
lookup, and a parser for `if c {..} else if c {..} else {..}` chains whose
conditions are boolean combinations (!, &&, ||, parentheses) of atoms.
Every helper raises `Unrecognised` when the source does not have the expected
shape; the caller turns that into a failed tie.
"""
import re


class Unrecognised(Exception):
    pass


def strip(src):
    """Replace comments by spaces and the *contents* of string/char literals by
    nothing (the quotes stay), keeping line structure."""
    out = []
    i, n = 0, len(src)
    while i < n:
        c = src[i]
        if src.startswith("//", i):
            j = src.find("\n", i)
            j = n if j < 0 else j
            i = j
        elif src.startswith("/*", i):
            depth, j = 1, i + 2
            while j < n and depth:
                if src.startswith("/*", j):
                    depth += 1
                    j += 2
                elif src.startswith("*/", j):
                    depth -= 1
                    j += 2
                else:
                    if src[j] == "\n":
                        out.append("\n")
                    j += 1
            i = j
        elif c == '"':
            j = i + 1
            while j < n and src[j] != '"':
                if src[j] == "\\":
                    j += 1
                if j < n and src[j] == "\n":
                    out.append("\n")
                j += 1
            out.append('""')
            i = j + 1
        elif c == "r" and re.match(r'r#*"', src[i:]) and (i == 0 or not (src[i - 1].isalnum() or src[i - 1] == "_")):
            m = re.match(r'r(#*)"', src[i:])
            close = '"' + m.group(1)
            j = src.find(close, i + len(m.group(0)))
            if j < 0:
                raise Unrecognised("unterminated raw string")
            out.append('""')
            out.append("\n" * src.count("\n", i, j))
            i = j + len(close)
        elif c == "'":
            # char literal or lifetime
            m = re.match(r"'(\\.[^']*|[^\\'])'", src[i:])
            if m:
                out.append("'c'")
                i += len(m.group(0))
            else:
                out.append(c)
                i += 1
        else:
            out.append(c)
            i += 1
    return "".join(out)


def match_brace(s, i, open_="{", close="}"):
    """s[i] == open_; returns the index of the matching close."""
    if s[i] != open_:
        raise Unrecognised("expected %r at %d" % (open_, i))
    depth = 0
    for j in range(i, len(s)):
        if s[j] == open_:
            depth += 1
        elif s[j] == close:
            depth -= 1
            if depth == 0:
                return j
    raise Unrecognised("unbalanced %s" % open_)


def fn_body(stripped, name, after=0):
    """Body (without the outer braces) of the first `fn name` found at/after `after`."""
    m = re.compile(r"\bfn\s+" + re.escape(name) + r"\b").search(stripped, after)
    if not m:
        raise Unrecognised("fn %s not found" % name)
    i = m.end()
    # skip generics/params/return type up to the body's opening brace at paren depth 0
    depth = 0
    while i < len(stripped):
        c = stripped[i]
        if c in "(<[":
            depth += 1 if c != "<" else 0
        elif c in ")]":
            depth -= 1
        elif c == "{" and depth == 0:
            break
        elif c == ";" and depth == 0:
            raise Unrecognised("fn %s has no body" % name)
        i += 1
    j = match_brace(stripped, i)
    return stripped[i + 1:j], i + 1


def block_after(s, pattern, start=0):
    """Text inside the first `{...}` that follows the regex `pattern`."""
    m = re.compile(pattern).search(s, start)
    if not m:
        raise Unrecognised("pattern %r not found" % pattern)
    i = s.find("{", m.end())
    if i < 0:
        raise Unrecognised("no block after %r" % pattern)
    j = match_brace(s, i)
    return s[i + 1:j], i + 1, j


def match_arms(body):
    """Split the inside of a `match x { ... }` into [(pattern text, arm body text)].
    Arm bodies are either `{...}` blocks or expressions up to a top-level comma."""
    arms = []
    i, n = 0, len(body)
    while i < n:
        while i < n and body[i] in " \t\r\n,":
            i += 1
        if i >= n:
            break
        # pattern up to `=>` at depth 0
        depth, j = 0, i
        while j < n:
            c = body[j]
            if c in "({[":
                depth += 1
            elif c in ")}]":
                depth -= 1
            elif body.startswith("=>", j) and depth == 0:
                break
            j += 1
        if j >= n:
            raise Unrecognised("match arm without =>: %r" % body[i:i + 60])
        pat = " ".join(body[i:j].split())
        k = j + 2
        while k < n and body[k] in " \t\r\n":
            k += 1
        if k < n and body[k] == "{":
            e = match_brace(body, k)
            arms.append((pat, body[k + 1:e]))
            i = e + 1
        else:
            depth, e = 0, k
            while e < n:
                c = body[e]
                if c in "({[":
                    depth += 1
                elif c in ")}]":
                    depth -= 1
                elif c == "," and depth == 0:
                    break
                e += 1
            arms.append((pat, body[k:e]))
            i = e + 1
    return arms


# ---------------------------------------------------------------------------
# if-chains -> decision trees

def _find_top_if(text):
    """Index of the first `if` keyword at brace/paren depth 0, or -1."""
    depth = 0
    for m in re.finditer(r"[(){}\[\]]|\bif\b", text):
        t = m.group(0)
        if t in "({[":
            depth += 1
        elif t in ")}]":
            depth -= 1
        elif depth == 0:
            return m.start()
    return -1


def parse_block(text):
    """-> tree: ('leaf', text) | ('if', cond_text, then_tree, else_tree).
    Statements around a top-level if are kept: their text is appended to every
    leaf below (order: before-text, leaf text, after-text)."""
    i = _find_top_if(text)
    if i < 0:
        return ("leaf", text)
    before = text[:i]
    j = i + 2
    # condition up to `{` at paren depth 0
    depth, k = 0, j
    while k < len(text):
        c = text[k]
        if c in "([":
            depth += 1
        elif c in ")]":
            depth -= 1
        elif c == "{" and depth == 0:
            break
        k += 1
    cond = " ".join(text[j:k].split())
    if cond.startswith("let "):
        raise Unrecognised("`if let` inside a decision block: %r" % cond[:60])
    e = match_brace(text, k)
    then_t = parse_block(text[k + 1:e])
    rest = text[e + 1:]
    m = re.match(r"\s*else\b", rest)
    if m:
        r2 = rest[m.end():]
        m2 = re.match(r"\s*if\b", r2)
        if m2:
            # else-if: the remainder (this if and whatever follows it)
            else_t = parse_block(r2)
            after = ""
        else:
            b = r2.find("{")
            if b < 0 or r2[:b].strip():
                raise Unrecognised("malformed else: %r" % r2[:40])
            be = match_brace(r2, b)
            else_t = parse_block(r2[b + 1:be])
            after = r2[be + 1:]
    else:
        else_t = ("leaf", "")
        after = rest
    if _find_top_if(after) >= 0:
        # a second, independent if at the same level: sequence them
        after_t = parse_block(after)
        return _seq(_wrap(("if", cond, then_t, else_t), before, ""), after_t)
    return _wrap(("if", cond, then_t, else_t), before, after)


def _wrap(tree, before, after):
    if not before.strip() and not after.strip():
        return tree
    if tree[0] == "leaf":
        return ("leaf", before + tree[1] + after)
    return ("if", tree[1], _wrap(tree[2], before, after), _wrap(tree[3], before, after))


def _seq(t1, t2):
    """every leaf of t1 continues with t2"""
    if t1[0] == "leaf":
        return _wrap(t2, t1[1], "")
    return ("if", t1[1], _seq(t1[2], t2), _seq(t1[3], t2))


def parse_cond(text, atoms):
    """Boolean expression over `atoms` (list of (regex, name)).
    -> ('atom', name) | ('not', e) | ('or', a, b) | ('and', a, b)"""
    flat = text.replace("()", "")
    toks = re.findall(r"\|\||&&|!(?!=)|\(|\)|[A-Za-z_][\w.\[\]:]*", flat)
    if "".join(toks) != "".join(flat.split()):
        raise Unrecognised("condition has tokens outside the expected vocabulary: %r" % text)
    pos = [0]

    def peek():
        return toks[pos[0]] if pos[0] < len(toks) else None

    def eat():
        pos[0] += 1
        return toks[pos[0] - 1]

    def p_or():
        a = p_and()
        while peek() == "||":
            eat()
            a = ("or", a, p_and())
        return a

    def p_and():
        a = p_not()
        while peek() == "&&":
            eat()
            a = ("and", a, p_not())
        return a

    def p_not():
        if peek() == "!":
            eat()
            return ("not", p_not())
        if peek() == "(":
            eat()
            a = p_or()
            if eat() != ")":
                raise Unrecognised("unbalanced condition %r" % text)
            return a
        t = eat()
        if t is None:
            raise Unrecognised("empty condition in %r" % text)
        for rx, name in atoms:
            if re.fullmatch(rx, t):
                return ("atom", name)
        raise Unrecognised("unknown condition atom %r in %r" % (t, text))

    e = p_or()
    if pos[0] != len(toks):
        raise Unrecognised("trailing tokens in condition %r" % text)
    return e
