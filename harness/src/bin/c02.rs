//! C02 driver (in-process tier): a real `Stream` from a real `Pool`, the real
//! `end_stream_decision`, `set_default_answer`, `forcefully_terminate_answer`
//! (through the add-only hook `mux::answers::verif`) and the listener's
//! default `HttpAnswers` templates.
use std::{cell::RefCell, collections::BTreeMap, rc::Rc};

use mio::Token;
use rusty_ulid::Ulid;
use sozu_command_lib::ready::Ready;
use sozu_lib::{
    pool::Pool,
    protocol::{
        http::{answers::HttpAnswers, editor::HttpContext},
        mux::{answers::verif, Stream, StreamState},
    },
    Protocol, Readiness,
};
use verif_harness::*;

struct St {
    _pool: Rc<RefCell<Pool>>,
    stream: Stream,
    readiness: Readiness,
    answers: HttpAnswers,
}

fn new_st() -> St {
    let pool = Rc::new(RefCell::new(Pool::with_capacity(4, 8, 16_393)));
    let ctx = HttpContext::new(
        Ulid::generate(),
        Ulid::generate(),
        Protocol::HTTP,
        "127.0.0.1:8080".parse().unwrap(),
        Some("127.0.0.1:40000".parse().unwrap()),
        "SOZUBALANCEID".to_string(),
        "Sozu-Id".to_string(),
        false,
        false,
    );
    let stream = Stream::new(Rc::downgrade(&pool), ctx, 65_535).expect("pool checkout");
    let answers = HttpAnswers::new(&BTreeMap::new()).expect("default templates");
    St { _pool: pool, stream, readiness: Readiness::new(), answers }
}

fn state_num(s: StreamState) -> i128 {
    match s {
        StreamState::Idle => 0,
        StreamState::Link => 1,
        StreamState::Linked(_) => 2,
        StreamState::Unlinked => 3,
        StreamState::Recycle => 4,
    }
}

fn phase_num(p: &kawa::ParsingPhase) -> i128 {
    use kawa::ParsingPhase as P;
    match p {
        P::StatusLine => 0,
        P::Headers => 1,
        P::Cookies { .. } => 2,
        P::Body => 3,
        P::Chunks { .. } => 4,
        P::Trailers => 5,
        P::Terminated => 6,
        P::Error { .. } => 7,
    }
}

fn st_toks(st: &St) -> Vec<Tok> {
    let s = &st.stream;
    vec![
        tn(state_num(s.state)),
        tn(phase_num(&s.back.parsing_phase)),
        tbool(s.back.consumed),
        tbool(!s.back.is_completed()),
        tbool(s.front.consumed),
        tbool(s.context.keep_alive_backend),
        tbool(st.readiness.interest.is_writable()),
        tbool(st.readiness.event.is_writable()),
    ]
}

/// bytes an H1 client would receive for the response buffer as it stands
fn render(stream: &mut Stream) -> Vec<u8> {
    let kawa = &mut stream.back;
    kawa.prepare(&mut kawa::h1::BlockConverter);
    let buf = kawa.storage.buffer();
    let mut out = vec![];
    for b in kawa.out.iter() {
        match b {
            kawa::OutBlock::Delimiter => {}
            kawa::OutBlock::Store(s) => out.extend_from_slice(s.data(buf)),
        }
    }
    out
}

/// the property's own reading of a rendered default answer
fn check_wire(code: u16, wire: &[u8]) -> Result<(), String> {
    let text = String::from_utf8_lossy(wire).to_string();
    let head_end = text.find("\r\n\r\n").ok_or("no end of headers")?;
    let head = &text[..head_end];
    let body = &wire[head_end + 4..];
    let mut lines = head.split("\r\n");
    let status = lines.next().unwrap_or("");
    let want = format!("HTTP/1.1 {code} ");
    if !status.starts_with(&want) {
        return Err(format!("status line {status:?} does not start with {want:?}"));
    }
    let mut cl: Option<usize> = None;
    let mut close = false;
    for l in lines {
        let (k, v) = l.split_once(':').ok_or(format!("malformed header line {l:?}"))?;
        if k.eq_ignore_ascii_case("content-length") {
            if cl.is_some() {
                return Err("two Content-Length headers".into());
            }
            cl = Some(v.trim().parse().map_err(|_| format!("bad Content-Length {v:?}"))?);
        }
        if k.eq_ignore_ascii_case("connection") && v.trim().eq_ignore_ascii_case("close") {
            close = true;
        }
        if k.eq_ignore_ascii_case("transfer-encoding") {
            return Err("default answer uses Transfer-Encoding".into());
        }
    }
    match cl {
        Some(n) if n != body.len() => Err(format!("Content-Length {n} but body has {} bytes", body.len())),
        None if !close && !body.is_empty() => Err("body without Content-Length on a keep-alive answer".into()),
        _ => Ok(()),
    }
}

const DOCUMENTED: [u16; 12] = [301, 302, 308, 400, 401, 404, 408, 421, 429, 502, 503, 504];

fn run(case: &Case, out: &mut Out) {
    let mut st = new_st();
    for op in &case.ops {
        let a = &op.args;
        match op.name.as_str() {
            "new" => {
                st = new_st();
                out.obs(&[]);
            }
            "set" => {
                let s = &mut st.stream;
                s.state = match a[0].n() {
                    0 => StreamState::Idle,
                    1 => StreamState::Link,
                    2 => StreamState::Linked(Token(7)),
                    3 => StreamState::Unlinked,
                    _ => StreamState::Recycle,
                };
                use kawa::ParsingPhase as P;
                s.back.parsing_phase = match a[1].n() {
                    0 => P::StatusLine,
                    1 => P::Headers,
                    2 => P::Cookies { first: true },
                    3 => P::Body,
                    4 => P::Chunks { first: true },
                    5 => P::Trailers,
                    6 => P::Terminated,
                    _ => P::Error {
                        marker: kawa::ParsingPhaseMarker::Body,
                        kind: kawa::ParsingErrorKind::Processing { message: "verif" },
                    },
                };
                s.context.keep_alive_backend = a[2].n() != 0;
                s.front.consumed = a[3].n() != 0;
                s.back.consumed = a[4].n() != 0;
                s.back.blocks.clear();
                s.back.out.clear();
                if a[5].n() != 0 {
                    s.back.blocks.push_back(kawa::Block::Chunk(kawa::Chunk {
                        data: kawa::Store::Static(b"pending"),
                    }));
                }
                st.readiness.interest = if a[6].n() != 0 { Ready::WRITABLE } else { Ready::EMPTY };
                st.readiness.event = if a[7].n() != 0 { Ready::WRITABLE } else { Ready::EMPTY };
                out.obs(&st_toks(&st));
            }
            "esd" => {
                let (tag, status) = verif::end_stream_decision(&st.stream);
                // the property's own table (documentation of EndStreamAction)
                let s = &st.stream;
                let want: (u8, u16) = if s.back.is_main_phase() {
                    if s.back.is_terminated() {
                        (0, 0)
                    } else if !s.context.keep_alive_backend {
                        (1, 0)
                    } else {
                        (2, 0)
                    }
                } else if s.front.consumed {
                    (3, 502)
                } else {
                    (4, 0)
                };
                if (tag, status) != want {
                    out.viol("esd-table", &format!("end_stream_decision gave ({tag},{status}), documented ({},{})", want.0, want.1));
                }
                if tag == 0 && !s.back.is_terminated() {
                    out.viol("truncated-as-complete", "ForwardTerminated on a response that is not terminated");
                }
                out.obs(&[tn(tag), tn(status)]);
            }
            "answer" => {
                let code = a[0].n() as u16;
                verif::set_default_answer(&mut st.stream, &mut st.readiness, code, &st.answers);
                let status = st.stream.context.status.unwrap_or(0);
                let mut toks = st_toks(&st);
                toks.push(ts("default"));
                toks.push(tn(status));
                out.obs(&toks);
                // oracle: exactly one complete, well-formed answer is queued and will be flushed
                let s = &st.stream;
                if s.state != StreamState::Unlinked {
                    out.viol("answer-state", &format!("state {:?} after a default answer", s.state));
                }
                if !s.back.is_terminated() {
                    out.viol("answer-unterminated", "default answer not terminated");
                }
                if !(st.readiness.interest.is_writable() && st.readiness.event.is_writable()) {
                    out.viol("answer-not-armed", "default answer queued without WRITABLE in interest and event");
                }
                let n_status = s.back.blocks.iter().filter(|b| matches!(b, kawa::Block::StatusLine)).count();
                let n_end = s
                    .back
                    .blocks
                    .iter()
                    .filter(|b| matches!(b, kawa::Block::Flags(kawa::Flags { end_stream: true, .. })))
                    .count();
                if n_status != 1 || n_end != 1 {
                    out.viol("answer-shape", &format!("{n_status} status lines, {n_end} end_stream flags"));
                }
                if DOCUMENTED.contains(&code) && status != code {
                    out.viol("answer-status", &format!("asked {code}, rendered {status}"));
                }
                if !DOCUMENTED.contains(&code) && status != 503 {
                    out.viol("answer-status", &format!("unknown code {code} rendered as {status}, expected the 503 fallback"));
                }
                let wire = render(&mut st.stream);
                if let Err(e) = check_wire(status, &wire) {
                    out.viol("answer-wire", &format!("code {code}: {e}"));
                }
            }
            "force" => {
                verif::forcefully_terminate_answer(&mut st.stream, &mut st.readiness);
                let mut toks = st_toks(&st);
                toks.push(ts("abort"));
                out.obs(&toks);
                let s = &st.stream;
                if !s.back.is_error() || !s.back.is_completed() || s.state != StreamState::Unlinked {
                    out.viol("force-shape", &format!("after forcefully_terminate_answer: error={} completed={} state={:?}", s.back.is_error(), s.back.is_completed(), s.state));
                }
                if s.back.is_terminated() {
                    out.viol("truncated-as-complete", "forced termination leaves the response marked terminated");
                }
                if !(st.readiness.interest.is_writable() && st.readiness.event.is_writable()) {
                    out.viol("force-not-armed", "forced termination without WRITABLE in interest and event");
                }
            }
            "blackbox" => {
                // a black-box scenario (kind, k): re-run it with the c02bb binary
                // (`c02bb <file with: scn 0 <kind> <k>>`); nothing to do in-process
                out.note("black-box scenario: replay with .build/cargo-target/release/c02bb");
                out.obs(&[]);
            }
            other => {
                out.note(&format!("invalid-case: unknown op {other}"));
                out.obs(&[]);
            }
        }
    }
}

fn main() {
    drive(run);
}
