(** C10 — lemmas. *)
From Coq Require Import List Arith NArith Lia Bool.
From SV Require Import C10.Gen C10.Model.
Import ListNotations.

(* ------------------------------------------------------------------ *)
(** * sizes *)

Lemma varint_f_len fuel : forall n, length (varint_f fuel n) <= fuel.
Proof.
  induction fuel as [|f IH]; intros n; cbn [varint_f length]; [lia|].
  destruct (n <? 128); cbn [length]; [lia|]. specialize (IH (n / 128)). lia.
Qed.

Lemma varint_small n : n < 128 -> varint n = [N.of_nat n].
Proof. intros H. unfold varint. cbn [varint_f]. apply Nat.ltb_lt in H. rewrite H. reflexivity. Qed.

Lemma field_len tag s : length s < 128 -> length (field tag s) = 2 + length s.
Proof. intros H. unfold field. rewrite varint_small by exact H. cbn [app length]. reflexivity. Qed.

Lemma fields_len tag m : forall ss,
  Forall (fun s => length s <= m) ss -> m < 128 ->
  length (concat (map (field tag) ss)) <= length ss * (2 + m).
Proof.
  induction ss as [|s ss IH]; intros F M; cbn [map concat length]; [lia|].
  inversion F; subst. rewrite app_length, field_len by lia. specialize (IH H2 M). lia.
Qed.

Definition all_addr (P : list N -> Prop) (l : listeners (list N)) : Prop :=
  Forall P (http l) /\ Forall P (tls l) /\ Forall P (tcp l) /\ Forall P (udp l).

Lemma body_len m l :
  all_addr (fun s => length s <= m) l -> m < 128 -> length (body l) <= count l * (2 + m).
Proof.
  intros (A & B & C & D) M. unfold body, count. rewrite !app_length.
  pose proof (fields_len 1 m _ A M). pose proof (fields_len 2 m _ B M).
  pose proof (fields_len 3 m _ C M). pose proof (fields_len 4 m _ D M). nia.
Qed.

(** every listener set up to MAX_FDS_OUT, with address texts up to 62 bytes
    (the longest SocketAddr text is 58), fits the receive buffer *)
Lemma manifest_fits_lemma l :
  count l <= max_fds_out -> all_addr (fun s => length s <= 62) l ->
  length (encode l) <= max_bytes_out.
Proof.
  intros C A. unfold encode. rewrite app_length.
  pose proof (varint_f_len 10 (length (body l))) as V. fold (varint (length (body l))) in V.
  pose proof (body_len 62 l A ltac:(lia)) as B.
  unfold max_fds_out in C. unfold max_bytes_out. nia.
Qed.

(* ------------------------------------------------------------------ *)
(** * varint and field round trips *)

Lemma varint_decode_small n r : n < 128 -> varint_decode 10 (varint n ++ r) = Some (n, r).
Proof.
  intros H. rewrite varint_small by exact H. cbn [app varint_decode].
  assert (E : (N.of_nat n <? 128)%N = true) by (apply N.ltb_lt; lia).
  rewrite E, Nat2N.id. reflexivity.
Qed.

Lemma varint_decode_two n r : n < 128 * 128 -> varint_decode 10 (varint n ++ r) = Some (n, r).
Proof.
  intros H. destruct (n <? 128) eqn:S; [apply Nat.ltb_lt in S; apply varint_decode_small; exact S|].
  apply Nat.ltb_ge in S. unfold varint. cbn [varint_f].
  assert (S' : (n <? 128) = false) by (apply Nat.ltb_ge; exact S). rewrite S'.
  assert (Q : n / 128 < 128) by (apply Nat.div_lt_upper_bound; lia).
  assert (Q' : (n / 128 <? 128) = true) by (apply Nat.ltb_lt; exact Q). rewrite Q'.
  cbn [app varint_decode].
  assert (E1 : (N.of_nat (n mod 128 + 128) <? 128)%N = false) by (apply N.ltb_ge; lia).
  assert (E2 : (N.of_nat (n / 128) <? 128)%N = true) by (apply N.ltb_lt; lia).
  rewrite E1, E2, !Nat2N.id. f_equal. f_equal.
  pose proof (Nat.div_mod n 128 ltac:(lia)). lia.
Qed.

Lemma decode_fields_app tag : 1 <= tag <= 4 -> forall ss fuel rest acc,
  Forall (fun s => length s < 128) ss ->
  length ss <= fuel ->
  decode_fields (fuel + length rest) (concat (map (field tag) ss) ++ rest) acc =
  decode_fields (fuel - length ss + length rest) rest
                (fold_left (fun a s => push tag s a) ss acc).
Proof.
  intros T. induction ss as [|s ss IH]; intros fuel rest acc F L.
  - cbn [map concat app fold_left length]. rewrite Nat.sub_0_r. reflexivity.
  - inversion F; subst. cbn [length] in L. destruct fuel as [|fuel]; [lia|].
    cbn [map concat]. unfold field at 1. rewrite <- !app_assoc. cbn [app Nat.add decode_fields].
    rewrite Nat2N.id.
    replace ((tag * 8 + 2) mod 8) with 2 by (rewrite Nat.add_comm, Nat.mod_add by lia; reflexivity).
    replace ((tag * 8 + 2) / 8) with tag by (rewrite Nat.add_comm, Nat.div_add by lia; cbn; lia).
    assert (T1 : (1 <=? tag) = true) by (apply Nat.leb_le; lia).
    assert (T4 : (tag <=? 4) = true) by (apply Nat.leb_le; lia).
    rewrite T1, T4. cbn [Nat.eqb andb].
    rewrite varint_decode_small by assumption.
    rewrite app_length.
    destruct (length s + length (concat (map (field tag) ss) ++ rest) <? length s) eqn:E;
      [apply Nat.ltb_lt in E; lia|].
    rewrite skipn_app, skipn_all, Nat.sub_diag, firstn_app, firstn_all, Nat.sub_diag. cbn [skipn firstn app].
    rewrite app_nil_r. rewrite IH by (try assumption; lia). cbn [fold_left length]. reflexivity.
Qed.

(* ------------------------------------------------------------------ *)
(** * descriptors: every step of the hand-over keeps a holder *)

Lemma hand_keeps_alive_unless_old_only o s :
  alive o = true -> (in_flight o = true \/ new_w o = true \/ (s <> HOldExit /\ s <> HOldCrash)) ->
  alive (hand o s) = true.
Proof.
  destruct o as [a b c]; destruct s; cbn; intros H K; destruct a, b, c; cbn in *; try reflexivity;
    try discriminate; destruct K as [K|[K|[K1 K2]]]; try discriminate; try congruence.
Qed.

(* ------------------------------------------------------------------ *)
(** * soft stop *)

Lemma shut_down_answers s s' d :
  shut_down_sessions s = (s', d) ->
  (d = true -> exists id, stopping s = Some id /\ answers s' = answers s ++ [id] /\ stopping s' = None /\
                          length (sessions s') <= base s) /\
  (d = false -> answers s' = answers s /\ stopping s' = stopping s) /\
  base s' = base s /\ accepting s' = accepting s.
Proof.
  unfold shut_down_sessions. destruct (stopping s) as [id|] eqn:S.
  - destruct (length (filter negb (sessions s)) <=? base s) eqn:E; intros H; inversion H; subst; clear H;
      cbn [answers stopping sessions base accepting].
    + apply Nat.leb_le in E. split; [intros _; exists id; repeat split; auto|].
      split; [discriminate|split; reflexivity].
    + split; [discriminate|]. split; [intros _; split; reflexivity|split; reflexivity].
  - intros H; inversion H; subst; clear H. split; [discriminate|].
    split; [intros _; split; [reflexivity|assumption]|split; reflexivity].
Qed.

Lemma progress_keeps s m :
  stopping (progress s m) = stopping s /\ answers (progress s m) = answers s /\
  base (progress s m) = base s /\ accepting (progress s m) = accepting s.
Proof. repeat split. Qed.

Lemma turns_once sched : forall s s' d id,
  stopping s = Some id -> turns s sched = (s', d) ->
  (d = true -> answers s' = answers s ++ [id] /\ stopping s' = None /\ length (sessions s') <= base s) /\
  (d = false -> answers s' = answers s /\ stopping s' = Some id) /\
  accepting s' = accepting s.
Proof.
  induction sched as [|m sched IH]; intros s s' d id S H; cbn [turns] in H.
  - inversion H; subst. repeat split; try discriminate; auto.
  - destruct (shut_down_sessions (progress s m)) as [s1 d1] eqn:E.
    pose proof (shut_down_answers _ _ _ E) as (A & B & C & D).
    destruct (progress_keeps s m) as (P1 & P2 & P3 & P4).
    destruct d1.
    + inversion H; subst. destruct (A eq_refl) as (id' & I1 & I2 & I3 & I4).
      rewrite P1, S in I1. inversion I1; subst. rewrite P2 in I2. rewrite P3 in I4.
      repeat split; try discriminate; auto; try congruence.
    + destruct (B eq_refl) as (B1 & B2). rewrite P1, S in B2. rewrite P2 in B1.
      specialize (IH s1 s' d id B2 H). destruct IH as (I1 & I2 & I3).
      split; [|split].
      * intros Dt. destruct (I1 Dt) as (X & Y & Z). rewrite B1 in X. rewrite C, P3 in Z. auto.
      * intros Df. destruct (I2 Df) as (X & Y). rewrite B1 in X. auto.
      * rewrite I3, D, P4. reflexivity.
Qed.

(* ------------------------------------------------------------------ *)
(** * the whole manifest round trip *)

Lemma decode_fields_run tag : 1 <= tag <= 4 -> forall ss fuel rest acc,
  Forall (fun s => length s < 128) ss ->
  length ss <= fuel ->
  decode_fields fuel (concat (map (field tag) ss) ++ rest) acc =
  decode_fields (fuel - length ss) rest (fold_left (fun a s => push tag s a) ss acc).
Proof.
  intros T. induction ss as [|s ss IH]; intros fuel rest acc F L.
  - cbn [map concat app fold_left length]. rewrite Nat.sub_0_r. reflexivity.
  - inversion F; subst. cbn [length] in L. destruct fuel as [|fuel]; [lia|].
    cbn [map concat]. unfold field at 1. rewrite <- !app_assoc. cbn [app decode_fields].
    rewrite Nat2N.id.
    replace ((tag * 8 + 2) mod 8) with 2 by (rewrite Nat.add_comm, Nat.mod_add by lia; reflexivity).
    replace ((tag * 8 + 2) / 8) with tag by (rewrite Nat.add_comm, Nat.div_add by lia; cbn; lia).
    assert (T1 : (1 <=? tag) = true) by (apply Nat.leb_le; lia).
    assert (T4 : (tag <=? 4) = true) by (apply Nat.leb_le; lia).
    rewrite T1, T4. cbn [Nat.eqb andb].
    rewrite varint_decode_small by assumption.
    rewrite app_length.
    destruct (length s + length (concat (map (field tag) ss) ++ rest) <? length s) eqn:E;
      [apply Nat.ltb_lt in E; lia|].
    rewrite skipn_app, skipn_all, Nat.sub_diag, firstn_app, firstn_all, Nat.sub_diag. cbn [skipn firstn app].
    rewrite app_nil_r. rewrite IH by (try assumption; lia). cbn [fold_left length]. reflexivity.
Qed.

Lemma fold_push1 ss : forall a, fold_left (fun a s => push 1 s a) ss a = mkl (http a ++ ss) (tls a) (tcp a) (udp a).
Proof. induction ss as [|s ss IH]; intros a; cbn [fold_left]; [rewrite app_nil_r; destruct a; reflexivity|]. rewrite IH. cbn. rewrite <- app_assoc. reflexivity. Qed.
Lemma fold_push2 ss : forall a, fold_left (fun a s => push 2 s a) ss a = mkl (http a) (tls a ++ ss) (tcp a) (udp a).
Proof. induction ss as [|s ss IH]; intros a; cbn [fold_left]; [rewrite app_nil_r; destruct a; reflexivity|]. rewrite IH. cbn. rewrite <- app_assoc. reflexivity. Qed.
Lemma fold_push3 ss : forall a, fold_left (fun a s => push 3 s a) ss a = mkl (http a) (tls a) (tcp a ++ ss) (udp a).
Proof. induction ss as [|s ss IH]; intros a; cbn [fold_left]; [rewrite app_nil_r; destruct a; reflexivity|]. rewrite IH. cbn. rewrite <- app_assoc. reflexivity. Qed.
Lemma fold_push4 ss : forall a, fold_left (fun a s => push 4 s a) ss a = mkl (http a) (tls a) (tcp a) (udp a ++ ss).
Proof. induction ss as [|s ss IH]; intros a; cbn [fold_left]; [rewrite app_nil_r; destruct a; reflexivity|]. rewrite IH. cbn. rewrite <- app_assoc. reflexivity. Qed.

Lemma fields_len_ge tag ss : length ss <= length (concat (map (field tag) ss)).
Proof.
  induction ss as [|s ss IH]; cbn [map concat length]; [lia|].
  rewrite app_length. unfold field at 1. cbn [app length]. lia.
Qed.

Lemma Forall_weaken_len m (ss : list (list N)) :
  Forall (fun s => length s <= m) ss -> m < 128 -> Forall (fun s => length s < 128) ss.
Proof. intros F M. eapply Forall_impl; [|exact F]. cbn. intros; lia. Qed.

Lemma decode_body l :
  all_addr (fun s => length s <= 62) l ->
  decode_fields (S (length (body l))) (body l) (mkl [] [] [] []) = Some l.
Proof.
  intros (A & B & C & D). destruct l as [h t c u]. cbn [http tls tcp udp] in *.
  unfold body. cbn [http tls tcp udp].
  pose proof (fields_len_ge 1 h). pose proof (fields_len_ge 2 t).
  pose proof (fields_len_ge 3 c). pose proof (fields_len_ge 4 u).
  rewrite !app_length.
  rewrite (decode_fields_run 1 ltac:(lia) h) by (try (eapply Forall_weaken_len; [eassumption|lia]); lia).
  rewrite fold_push1. cbn [http tls tcp udp app].
  rewrite (decode_fields_run 2 ltac:(lia) t) by (try (eapply Forall_weaken_len; [eassumption|lia]); lia).
  rewrite fold_push2. cbn [http tls tcp udp app].
  rewrite (decode_fields_run 3 ltac:(lia) c) by (try (eapply Forall_weaken_len; [eassumption|lia]); lia).
  rewrite fold_push3. cbn [http tls tcp udp app].
  rewrite <- (app_nil_r (concat (map (field 4) u))) at 2.
  rewrite (decode_fields_run 4 ltac:(lia) u) by (try (eapply Forall_weaken_len; [eassumption|lia]); lia).
  rewrite fold_push4. cbn [http tls tcp udp app].
  match goal with |- decode_fields ?f [] _ = _ => destruct f end; reflexivity.
Qed.

Lemma manifest_roundtrip_lemma l :
  count l <= max_fds_out -> all_addr (fun s => length s <= 62) l ->
  transfer l = ROk (pair_up l (seq 0 (count l))).
Proof.
  intros C A. unfold transfer.
  assert (S1 : (scm_max_fd <? count l) = false) by (apply Nat.ltb_ge; unfold scm_max_fd, max_fds_out in *; lia).
  rewrite S1. unfold receive. rewrite seq_length.
  assert (S2 : (max_fds_out <? count l) = false) by (apply Nat.ltb_ge; lia).
  rewrite S2.
  rewrite firstn_all2 by (apply manifest_fits_lemma; assumption).
  unfold encode.
  pose proof (body_len 62 l A ltac:(lia)) as BL.
  rewrite varint_decode_two by (unfold max_fds_out in C; nia).
  rewrite Nat.ltb_irrefl, firstn_all.
  rewrite (decode_body l A). rewrite S2, Nat.ltb_irrefl. reflexivity.
Qed.

Lemma combine_fst {A B} : forall (a : list A) (b : list B), length a = length b -> map fst (combine a b) = a.
Proof. induction a as [|x a IH]; intros [|y b] L; cbn in *; try reflexivity; try discriminate. f_equal. apply IH. lia. Qed.
Lemma combine_snd {A B} : forall (a : list A) (b : list B), length a = length b -> map snd (combine a b) = b.
Proof. induction a as [|x a IH]; intros [|y b] L; cbn in *; try reflexivity; try discriminate. f_equal. apply IH. lia. Qed.

Lemma skipn_add {A} a b : forall l : list A, skipn b (skipn a l) = skipn (a + b) l.
Proof.
  induction a as [|a IH]; intros l; [reflexivity|].
  destruct l as [|x l]; cbn [Nat.add skipn]; [apply skipn_nil|apply IH].
Qed.

Lemma split4 {A} (l : list A) a b c :
  firstn a l ++ firstn b (skipn a l) ++ firstn c (skipn (a + b) l) ++ skipn (a + b + c) l = l.
Proof.
  transitivity (firstn a l ++ skipn a l); [f_equal|apply firstn_skipn].
  transitivity (firstn b (skipn a l) ++ skipn b (skipn a l)); [f_equal|apply firstn_skipn].
  rewrite skipn_add.
  transitivity (firstn c (skipn (a + b) l) ++ skipn c (skipn (a + b) l)); [|apply firstn_skipn].
  f_equal. rewrite skipn_add. reflexivity.
Qed.

Lemma pair_up_order (l : listeners (list N)) :
  map snd (http (pair_up l (seq 0 (count l))) ++ tls (pair_up l (seq 0 (count l))) ++
           tcp (pair_up l (seq 0 (count l))) ++ udp (pair_up l (seq 0 (count l)))) = seq 0 (count l) /\
  map fst (http (pair_up l (seq 0 (count l))) ++ tls (pair_up l (seq 0 (count l))) ++
           tcp (pair_up l (seq 0 (count l))) ++ udp (pair_up l (seq 0 (count l)))) = http l ++ tls l ++ tcp l ++ udp l.
Proof.
  destruct l as [h t c u]. unfold pair_up, count. cbn [http tls tcp udp].
  set (nh := length h). set (nt := length t). set (nc := length c). set (nu := length u).
  set (fds := seq 0 (nh + nt + nc + nu)).
  assert (LF : length fds = nh + nt + nc + nu) by (unfold fds; apply seq_length).
  assert (L1 : length h = length (firstn nh fds)) by (rewrite firstn_length; unfold nh in *; lia).
  assert (L2 : length t = length (firstn nt (skipn nh fds))) by (rewrite firstn_length, skipn_length; unfold nt in *; lia).
  assert (L3 : length c = length (firstn nc (skipn (nh + nt) fds))) by (rewrite firstn_length, skipn_length; unfold nc in *; lia).
  assert (L4 : length u = length (skipn (nh + nt + nc) fds)) by (rewrite skipn_length; unfold nu in *; lia).
  rewrite !map_app, !combine_fst, !combine_snd by assumption. split; [|reflexivity].
  apply split4.
Qed.

(* ------------------------------------------------------------------ *)
(** * descriptor bookkeeping of [receive_listeners] *)

Lemma combine_len_le {A B} : forall (a : list A) (b : list B), length a <= length b -> length (combine a b) = length a.
Proof. intros a b L. rewrite combine_length. lia. Qed.

Lemma combine_snd_firstn {A B} : forall (a : list A) (b : list B),
  length a <= length b -> map snd (combine a b) = firstn (length a) b.
Proof.
  induction a as [|x a IH]; intros [|y b] L; cbn in *; try reflexivity; try lia.
  f_equal. apply IH. lia.
Qed.

Lemma firstn_add {A} a b : forall l : list A, firstn (a + b) l = firstn a l ++ firstn b (skipn a l).
Proof.
  induction a as [|a IH]; intros l; [reflexivity|].
  destruct l as [|x l]; cbn [Nat.add firstn skipn app]; [rewrite firstn_nil; reflexivity|].
  rewrite IH. reflexivity.
Qed.

Lemma pair_up_held (l : listeners (list N)) (fds : list nat) :
  count l <= length fds ->
  let g := pair_up l fds in
  map snd (http g ++ tls g ++ tcp g ++ udp g) = firstn (count l) fds /\
  length (http g) + length (tls g) + length (tcp g) + length (udp g) = count l.
Proof.
  destruct l as [h t c u]. unfold pair_up, count. cbn [http tls tcp udp]. intros L.
  set (nh := length h) in *. set (nt := length t) in *. set (nc := length c) in *. set (nu := length u) in *.
  assert (L1 : length h <= length (firstn nh fds)) by (rewrite firstn_length; unfold nh in *; lia).
  assert (L2 : length t <= length (firstn nt (skipn nh fds))) by (rewrite firstn_length, skipn_length; unfold nt in *; lia).
  assert (L3 : length c <= length (firstn nc (skipn (nh + nt) fds))) by (rewrite firstn_length, skipn_length; unfold nc in *; lia).
  assert (L4 : length u <= length (skipn (nh + nt + nc) fds)) by (rewrite skipn_length; unfold nu in *; lia).
  split.
  - rewrite !map_app, !combine_snd_firstn by assumption.
    fold nh nt nc nu.
    rewrite !firstn_firstn, !Nat.min_id.
    rewrite (firstn_add (nh + nt + nc) nu), (firstn_add (nh + nt) nc), (firstn_add nh nt).
    rewrite <- !app_assoc. reflexivity.
  - rewrite !combine_len_le by assumption. reflexivity.
Qed.

(** every descriptor [receive_listeners] was given is either handed to the
    caller or closed by the call itself — for EVERY message and descriptor list *)
Lemma receive_conserves_lemma msg fds r closed :
  receive_acct msg fds = (r, closed) -> held_after r ++ closed = fds.
Proof.
  unfold receive_acct. destruct (receive msg fds) as [g|e] eqn:R; intros H; inversion H; subst; clear H;
    [|reflexivity].
  unfold receive in R.
  destruct (max_fds_out <? length fds); [discriminate|].
  destruct (varint_decode 10 (firstn max_bytes_out msg)) as [[len rest]|]; [|discriminate].
  destruct (length rest <? len); [discriminate|].
  destruct (decode_fields (S len) (firstn len rest) (mkl [] [] [] [])) as [l|]; [|discriminate].
  destruct ((max_fds_out <? count l) || (length fds <? count l)) eqn:C; [discriminate|].
  apply orb_false_iff in C. destruct C as [_ C]. apply Nat.ltb_ge in C.
  inversion R; subst; clear R.
  destruct (pair_up_held l fds C) as [A B]. cbn zeta in A, B.
  unfold held_after. rewrite A, B. apply firstn_skipn.
Qed.

Lemma failed_receive_lemma msg fds e closed :
  receive_acct msg fds = (RErr e, closed) ->
  held_after (RErr e : rres (listeners (list N * nat))) = [] /\ closed = fds.
Proof.
  intros H. pose proof (receive_conserves_lemma _ _ _ _ H) as C. cbn in C. split; [reflexivity|exact C].
Qed.

(* ---------------- the soft-stop floor counted from the slab ---------------- *)

Lemma filter_map_snd (sl : slab) : length (filter negb (map snd sl)) = length (filter stays sl).
Proof. induction sl as [|[p c] sl IH]; [reflexivity|]. cbn. unfold stays at 1. cbn. destruct c; cbn; lia. Qed.

Lemma filter_length_le {A} (f : A -> bool) l : length (filter f l) <= length l.
Proof. induction l as [|a l IH]; cbn; [lia|]. destruct (f a); cbn; lia. Qed.

Lemma filter_length_all {A} (f : A -> bool) l :
  length l <= length (filter f l) -> forall x, In x l -> f x = true.
Proof.
  induction l as [|a l IH]; intros H x I; [destruct I|].
  cbn in H. destruct (f a) eqn:F; cbn in H.
  - destruct I as [<-|I]; [exact F|]. apply IH; [lia|exact I].
  - pose proof (filter_length_le f l). lia.
Qed.

Lemma filter_all_id {A} (f : A -> bool) l : (forall x, In x l -> f x = true) -> filter f l = l.
Proof.
  induction l as [|a l IH]; intros H; [reflexivity|]. cbn. rewrite (H a (or_introl eq_refl)).
  f_equal. apply IH. intros x I. apply H. right. exact I.
Qed.

Lemma slab_turn_answered sl id ans s' :
  slab_turn sl id ans = (s', true) ->
  answers s' = ans ++ [id] /\ stopping s' = None /\
  forall e, In e sl -> snd e = false -> is_permanent e = true.
Proof.
  unfold slab_turn, shut_down_sessions. cbn [stopping base sessions accepting answers].
  rewrite filter_map_snd. unfold listen_slots.
  destruct (length (filter stays sl) <=? length (filter is_permanent (filter stays sl))) eqn:E; intros H; inversion H; subst; clear H.
  cbn [answers stopping]. split; [reflexivity|]. split; [reflexivity|].
  intros e I C. apply Nat.leb_le in E.
  apply (filter_length_all is_permanent (filter stays sl) E). apply filter_In. split; [exact I|]. unfold stays. rewrite C. reflexivity.
Qed.

Lemma slab_turn_completes sl id ans :
  (forall e, In e sl -> is_permanent e = false -> snd e = true) ->
  exists s', slab_turn sl id ans = (s', true).
Proof.
  intros H. unfold slab_turn, shut_down_sessions. cbn [stopping base sessions accepting answers].
  rewrite filter_map_snd. unfold listen_slots.
  rewrite (filter_all_id is_permanent (filter stays sl)).
  - rewrite Nat.leb_refl. eexists. reflexivity.
  - intros x I. apply filter_In in I. destruct I as [I S]. unfold stays in S.
    destruct (is_permanent x) eqn:P; [reflexivity|]. rewrite (H x I P) in S. discriminate S.
Qed.

Lemma protocols_split :
  forall p, p < protocol_count ->
    existsb (Nat.eqb p) permanent_protocols = negb (existsb (Nat.eqb p) client_protocols).
Proof.
  intros p H. unfold protocol_count in H.
  do 11 (destruct p as [|p]; [vm_compute; reflexivity|]). lia.
Qed.
