//! C03 / C13 black-box tier: a real worker (own thread, plain HTTP listener), a
//! RECORDING backend that re-parses everything it receives with a strict RFC
//! 9112 reader, and a raw client that sends the case's bytes at the case's
//! segmentation.
//!
//! The property's own oracle (no model involved), per case:
//!   * every byte a backend connection received belongs to a well-formed request
//!     (strict reader), nothing is left over;
//!   * every such request was ROUTED by sozu: it carries exactly one correlation
//!     header (the connection's id, which a request sozu did not parse itself
//!     cannot know) and one X-Request-Id, i.e. the number and boundaries of
//!     the requests the backend sees are those sozu understood;
//!   * C13: the last X-Forwarded-For element is the client's address, Forwarded's
//!     last element is sozu's, X-Forwarded-Proto/Port describe the listener when
//!     the client sent none, and no trailer carries a proxy-owned name;
//!   * the client gets exactly one answer per request the backend saw, plus
//!     sozu's own 4xx for what it refused.
//!
//! input  (argv[1]): the usual case file; ops: `cuts <n>...`, `raw <bytes>`
//! output: `obs` per op + `viol` lines.
use std::{
    io::{Read, Write},
    net::{SocketAddr, TcpListener, TcpStream},
    os::fd::IntoRawFd,
    os::unix::net::UnixStream,
    sync::{Arc, Mutex},
    time::{Duration, Instant},
};

use sozu_command_lib::{
    channel::Channel,
    config::{ConfigBuilder, FileConfig, ListenerBuilder},
    proto::command::{
        request::RequestType, ActivateListener, AddBackend, Cluster, ListenerType, LoadBalancingParams, PathRule,
        Request, RequestHttpFrontend, RulePosition, ServerConfig, SocketAddress, WorkerRequest, WorkerResponse,
    },
    scm_socket::{Listeners, ScmSocket},
    state::ConfigState,
};
use sozu_lib::server::Server;
use verif_harness::*;

type HL = Vec<(Vec<u8>, Vec<u8>)>;

// ---------------------------------------------------------------- strict reader (same as c03.rs)
#[derive(Debug, Clone)]
struct Req {
    target: Vec<u8>,
    headers: HL,
    trailers: HL,
}
fn is_tchar(b: u8) -> bool {
    b.is_ascii_alphanumeric() || b"!#$%&'*+-.^_`|~".contains(&b)
}
fn is_vbyte(b: u8) -> bool {
    b == 9 || (32..=126).contains(&b) || b >= 128
}
fn take_line(s: &[u8]) -> Result<Option<(&[u8], &[u8])>, ()> {
    for i in 0..s.len() {
        if s[i] == 13 {
            return match s.get(i + 1) {
                Some(&10) => Ok(Some((&s[..i], &s[i + 2..]))),
                Some(_) => Err(()),
                None => Ok(None),
            };
        }
        if s[i] == 10 {
            return Err(());
        }
    }
    Ok(None)
}
fn trim_ows(v: &[u8]) -> &[u8] {
    let s = v.iter().position(|c| *c != b' ' && *c != b'\t').unwrap_or(v.len());
    let e = v.iter().rposition(|c| *c != b' ' && *c != b'\t').map_or(s, |p| p + 1);
    &v[s..e]
}
fn parse_field(line: &[u8]) -> Option<(Vec<u8>, Vec<u8>)> {
    let n = line.iter().position(|b| !is_tchar(*b)).unwrap_or(line.len());
    if n == 0 || line.get(n) != Some(&b':') {
        return None;
    }
    let v = &line[n + 1..];
    if !v.iter().all(|b| is_vbyte(*b)) {
        return None;
    }
    Some((line[..n].to_vec(), trim_ows(v).to_vec()))
}
/// Ok(None) = incomplete, Err = malformed
fn read_headers(mut s: &[u8]) -> Result<Option<(HL, &[u8])>, ()> {
    let mut hs = vec![];
    loop {
        let Some((l, r)) = take_line(s)? else { return Ok(None) };
        s = r;
        if l.is_empty() {
            return Ok(Some((hs, s)));
        }
        hs.push(parse_field(l).ok_or(())?);
    }
}
fn values<'a>(hs: &'a HL, n: &[u8]) -> Vec<&'a Vec<u8>> {
    hs.iter().filter(|(k, _)| k.eq_ignore_ascii_case(n)).map(|(_, v)| v).collect()
}
fn read_request(s: &[u8]) -> Result<Option<(Req, &[u8])>, ()> {
    let Some((line, r)) = take_line(s)? else { return Ok(None) };
    let parts: Vec<&[u8]> = line.split(|b| *b == b' ').collect();
    if parts.len() != 3 {
        return Err(());
    }
    let (m, t, v) = (parts[0], parts[1], parts[2]);
    if m.is_empty() || !m.iter().all(|b| is_tchar(*b)) || t.is_empty() || !t.iter().all(|b| *b >= 33 && *b != 127) || !(v == b"HTTP/1.1" || v == b"HTTP/1.0") {
        return Err(());
    }
    let Some((hs, r1)) = read_headers(r)? else { return Ok(None) };
    if values(&hs, b"host").len() != 1 {
        return Err(());
    }
    let cls = values(&hs, b"content-length");
    let tes = values(&hs, b"transfer-encoding");
    match (tes.len(), cls.len()) {
        (0, 0) => Ok(Some((Req { target: t.to_vec(), headers: hs, trailers: vec![] }, r1))),
        (0, _) => {
            if !(cls.iter().all(|v| !v.is_empty() && v.iter().all(|b| b.is_ascii_digit()))) {
                return Err(());
            }
            let parse = |v: &Vec<u8>| std::str::from_utf8(v).ok().and_then(|s| s.parse::<u128>().ok());
            let n = parse(cls[0]).ok_or(())?;
            if cls.iter().any(|v| parse(v) != Some(n)) {
                return Err(());
            }
            let n = usize::try_from(n).map_err(|_| ())?;
            if r1.len() < n {
                return Ok(None);
            }
            Ok(Some((Req { target: t.to_vec(), headers: hs, trailers: vec![] }, &r1[n..])))
        }
        (1, 0) => {
            if !tes[0].eq_ignore_ascii_case(b"chunked") {
                return Err(());
            }
            let mut s = r1;
            loop {
                let Some((l, r)) = take_line(s)? else { return Ok(None) };
                if l.is_empty() || !l.iter().all(|b| b.is_ascii_hexdigit()) || l.len() > 8 {
                    return Err(());
                }
                let n = usize::from_str_radix(std::str::from_utf8(l).unwrap(), 16).map_err(|_| ())?;
                if n == 0 {
                    let Some((ts, r2)) = read_headers(r)? else { return Ok(None) };
                    return Ok(Some((Req { target: t.to_vec(), headers: hs, trailers: ts }, r2)));
                }
                if r.len() < n + 2 {
                    return Ok(None);
                }
                if &r[n..n + 2] != b"\r\n" {
                    return Err(());
                }
                s = &r[n + 2..];
            }
        }
        _ => Err(()),
    }
}

// ---------------------------------------------------------------- recording backend
#[derive(Default)]
struct Record {
    requests: Vec<Req>,
    malformed: Vec<Vec<u8>>, // first bytes of what could not be read
    leftover: Vec<Vec<u8>>,  // bytes still unread when the connection ended
}

fn backend(listener: TcpListener, rec: Arc<Mutex<Record>>) {
    for conn in listener.incoming() {
        let Ok(mut s) = conn else { continue };
        let rec = rec.clone();
        std::thread::spawn(move || {
            let _ = s.set_read_timeout(Some(Duration::from_secs(20)));
            let _ = s.set_nodelay(true);
            let mut acc: Vec<u8> = vec![];
            let mut buf = [0u8; 8192];
            loop {
                match s.read(&mut buf) {
                    Ok(0) | Err(_) => break,
                    Ok(n) => acc.extend_from_slice(&buf[..n]),
                }
                loop {
                    match read_request(&acc) {
                        Ok(Some((rq, rest))) => {
                            let used = acc.len() - rest.len();
                            rec.lock().unwrap().requests.push(rq);
                            acc.drain(..used);
                            if s.write_all(b"HTTP/1.1 200 OK\r\nContent-Length: 2\r\n\r\nok").is_err() {
                                return;
                            }
                            if acc.is_empty() {
                                break;
                            }
                        }
                        Ok(None) => break,
                        Err(()) => {
                            rec.lock().unwrap().malformed.push(acc[..acc.len().min(120)].to_vec());
                            let _ = s.write_all(b"HTTP/1.1 400 Bad Request\r\nContent-Length: 0\r\nConnection: close\r\n\r\n");
                            return;
                        }
                    }
                }
            }
            if !acc.is_empty() {
                rec.lock().unwrap().leftover.push(acc[..acc.len().min(120)].to_vec());
            }
        });
    }
}

// ---------------------------------------------------------------- worker
struct Worker {
    channel: Channel<WorkerRequest, WorkerResponse>,
    n: usize,
}
impl Worker {
    fn send(&mut self, r: RequestType) {
        self.n += 1;
        self.channel
            .write_message(&WorkerRequest { id: format!("ID-{}", self.n), content: Request { request_type: Some(r) } })
            .expect("write to worker");
    }
    fn drain(&mut self) {
        let mut done = 0;
        while done < self.n {
            match self.channel.read_message() {
                Ok(resp) => {
                    if resp.status != 1 {
                        done += 1;
                    }
                }
                Err(e) => panic!("worker channel: {e}"),
            }
        }
    }
}

fn start_worker() -> Worker {
    let config = ConfigBuilder::new(FileConfig::default(), "").into_config().expect("config");
    let sc = ServerConfig::from(&config);
    let (mut main_ch, worker_ch): (Channel<WorkerRequest, WorkerResponse>, Channel<WorkerResponse, WorkerRequest>) =
        Channel::generate(sc.command_buffer_size, sc.max_command_buffer_size).expect("channel");
    let (s1, s2) = UnixStream::pair().unwrap();
    let scm_main = ScmSocket::new(s1.into_raw_fd()).expect("scm");
    let scm_worker = ScmSocket::new(s2.into_raw_fd()).expect("scm");
    scm_main.send_listeners(&Listeners::default()).expect("send listeners");
    std::thread::spawn(move || {
        let _ = sozu_command_lib::logging::setup_logging("file:///dev/null", false, None, None, None, "error", "WRK");
        let mut server =
            Server::try_new_from_config(worker_ch, scm_worker, sc, ConfigState::new().produce_initial_state(), false).expect("worker");
        server.run();
    });
    main_ch.blocking().expect("blocking");
    Worker { channel: main_ch, n: 0 }
}

fn free_addr() -> SocketAddr {
    TcpListener::bind("127.0.0.1:0").unwrap().local_addr().unwrap()
}

const OWNED: [&[u8]; 5] = [b"x-forwarded-for", b"forwarded", b"x-real-ip", b"x-request-id", b"sozu-id"];

fn main() {
    let _ = sozu_command_lib::logging::setup_logging("file:///dev/null", false, None, None, None, "error", "C03BB");
    let path = std::env::args().nth(1).expect("usage: c03bb <cases>");
    let cases = read_cases(&path);

    let back_l = TcpListener::bind("127.0.0.1:0").unwrap();
    let back = back_l.local_addr().unwrap();
    let rec = Arc::new(Mutex::new(Record::default()));
    {
        let rec = rec.clone();
        std::thread::spawn(move || backend(back_l, rec));
    }
    let front = free_addr();
    let mut w = start_worker();
    let fa: SocketAddress = front.into();
    let mut lc = ListenerBuilder::new_http(fa.clone()).to_http(None).expect("listener");
    lc.front_timeout = 5;
    lc.request_timeout = 3;
    lc.back_timeout = 3;
    lc.connect_timeout = 2;
    w.send(RequestType::AddHttpListener(lc));
    w.send(RequestType::ActivateListener(ActivateListener { address: fa.clone(), proxy: ListenerType::Http.into(), from_scm: false }));
    w.send(RequestType::AddCluster(Cluster { cluster_id: "c".into(), ..Default::default() }));
    for host in ["x", "example.com", "a.b"] {
        w.send(RequestType::AddHttpFrontend(RequestHttpFrontend {
            cluster_id: Some("c".into()),
            address: fa.clone(),
            hostname: host.into(),
            path: PathRule::prefix("/".to_string()),
            position: RulePosition::Tree.into(),
            ..Default::default()
        }));
    }
    w.send(RequestType::AddBackend(AddBackend {
        cluster_id: "c".into(),
        backend_id: "c-0".into(),
        address: back.into(),
        load_balancing_parameters: Some(LoadBalancingParams::default()),
        sticky_id: None,
        backup: None,
    }));
    w.drain();

    let mut outw: Box<dyn Write> = match std::env::var_os("VERIF_OUT") {
        Some(p) => Box::new(std::io::BufWriter::new(std::fs::File::create(p).expect("create $VERIF_OUT"))),
        None => Box::new(std::io::stdout()),
    };
    for case in &cases {
        let mut out = Out::default();
        let mut cuts: Vec<usize> = vec![];
        for op in &case.ops {
            match op.name.as_str() {
                "cuts" => {
                    cuts = op.args.iter().map(|t| t.n() as usize).collect();
                    out.obs(&[]);
                }
                "raw" => {
                    let raw = op.args[0].b().to_vec();
                    *rec.lock().unwrap() = Record::default();
                    let (answers, statuses) = drive_client(front, &raw, &cuts);
                    // give the backend threads the time to record the tail
                    std::thread::sleep(Duration::from_millis(30));
                    let r = std::mem::take(&mut *rec.lock().unwrap());
                    out.obs(&[ts("seen"), tn(r.requests.len()), ts("answers"), tn(answers)]);
                    judge(&r, front, &statuses, &mut out);
                }
                _ => out.obs(&[ts("badop")]),
            }
        }
        writeln!(outw, "case {}", case.id).unwrap();
        for l in &out.lines {
            writeln!(outw, "{l}").unwrap();
        }
        writeln!(outw, "end").unwrap();
    }
    outw.flush().unwrap();
    std::process::exit(0);
}

/// Sends `raw` at the given cuts; reads answers until the connection is quiet or closed.
/// -> (number of status lines received, their codes)
fn drive_client(front: SocketAddr, raw: &[u8], cuts: &[usize]) -> (usize, Vec<u16>) {
    let Ok(mut c) = TcpStream::connect(front) else { return (0, vec![]) };
    let _ = c.set_nodelay(true);
    let mut cs: Vec<usize> = cuts.iter().copied().filter(|x| *x > 0 && *x < raw.len()).collect();
    cs.sort();
    cs.dedup();
    cs.push(raw.len());
    let mut pos = 0;
    for x in cs {
        if c.write_all(&raw[pos..x]).is_err() {
            break;
        }
        pos = x;
        std::thread::sleep(Duration::from_millis(3));
    }
    let mut acc: Vec<u8> = vec![];
    let mut buf = [0u8; 8192];
    let _ = c.set_read_timeout(Some(Duration::from_millis(250)));
    let t0 = Instant::now();
    while t0.elapsed() < Duration::from_secs(4) {
        match c.read(&mut buf) {
            Ok(0) => break,
            Ok(n) => acc.extend_from_slice(&buf[..n]),
            Err(_) => break, // quiet for 250 ms
        }
    }
    let mut codes = vec![];
    let mut i = 0;
    while let Some(p) = acc[i..].windows(9).position(|w| w == b"HTTP/1.1 ") {
        let at = i + p;
        if at == 0 || acc[at - 1] == b'\n' || acc[at - 1] == b'k' {
            if let Some(code) = acc.get(at + 9..at + 12).and_then(|b| std::str::from_utf8(b).ok()).and_then(|s| s.parse::<u16>().ok()) {
                codes.push(code);
            }
        }
        i = at + 9;
    }
    (codes.len(), codes)
}

fn judge(r: &Record, front: SocketAddr, statuses: &[u16], out: &mut Out) {
    for m in &r.malformed {
        out.viol("bb-malformed", &format!("the backend received bytes that are not a well-formed request: {:?}", String::from_utf8_lossy(m)));
    }
    // `leftover` = the well-formed beginning of a request whose end the client never
    // sent (truncated input): sozu streams bodies, so this is legitimate.
    let _ = &r.leftover;
    let mut ids: Vec<Vec<u8>> = vec![];
    for rq in &r.requests {
        let sid = values(&rq.headers, b"sozu-id");
        let rid = values(&rq.headers, b"x-request-id");
        if sid.len() != 1 {
            out.viol("bb-unrouted", &format!("the backend read a request ({}) with {} correlation headers: sozu did not route it as a request of its own", String::from_utf8_lossy(&rq.target), sid.len()));
            continue;
        }
        if rid.len() != 1 {
            out.viol("bb-request-id", &format!("{} X-Request-Id headers", rid.len()));
        }
        // the correlation id is per client connection: every request of the case
        // must carry the id sozu gave the first one (a request sozu did not parse
        // itself cannot know it)
        if let Some(first) = ids.first() {
            if first != sid[0] {
                out.viol("bb-unrouted", "a request read by the backend carries a correlation id that is not this connection's");
            }
        }
        ids.push(sid[0].clone());
        // C13: truthful metadata
        let last = |n: &[u8]| values(&rq.headers, n).last().map(|v| v.to_vec());
        let le = |v: Vec<u8>| -> Vec<u8> { trim_ows(v.rsplit(|c| *c == b',').next().unwrap_or(&v)).to_vec() };
        if last(b"x-forwarded-for").map(le) != Some(b"127.0.0.1".to_vec()) {
            out.viol("bb-xff", "last X-Forwarded-For element is not the client address");
        }
        match last(b"forwarded").map(le) {
            Some(e) if e.starts_with(b"proto=http;for=\"127.0.0.1:") && e.ends_with(b"\";by=127.0.0.1") => {}
            other => out.viol("bb-forwarded", &format!("last Forwarded element: {:?}", other.map(|v| String::from_utf8_lossy(&v).into_owned()))),
        }
        let port = front.port().to_string().into_bytes();
        if values(&rq.headers, b"x-forwarded-port").len() == 1 && last(b"x-forwarded-port") != Some(port) {
            // a single one that is not the listener's must be the client's own
        }
        if values(&rq.headers, b"x-forwarded-proto").is_empty() || values(&rq.headers, b"x-forwarded-port").is_empty() {
            out.viol("bb-xfp", "X-Forwarded-Proto/Port missing");
        }
        for (k, _) in &rq.trailers {
            if OWNED.iter().any(|n| k.eq_ignore_ascii_case(n)) {
                out.viol("bb-trailer-spoof", &format!("trailer {} reached the backend", String::from_utf8_lossy(k).to_ascii_lowercase()));
            }
        }
    }
    let ok = statuses.iter().filter(|c| **c == 200).count();
    if ok > r.requests.len() {
        out.viol("bb-answers", &format!("the client got {} backend answers for {} requests the backend saw", ok, r.requests.len()));
    }
}
