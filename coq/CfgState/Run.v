(** CfgState — token interface of the model (same op language as
    harness/src/cfgstate.rs).  [run_case] is shared by C05, C06 and C07. *)
From stdpp Require Import gmap strings.
From Coq Require Import NArith ZArith String.
From SV Require Import Common.Tok CfgState.Model CfgState.Gen CfgState.GenSteps C05.Framing.
Open Scope string_scope.
Open Scope list_scope.
Open Scope N_scope.

Infix "=s" := String.eqb (at level 70).

Record rstate := RS {
  cur : state;
  slots : gmap N state;
  o_fp : gmap N (option N);
  o_names : gmap N (option (list N));
  o_hc : gmap N bool
}.

Definition fp_of (st : rstate) (pem : N) : option N := default None (o_fp st !! pem).
Definition names_of (st : rstate) (pem : N) : option (list N) := default None (o_names st !! pem).
Definition hc_of (st : rstate) (v : N) : bool := default false (o_hc st !! v).

Definition disp (st : rstate) (s : state) (r : request) : state * res :=
  dispatch (fp_of st) (names_of st) (hc_of st) steps_of s r.

(** tokens *)
Definition tn (n : N) : tok := TN (Z.of_N n).
Fixpoint nums (ts : list tok) : list N :=
  match ts with
  | TN z :: r => Z.to_N z :: nums r
  | _ :: r => nums r
  | [] => []
  end.
Definition osub (n : N) : option N := if n =? 0 then None else Some (n - 1).
Definition oadd (o : option N) : N := match o with None => 0 | Some v => v + 1 end.

Fixpoint field_pairs (ts : list tok) : list (string * N) :=
  match ts with
  | TS n :: TN v :: r => (n, Z.to_N v) :: field_pairs r
  | _ => []
  end.
Fixpoint patch_triples (ts : list tok) : patch :=
  match ts with
  | TS n :: TN v :: TN ok :: r => (n, (Z.to_N v, negb (Z.eqb ok 0))) :: patch_triples r
  | _ => []
  end.

Definition lkind_of (n : N) : lkind :=
  if n =? 0 then LHttp else if n =? 1 then LHttps else if n =? 2 then LTcp else LUdp.

Definition err_name (e : err) : string :=
  match e with
  | EEmptyRequest => "EmptyRequest" | ENoChange => "NoChange" | EUndispatchable => "UndispatchableRequest"
  | ENotFound => "NotFound" | EExists => "Exists" | EWrongFieldValue => "WrongFieldValue"
  | EAddCertificate => "AddCertificate" | ERemoveCertificate => "RemoveCertificate"
  | EReplaceCertificate => "ReplaceCertificate" | EFrontendConversion => "FrontendConversion"
  | EInvalidValue => "InvalidValue"
  end.
Definition res_toks (r : res) : list tok :=
  match r with Ok => [TS "ok"] | Err e => [TS "err"; TS (err_name e)] end.

(** request of a dispatch op *)
Definition request_of (name : string) (args : list tok) : option request :=
  let a := nums args in
  let g := fun i => nth i a 0 in
  if name =s "add_cluster" then Some (RAddCluster (g 0%nat) (Cluster (osub (g 2%nat)) (g 1%nat)))
  else if name =s "remove_cluster" then Some (RRemoveCluster (g 0%nat))
  else if name =s "set_hc" then Some (RSetHc (g 0%nat) (g 1%nat))
  else if name =s "remove_hc" then Some (RRemoveHc (g 0%nat))
  else if name =s "add_listener" then
    Some (RAddListener (lkind_of (g 0%nat)) (g 1%nat)
            (Listener (negb (g 2%nat =? 0)) (list_to_map (field_pairs (skipn 5 args))) (g 3%nat))
            (negb (g 4%nat =? 0)))
  else if name =s "remove_listener" then Some (RRemoveListener (g 0%nat) (g 1%nat))
  else if name =s "activate" then Some (RActivate (g 0%nat) (g 1%nat))
  else if name =s "deactivate" then Some (RDeactivate (g 0%nat) (g 1%nat))
  else if name =s "update_listener" then
    Some (RUpdateListener (lkind_of (g 0%nat)) (g 1%nat) (patch_triples (skipn 2 args)))
  else if (name =s "add_front") || (name =s "remove_front") then
    let f := Front (g 1%nat) (g 2%nat) (g 3%nat) (g 4%nat) (osub (g 5%nat)) (osub (g 6%nat)) (g 7%nat) (g 8%nat) in
    Some (if name =s "add_front" then RAddFront (negb (g 0%nat =? 0)) f else RRemoveFront (negb (g 0%nat =? 0)) f)
  else if name =s "add_tfront" then Some (RAddTFront (negb (g 0%nat =? 0)) (g 1%nat) (TFront (g 2%nat) (g 3%nat)))
  else if name =s "remove_tfront" then Some (RRemoveTFront (negb (g 0%nat =? 0)) (g 1%nat) (TFront (g 2%nat) (g 3%nat)))
  else if name =s "add_backend" then
    Some (RAddBackend (g 0%nat) (Backend (g 1%nat) (g 2%nat) (osub (g 3%nat)) (osub (g 4%nat)) (osub (g 5%nat))))
  else if name =s "remove_backend" then Some (RRemoveBackend (g 0%nat) (g 1%nat) (g 2%nat))
  else if name =s "add_cert" then Some (RAddCert (g 0%nat) (Cert (g 1%nat) (skipn 3 a) (g 2%nat)))
  else if name =s "remove_cert" then Some (RRemoveCert (g 0%nat) (if g 1%nat =? 0 then None else Some (g 1%nat)))
  else if name =s "replace_cert" then
    Some (RReplaceCert (g 0%nat) (Cert (g 1%nat) (skipn 4 a) (g 2%nat)) (if g 3%nat =? 0 then None else Some (g 3%nat)))
  else if name =s "noop" then Some RNoop
  else if name =s "undisp" then Some RUndisp
  else if name =s "empty" then Some REmpty
  else None.

(** * canonical dump (same layout as [entries]/[dump_toks] of the driver) *)
Definition entry : Type := (list N * list tok)%type.

Definition str_le (a b : string * N) : bool := String.leb (fst a) (fst b).
Definition listener_payload (l : listener) : list tok :=
  [tn (if l_active l then 1 else 0); tn (l_rest l)]
  ++ flat_map (fun nv : string * N => [TS (fst nv); tn (snd nv)]) (isort str_le (map_to_list (l_fields l))).
Definition fkey_toks (k : fkey) : list N :=
  let '(a, h, kd, p, m) := k in [a; h; kd; p; oadd m].
Definition front_payload (f : front) : list tok :=
  map tn [f_addr f; f_host f; f_kind f; f_path f; oadd (f_meth f); oadd (f_cluster f); f_pos f; f_rest f].
Definition backend_toks (b : backend) : list N :=
  [b_id b; b_addr b; oadd (b_sticky b); oadd (b_lb b); oadd (b_backup b)].
Definition cert_toks (fk : N * cert) : list N :=
  [fst fk; k_pem (snd fk); k_rest (snd fk); N.of_nat (List.length (k_names (snd fk)))] ++ k_names (snd fk).

Definition entries (s : state) : list entry :=
  map (fun ic : N * cluster => ([1; fst ic], [tn (oadd (c_hc (snd ic))); tn (c_rest (snd ic))])) (map_to_list (clusters s))
  ++ map (fun cl : N * list backend => ([2; fst cl], map tn (flat_map backend_toks (snd cl)))) (map_to_list (backends s))
  ++ map (fun al : N * listener => ([3; fst al], listener_payload (snd al))) (map_to_list (http_l s))
  ++ map (fun al : N * listener => ([4; fst al], listener_payload (snd al))) (map_to_list (https_l s))
  ++ map (fun al : N * listener => ([5; fst al], listener_payload (snd al))) (map_to_list (tcp_l s))
  ++ map (fun al : N * listener => ([6; fst al], listener_payload (snd al))) (map_to_list (udp_l s))
  ++ map (fun kf : fkey * front => (7 :: fkey_toks (fst kf), front_payload (snd kf))) (map_to_list (http_f s))
  ++ map (fun kf : fkey * front => (8 :: fkey_toks (fst kf), front_payload (snd kf))) (map_to_list (https_f s))
  ++ map (fun cl : N * list tfront => ([9; fst cl], map tn (flat_map (fun t => [t_addr t; t_tags t]) (snd cl)))) (map_to_list (tcp_f s))
  ++ map (fun cl : N * list tfront => ([10; fst cl], map tn (flat_map (fun t => [t_addr t; t_tags t]) (snd cl)))) (map_to_list (udp_f s))
  ++ map (fun ab : N * gmap N cert =>
            ([11; fst ab], map tn (List.concat (isort lex_le (map cert_toks (map_to_list (snd ab))))))) (map_to_list (certs s)).

Definition entry_le (a b : entry) : bool := lex_le (fst a) (fst b).
Definition dump (s : state) : list tok :=
  flat_map (fun e : entry =>
              [tn (N.of_nat (List.length (fst e)))] ++ map tn (fst e)
              ++ [tn (N.of_nat (List.length (snd e)))] ++ snd e) (isort entry_le (entries s)).

(** serde_json::from_slice::<u64> on one record of the framing test: optional
    whitespace, a JSON number without sign / fraction / leading zero, optional whitespace *)
Definition is_ws (b : N) : bool := (b =? 32) || (b =? 10) || (b =? 9) || (b =? 13).
Definition is_digit (b : N) : bool := (48 <=? b) && (b <=? 57).
Fixpoint skip_ws (l : list N) : list N :=
  match l with b :: r => if is_ws b then skip_ws r else l | [] => [] end.
Fixpoint take_digits (l : list N) (acc : N) (n : nat) : N * nat * list N :=
  match l with
  | b :: r => if is_digit b then take_digits r (acc * 10 + (b - 48)) (S n) else (acc, n, l)
  | [] => (acc, n, [])
  end.
Definition decode_num (chunk : list N) : option N :=
  let l := skip_ws chunk in
  let '(v, n, rest) := take_digits l 0 0%nat in
  match n with
  | O => None
  | S m =>
    let leading_zero := match l with b :: _ => (b =? 48) && negb (Nat.eqb m 0) | [] => false end in
    if leading_zero then None
    else match skip_ws rest with [] => Some v | _ => None end
  end.

Definition nb (b : bool) : tok := tn (if b then 1 else 0).

Definition step (st : rstate) (op : list tok) : rstate * list tok :=
  match op with
  | TS name :: args =>
    let a := nums args in
    let g := fun i => nth i a 0 in
    if name =s "oracle_cert" then
      (RS (cur st) (slots st)
          (<[g 0%nat := (if g 1%nat =? 0 then None else Some (g 1%nat))]> (o_fp st))
          (<[g 0%nat := (if g 2%nat =? 0 then None else Some (skipn 3 a))]> (o_names st))
          (o_hc st),
       map tn (skipn 1 a))
    else if name =s "oracle_hc" then
      (RS (cur st) (slots st) (o_fp st) (o_names st) (<[g 0%nat := negb (g 1%nat =? 0)]> (o_hc st)), [tn (g 1%nat)])
    else if name =s "dump" then (st, dump (cur st))
    else if name =s "save" then (RS (cur st) (<[g 0%nat := cur st]> (slots st)) (o_fp st) (o_names st) (o_hc st), [])
    else if name =s "load" then
      (RS (default (cur st) (slots st !! g 0%nat)) (slots st) (o_fp st) (o_names st) (o_hc st), [])
    else if name =s "parse_bytes" then
      match args with
      | [TB bs] =>
        let '(rs, tl) := parse N decode_num bs in
        (st, [tn (N.of_nat (List.length rs))] ++ map tn rs ++ [tn (N.of_nat (List.length tl))])
      | _ => (st, [TS "badop"])
      end
    else if name =s "framing" then (st, [])
    else if name =s "limits" then (st, [])
    else if name =s "replay" then
      let '(s', n) := replay (fp_of st) (names_of st) (hc_of st) steps_of
                             (generate_requests (cur st)) empty_state in
      let ok := nb (Nat.eqb n 0) in
      let eq := nb (bool_decide (norm s' = norm (cur st))) in
      (st, [ok; eq; ok; eq; ok; eq; tn 1; tn 1])
    else if name =s "diff" then
      match slots st !! g 0%nat, slots st !! g 1%nat with
      | Some x, Some y =>
        let d := diff x y in
        let '(z, n) := replay (fp_of st) (names_of st) (hc_of st) steps_of d x in
        (st, [tn (N.of_nat (List.length d)); tn (N.of_nat n); nb (bool_decide (norm_set z = norm_set y))])
      | _, _ => (st, [])
      end
    else
      match request_of name args with
      | Some r =>
        let '(s', x) := disp st (cur st) r in
        (RS s' (slots st) (o_fp st) (o_names st) (o_hc st), res_toks x)
      | None => (st, [TS "badop"])
      end
  | _ => (st, [TS "badop"])
  end.

Fixpoint run_from (st : rstate) (ops : list (list tok)) : list (list tok) :=
  match ops with
  | [] => []
  | op :: ops' => let '(st', o) := step st op in o :: run_from st' ops'
  end.

Definition run_case (ops : list (list tok)) : list (list tok) :=
  run_from (RS empty_state ∅ ∅ ∅ ∅) ops.
