(** CfgState — lemmas about the model (C07: rejected commands are no-ops, frame). *)
From stdpp Require Import gmap strings.
From Coq Require Import NArith Lia.
From SV Require Import CfgState.Model CfgState.Spec.
Open Scope N_scope.

(** * Step lists *)
Lemma run_steps_mut_ok st p found cur :
  forallb is_mut st = true -> snd (run_steps st p found cur) = UOk.
Proof.
  revert cur. induction st as [|s r IH]; intros cur H; [reflexivity|].
  cbn [forallb] in H. apply andb_prop in H as [Hs Hr].
  destruct s; cbn [is_mut] in Hs; try discriminate; cbn [run_steps]; apply IH; exact Hr.
Qed.

(** every fallible step precedes every mutation => an error leaves the listener untouched *)
Theorem atomic_err_untouched st p found cur c u :
  atomic st = true ->
  (cur = None \/ cur = found) ->
  run_steps st p found cur = (c, u) -> u <> UOk ->
  c = None \/ c = found.
Proof.
  revert cur. induction st as [|s r IH]; intros cur Hat Hcur Hrun Hu.
  - cbn in Hrun. inversion Hrun; subst. congruence.
  - cbn [atomic] in Hat. destruct (is_mut s) eqn:Hm.
    + exfalso. apply Hu.
      assert (Hok : snd (run_steps (s :: r) p found cur) = UOk).
      { apply run_steps_mut_ok. cbn [forallb]. rewrite Hm, Hat. reflexivity. }
      rewrite Hrun in Hok. exact Hok.
    + destruct s; cbn [is_mut] in Hm; try discriminate; cbn [run_steps] in Hrun.
      * destruct (knobs_ok tbl p); [eapply (IH cur); eauto|]. inversion Hrun; subst; exact Hcur.
      * destruct (field_ok p f); [eapply (IH cur); eauto|]. inversion Hrun; subst; exact Hcur.
      * destruct found as [l|]; [|inversion Hrun; subst; exact Hcur].
        eapply (IH (Some l)); eauto.
Qed.

(** * Sorting *)
Lemma lex_le_total a b : lex_le a b = false -> lex_le b a = true.
Proof.
  revert b. induction a as [|x a IH]; intros [|y b]; cbn; try congruence.
  destruct (x <? y) eqn:Hxy; [congruence|].
  destruct (y <? x) eqn:Hyx; [reflexivity|].
  apply IH.
Qed.

Lemma bk_le_total a b : bk_le a b = false -> bk_le b a = true.
Proof. apply lex_le_total. Qed.

Section sorting.
  Context {A : Type} (le : A -> A -> bool).
  Hypothesis le_total : forall a b, le a b = false -> le b a = true.

  Inductive sorted : list A -> Prop :=
  | sorted_nil : sorted []
  | sorted_one x : sorted [x]
  | sorted_cons x y l : le x y = true -> sorted (y :: l) -> sorted (x :: y :: l).

  Lemma insert_sorted_sorted x l : sorted l -> sorted (insert_sorted le x l).
  Proof.
    induction 1 as [|y|y z l Hyz Hs IH]; cbn [insert_sorted].
    - constructor.
    - destruct (le x y) eqn:E; repeat constructor; auto.
    - destruct (le x y) eqn:E.
      + repeat constructor; auto.
      + cbn [insert_sorted] in IH. destruct (le x z) eqn:E2.
        * constructor; [auto|]. constructor; auto.
        * constructor; auto.
  Qed.

  Lemma isort_sorted l : sorted (isort le l).
  Proof. induction l; cbn [isort]; [constructor|]. apply insert_sorted_sorted. assumption. Qed.

  Lemma insert_sorted_head x l : sorted (x :: l) -> insert_sorted le x l = x :: l.
  Proof. inversion 1; subst; cbn [insert_sorted]; [reflexivity|]. rewrite H2. reflexivity. Qed.

  Lemma sorted_tail x l : sorted (x :: l) -> sorted l.
  Proof. inversion 1; subst; [constructor|assumption]. Qed.

  Lemma isort_id l : sorted l -> isort le l = l.
  Proof.
    induction l as [|x l IH]; intros H; [reflexivity|].
    cbn [isort]. rewrite IH by (eapply sorted_tail; eauto).
    apply insert_sorted_head. exact H.
  Qed.

  Lemma isort_idem l : isort le (isort le l) = isort le l.
  Proof. apply isort_id, isort_sorted. Qed.

  Lemma In_insert_sorted z x l : In z (insert_sorted le x l) <-> z = x \/ In z l.
  Proof.
    induction l as [|y l IH]; cbn [insert_sorted].
    - cbn. intuition.
    - destruct (le x y); cbn [In]; [intuition|]. rewrite IH. intuition.
  Qed.
  Lemma In_isort z l : In z (isort le l) <-> In z l.
  Proof.
    induction l as [|y l IH]; cbn [isort]; [reflexivity|].
    rewrite In_insert_sorted, IH. cbn. intuition.
  Qed.

  Lemma insert_sorted_length x l : length (insert_sorted le x l) = S (length l).
  Proof. induction l as [|a l IH]; cbn [insert_sorted]; [reflexivity|]. destruct (le x a); cbn; congruence. Qed.
  Lemma isort_length l : length (isort le l) = length l.
  Proof. induction l as [|a l IH]; cbn [isort]; [reflexivity|]. rewrite insert_sorted_length. cbn. congruence. Qed.
End sorting.

Lemma lfilter_length_le {A} (f : A -> bool) l : (length (List.filter f l) <= length l)%nat.
Proof. induction l as [|x l IH]; cbn; [lia|]. destruct (f x); cbn; lia. Qed.

Lemma filter_length_eq {A} (f : A -> bool) l : length (List.filter f l) = length l -> List.filter f l = l.
Proof.
  induction l as [|x l IH]; cbn; [reflexivity|].
  destruct (f x); cbn; intros H.
  - f_equal. apply IH. lia.
  - pose proof (lfilter_length_le f l). lia.
Qed.

Lemma stdpp_filter_length_eq {A} (P : A -> Prop) `{!forall x, Decision (P x)} (l : list A) :
  length (filter P l) = length l -> filter P l = l.
Proof.
  induction l as [|x l IH]; [reflexivity|].
  rewrite filter_cons. destruct (decide (P x)); cbn; intros Hlen.
  - f_equal. apply IH. lia.
  - pose proof (filter_length P l). lia.
Qed.

(** * Invariant of reachable states (the part C07 needs): backend buckets are sorted *)
Lemma Inv_empty : Inv empty_state.
Proof. intros c l H. cbn in H. rewrite lookup_empty in H. discriminate. Qed.

Lemma state_eta s :
  State (clusters s) (backends s) (http_l s) (https_l s) (tcp_l s) (udp_l s)
        (http_f s) (https_f s) (tcp_f s) (udp_f s) (certs s) = s.
Proof. destruct s; reflexivity. Qed.

Lemma set_l_get_l k s : set_l k s (get_l k s) = s.
Proof. destruct k, s; reflexivity. Qed.
Lemma set_t_get_t u s : set_t u s (get_t u s) = s.
Proof. destruct u, s; reflexivity. Qed.
Lemma backends_set_l k s m : backends (set_l k s m) = backends s.
Proof. destruct k; reflexivity. Qed.
Lemma backends_set_f t s m : backends (set_f t s m) = backends s.
Proof. destruct t; reflexivity. Qed.
Lemma backends_set_t t s m : backends (set_t t s m) = backends s.
Proof. destruct t; reflexivity. Qed.

Section dispatch.
  Variable fingerprint : N -> option N.
  Variable inames : N -> option (list N).
  Variable hc_valid : N -> bool.
  Variable steps : lkind -> list step.
  Hypothesis steps_atomic : forall k, atomic (steps k) = true.

  Notation dispatch := (dispatch fingerprint inames hc_valid steps).

  Ltac inv_pair H := inversion H; subst; clear H.

  Lemma Inv_backends_eq s s' : backends s' = backends s -> Inv s -> Inv s'.
  Proof. intros E H c l. rewrite E. apply H. Qed.

  Lemma Inv_dispatch s r : Inv s -> Inv (fst (dispatch s r)).
  Proof.
    intros HI. destruct r; cbn [dispatch].
    - unfold add_cluster. destruct (c_hc c); [destruct (hc_valid n)|]; cbn; auto.
    - unfold remove_cluster. destruct (clusters s !! id); cbn; auto.
    - unfold set_health_check. destruct (hc_valid hc); [destruct (clusters s !! id)|]; cbn; auto.
    - unfold remove_health_check. destruct (clusters s !! id); cbn; auto.
    - unfold add_listener. destruct (needs_sid k && negb sid_ok); [auto|]. destruct (get_l k s !! a); cbn; auto.
      eapply Inv_backends_eq; [apply backends_set_l|auto].
    - unfold remove_listener. destruct (kind_of proxy); [destruct (get_l l s !! a)|]; cbn; auto.
      eapply Inv_backends_eq; [apply backends_set_l|auto].
    - unfold set_active. destruct (kind_of proxy); [destruct (get_l l s !! a)|]; cbn; auto.
      eapply Inv_backends_eq; [apply backends_set_l|auto].
    - unfold set_active. destruct (kind_of proxy); [destruct (get_l l s !! a)|]; cbn; auto.
      eapply Inv_backends_eq; [apply backends_set_l|auto].
    - unfold update_listener.
      destruct (run_steps (steps k) p (option_map l_fields (get_l k s !! a)) None) as [cur u].
      destruct (get_l k s !! a), cur; cbn; auto.
      eapply Inv_backends_eq; [apply backends_set_l|auto].
    - unfold add_front. destruct (get_f tls s !! front_key f); [|destruct (f_pos f <? 3)]; cbn; auto.
      eapply Inv_backends_eq; [apply backends_set_f|auto].
    - unfold remove_front. destruct (get_f tls s !! front_key f); cbn; auto.
      eapply Inv_backends_eq; [apply backends_set_f|auto].
    - unfold add_tfront. destruct (addr_elsewhere _ _ _); [exact HI|]. destruct (bool_decide _); cbn;
        (eapply Inv_backends_eq; [apply backends_set_t|auto]).
    - unfold remove_tfront. destruct (get_t udp s !! c); cbn; auto.
      destruct (_ =? _)%nat; cbn; (eapply Inv_backends_eq; [apply backends_set_t|auto]).
    - unfold add_backend. cbn. intros c' l Hl. cbn in Hl.
      destruct (decide (c' = c)) as [->|Hne].
      + rewrite lookup_insert in Hl. inversion Hl; subst. apply isort_idem, bk_le_total.
      + rewrite lookup_insert_ne in Hl by congruence. eapply HI; eauto.
    - unfold remove_backend. destruct (backends s !! c) eqn:Hc; cbn; auto.
      assert (HI' : Inv (set_backends s (<[c:=isort bk_le (List.filter (fun x => negb (same_backend id a x)) l)]> (backends s)))).
      { intros c' l' Hl. cbn in Hl. destruct (decide (c' = c)) as [->|Hne].
        - rewrite lookup_insert in Hl. inversion Hl; subst. apply isort_idem, bk_le_total.
        - rewrite lookup_insert_ne in Hl by congruence. eapply HI; eauto. }
      destruct (_ =? _)%nat; cbn; exact HI'.
    - unfold add_certificate. destruct (fingerprint (k_pem k)); [|auto].
      destruct (resolve inames k); [|auto].
      destruct (default ∅ (certs s !! a) !! n); cbn; auto.
    - unfold remove_certificate. destruct fp; [|auto]. destruct (certs s !! a); cbn; auto.
    - unfold replace_certificate. destruct old; [|auto].
      destruct (fingerprint (k_pem k)); [|auto]. destruct (resolve inames k); [|auto].
      destruct (certs s !! a); [|auto]. cbn [certs set_certs].
      rewrite lookup_insert. rewrite lookup_insert. cbn. auto.
    - auto.
    - auto.
    - auto.
  Qed.

  (** ** C07: a command answered with an error leaves the configuration unchanged *)
  Theorem err_is_noop s r s' e :
    Inv s -> dispatch s r = (s', Err e) -> s' = s.
  Proof.
    intros HI H. destruct r; cbn [dispatch] in H.
    - unfold add_cluster in H. destruct (c_hc c); [destruct (hc_valid n)|]; inv_pair H; reflexivity.
    - unfold remove_cluster in H. destruct (clusters s !! id); inv_pair H; reflexivity.
    - unfold set_health_check in H. destruct (hc_valid hc); [destruct (clusters s !! id)|]; inv_pair H; reflexivity.
    - unfold remove_health_check in H. destruct (clusters s !! id); inv_pair H; reflexivity.
    - unfold add_listener in H. destruct (needs_sid k && negb sid_ok); [inv_pair H; reflexivity|]. destruct (get_l k s !! a); inv_pair H; reflexivity.
    - unfold remove_listener in H. destruct (kind_of proxy); [destruct (get_l l s !! a)|]; inv_pair H; reflexivity.
    - unfold set_active in H. destruct (kind_of proxy); [destruct (get_l l s !! a)|]; inv_pair H; reflexivity.
    - unfold set_active in H. destruct (kind_of proxy); [destruct (get_l l s !! a)|]; inv_pair H; reflexivity.
    - unfold update_listener in H.
      destruct (run_steps (steps k) p (option_map l_fields (get_l k s !! a)) None) as [cur u] eqn:Hrun.
      assert (Hu : u <> UOk) by (intros ->; inversion H).
      pose proof (atomic_err_untouched _ _ _ _ _ _ (steps_atomic k) (or_introl eq_refl) Hrun Hu) as Hc.
      destruct (get_l k s !! a) as [l|] eqn:Hl; cbn [option_map] in Hc.
      + destruct Hc as [->| ->].
        * inv_pair H. reflexivity.
        * inv_pair H. destruct l as [act fs rest]; cbn [l_active l_fields l_rest].
          rewrite insert_id by exact Hl. apply set_l_get_l.
      + destruct cur; inv_pair H; reflexivity.
    - unfold add_front in H. destruct (get_f tls s !! front_key f); [|destruct (f_pos f <? 3)]; inv_pair H; reflexivity.
    - unfold remove_front in H. destruct (get_f tls s !! front_key f); inv_pair H; reflexivity.
    - unfold add_tfront in H. destruct (addr_elsewhere _ _ _); [inv_pair H; reflexivity|]. destruct (bool_decide _) eqn:Hin; inv_pair H.
      apply bool_decide_eq_true in Hin.
      destruct (get_t udp s !! c) as [l|] eqn:Hl; cbn [default] in *.
      + rewrite insert_id by exact Hl. apply set_t_get_t.
      + cbn in Hin. inversion Hin.
    - unfold remove_tfront in H. destruct (get_t udp s !! c) as [l|] eqn:Hl; [|inv_pair H; reflexivity].
      destruct (_ =? _)%nat eqn:Hlen; inv_pair H.
      apply Nat.eqb_eq in Hlen. apply stdpp_filter_length_eq in Hlen. rewrite Hlen.
      rewrite insert_id by exact Hl. apply set_t_get_t.
    - unfold add_backend in H. inv_pair H.
    - unfold remove_backend in H. destruct (backends s !! c) as [l|] eqn:Hl; [|inv_pair H; reflexivity].
      destruct (_ =? _)%nat eqn:Hlen; inv_pair H.
      apply Nat.eqb_eq in Hlen. rewrite isort_length in Hlen. apply filter_length_eq in Hlen.
      rewrite Hlen. rewrite (HI _ _ Hl). rewrite insert_id by exact Hl.
      destruct s; reflexivity.
    - unfold add_certificate in H. destruct (fingerprint (k_pem k)); [|inv_pair H; reflexivity].
      destruct (resolve inames k); [|inv_pair H; reflexivity].
      destruct (default ∅ (certs s !! a) !! n); inv_pair H.
    - unfold remove_certificate in H. destruct fp; [|inv_pair H; reflexivity].
      destruct (certs s !! a); inv_pair H.
    - unfold replace_certificate in H. destruct old; [|inv_pair H; reflexivity].
      destruct (fingerprint (k_pem k)); [|inv_pair H; reflexivity].
      destruct (resolve inames k); [|inv_pair H; reflexivity].
      destruct (certs s !! a); [|inv_pair H; reflexivity].
      cbn [certs set_certs] in H. rewrite lookup_insert in H. rewrite lookup_insert in H. inv_pair H.
    - inv_pair H.
    - inv_pair H. reflexivity.
    - inv_pair H. reflexivity.
  Qed.

  Notation reachable := (reachable fingerprint inames hc_valid steps).

  Lemma reachable_Inv s : reachable s -> Inv s.
  Proof. induction 1; [apply Inv_empty|apply Inv_dispatch; assumption]. Qed.

  Corollary err_is_noop_reachable s r s' e :
    reachable s -> dispatch s r = (s', Err e) -> s' = s.
  Proof. intros Hr. apply err_is_noop, reachable_Inv, Hr. Qed.

  (** ** C07: an accepted (or rejected) command touches only the entry it names *)
  Lemma frame_refl t s : frame t s s.
  Proof. repeat split; reflexivity. Qed.

  Lemma frame_clusters i m s :
    (forall j, j <> i -> m !! j = clusters s !! j) -> frame (TCluster i) s (set_clusters s m).
  Proof.
    intros H. repeat split; try reflexivity.
    intros j Hj. cbn. apply H. congruence.
  Qed.
  Lemma frame_backends c m s :
    (forall j, j <> c -> m !! j = backends s !! j) -> frame (TBucket c) s (set_backends s m).
  Proof.
    intros H. repeat split; try reflexivity.
    intros j Hj. cbn. apply H. congruence.
  Qed.
  Lemma frame_certs a m s :
    (forall j, j <> a -> m !! j = certs s !! j) -> frame (TCert a) s (set_certs s m).
  Proof.
    intros H. repeat split; try reflexivity.
    intros j Hj. cbn. apply H. congruence.
  Qed.
  Lemma frame_listener k a m s :
    (forall j, j <> a -> m !! j = get_l k s !! j) -> frame (TListener k a) s (set_l k s m).
  Proof.
    intros H. repeat split; try (destruct k; reflexivity).
    all: intros; repeat match goal with x : lkind |- _ => destruct x | x : bool |- _ => destruct x end;
      cbn; try reflexivity; apply H; congruence.
  Qed.
  Lemma frame_front tls key m s :
    (forall j, j <> key -> m !! j = get_f tls s !! j) -> frame (THttpFront tls key) s (set_f tls s m).
  Proof.
    intros H. repeat split; try (destruct tls; reflexivity).
    all: intros; repeat match goal with x : lkind |- _ => destruct x | x : bool |- _ => destruct x end;
      cbn; try reflexivity; apply H; congruence.
  Qed.
  Lemma frame_tfront udp c m s :
    (forall j, j <> c -> m !! j = get_t udp s !! j) -> frame (TTFront udp c) s (set_t udp s m).
  Proof.
    intros H. repeat split; try (destruct udp; reflexivity).
    all: intros; repeat match goal with x : lkind |- _ => destruct x | x : bool |- _ => destruct x end;
      cbn; try reflexivity; apply H; congruence.
  Qed.

  Ltac other_key := let j := fresh "j" in let Hj := fresh "Hj" in
    intros j Hj; first [rewrite lookup_insert_ne by congruence | rewrite lookup_delete_ne by congruence]; reflexivity.

  Theorem dispatch_frame s r s' x :
    dispatch s r = (s', x) -> frame (target_of r) s s'.
  Proof.
    intros H. destruct r; cbn [dispatch target_of] in *.
    - unfold add_cluster in H. destruct (c_hc c); [destruct (hc_valid n)|]; inv_pair H;
        first [apply frame_refl | apply frame_clusters; other_key].
    - unfold remove_cluster in H. destruct (clusters s !! id); inv_pair H;
        first [apply frame_refl | apply frame_clusters; other_key].
    - unfold set_health_check in H. destruct (hc_valid hc); [destruct (clusters s !! id)|]; inv_pair H;
        first [apply frame_refl | apply frame_clusters; other_key].
    - unfold remove_health_check in H. destruct (clusters s !! id); inv_pair H;
        first [apply frame_refl | apply frame_clusters; other_key].
    - unfold add_listener in H. destruct (needs_sid k && negb sid_ok); [inv_pair H; apply frame_refl|]. destruct (get_l k s !! a); inv_pair H;
        first [apply frame_refl | apply frame_listener; other_key].
    - unfold remove_listener in H. destruct (kind_of proxy); [destruct (get_l l s !! a)|]; inv_pair H;
        first [apply frame_refl | apply frame_listener; other_key].
    - unfold set_active in H. destruct (kind_of proxy); [destruct (get_l l s !! a)|]; inv_pair H;
        first [apply frame_refl | apply frame_listener; other_key].
    - unfold set_active in H. destruct (kind_of proxy); [destruct (get_l l s !! a)|]; inv_pair H;
        first [apply frame_refl | apply frame_listener; other_key].
    - unfold update_listener in H.
      destruct (run_steps (steps k) p (option_map l_fields (get_l k s !! a)) None) as [cur u].
      destruct (get_l k s !! a), cur; inv_pair H;
        first [apply frame_refl | apply frame_listener; other_key].
    - unfold add_front in H. destruct (get_f tls s !! front_key f); [|destruct (f_pos f <? 3)]; inv_pair H;
        first [apply frame_refl | apply frame_front; other_key].
    - unfold remove_front in H. destruct (get_f tls s !! front_key f); inv_pair H;
        first [apply frame_refl | apply frame_front; other_key].
    - unfold add_tfront in H. destruct (addr_elsewhere _ _ _); [inv_pair H; apply frame_refl|]. destruct (bool_decide _); inv_pair H; apply frame_tfront; other_key.
    - unfold remove_tfront in H. destruct (get_t udp s !! c); [|inv_pair H; apply frame_refl].
      destruct (_ =? _)%nat; inv_pair H; apply frame_tfront; other_key.
    - unfold add_backend in H. inv_pair H. apply frame_backends; other_key.
    - unfold remove_backend in H. destruct (backends s !! c); [|inv_pair H; apply frame_refl].
      destruct (_ =? _)%nat; inv_pair H; apply frame_backends; other_key.
    - unfold add_certificate in H. destruct (fingerprint (k_pem k)); [|inv_pair H; apply frame_refl].
      destruct (resolve inames k); [|inv_pair H; apply frame_refl].
      destruct (default ∅ (certs s !! a) !! n); inv_pair H; apply frame_certs; other_key.
    - unfold remove_certificate in H. destruct fp; [|inv_pair H; apply frame_refl].
      destruct (certs s !! a); inv_pair H; first [apply frame_refl | apply frame_certs; other_key].
    - unfold replace_certificate in H. destruct old; [|inv_pair H; apply frame_refl].
      destruct (fingerprint (k_pem k)); [|inv_pair H; apply frame_refl].
      destruct (resolve inames k); [|inv_pair H; apply frame_refl].
      destruct (certs s !! a); [|inv_pair H; apply frame_refl].
      cbn [certs set_certs] in H. rewrite lookup_insert in H. rewrite lookup_insert in H. inv_pair H.
      apply frame_certs; other_key.
    - inv_pair H. apply frame_refl.
    - inv_pair H. apply frame_refl.
    - inv_pair H. apply frame_refl.
  Qed.

  (** what an accepted command leaves at the entry it names (per verb) *)
  Lemma ok_add_cluster s i c s' : dispatch s (RAddCluster i c) = (s', Ok) -> clusters s' !! i = Some c.
  Proof.
    cbn. unfold add_cluster. destruct (c_hc c); [destruct (hc_valid n)|]; intros H; inv_pair H; cbn; apply lookup_insert.
  Qed.
  Lemma ok_remove_cluster s i s' : dispatch s (RRemoveCluster i) = (s', Ok) -> clusters s' !! i = None /\ is_Some (clusters s !! i).
  Proof.
    cbn. unfold remove_cluster. destruct (clusters s !! i) eqn:E; intros H; inv_pair H; cbn.
    split; [apply lookup_delete|eauto].
  Qed.
  Lemma ok_add_listener s k a l ok s' : dispatch s (RAddListener k a l ok) = (s', Ok) -> get_l k s' !! a = Some l /\ get_l k s !! a = None.
  Proof.
    cbn. unfold add_listener. destruct (needs_sid k && negb ok); [intros H; inv_pair H|]. destruct (get_l k s !! a) eqn:E; intros H; inv_pair H.
    split; [|reflexivity]. destruct k; cbn; apply lookup_insert.
  Qed.
  Lemma ok_remove_listener s p a s' k :
    kind_of p = Some k -> dispatch s (RRemoveListener p a) = (s', Ok) -> get_l k s' !! a = None.
  Proof.
    cbn. unfold remove_listener. intros ->. destruct (get_l k s !! a) eqn:E; intros H; inv_pair H.
    destruct k; cbn; apply lookup_delete.
  Qed.
  Lemma ok_set_active s p a (v : bool) s' k :
    kind_of p = Some k -> dispatch s (if v then RActivate p a else RDeactivate p a) = (s', Ok) ->
    exists l, get_l k s !! a = Some l /\ get_l k s' !! a = Some (Listener v (l_fields l) (l_rest l)).
  Proof.
    intros Hk H. assert (H' : set_active s p a v = (s', Ok)) by (destruct v; exact H). clear H.
    unfold set_active in H'. rewrite Hk in H'. destruct (get_l k s !! a) as [l|] eqn:E; inv_pair H'.
    exists l. split; [reflexivity|]. destruct k; cbn; apply lookup_insert.
  Qed.
  Lemma ok_add_front s tls f s' :
    dispatch s (RAddFront tls f) = (s', Ok) -> get_f tls s' !! front_key f = Some f /\ get_f tls s !! front_key f = None.
  Proof.
    cbn. unfold add_front. destruct (get_f tls s !! front_key f) eqn:E; [intros H; inv_pair H|].
    destruct (f_pos f <? 3); intros H; inv_pair H. split; [|reflexivity]. destruct tls; cbn; apply lookup_insert.
  Qed.
  Lemma ok_remove_front s tls f s' :
    dispatch s (RRemoveFront tls f) = (s', Ok) -> get_f tls s' !! front_key f = None.
  Proof.
    cbn. unfold remove_front. destruct (get_f tls s !! front_key f) eqn:E; intros H; inv_pair H.
    destruct tls; cbn; apply lookup_delete.
  Qed.
  Lemma ok_add_backend s c b s' :
    dispatch s (RAddBackend c b) = (s', Ok) ->
    exists l, backends s' !! c = Some l /\ isort bk_le l = l /\ In b l.
  Proof.
    cbn. unfold add_backend. intros H; inv_pair H. cbn. rewrite lookup_insert. eexists; split; [reflexivity|].
    split; [apply isort_idem, bk_le_total|].
    apply In_isort. apply in_or_app. right. left. reflexivity.
  Qed.
End dispatch.
