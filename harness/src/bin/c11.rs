//! C11 driver: the real `Channel` over a socketpair; the driver owns the peer
//! end as a raw non-blocking stream.
use std::io::{Read, Write};
use std::os::unix::net::UnixStream;

use mio::net::UnixStream as MioUnixStream;
use prost::Message;
use sozu_command_lib::{
    channel::{Channel, ChannelError},
    proto::command::WorkerResponse,
    ready::Ready,
};
use verif_harness::*;

type Chan = Channel<WorkerResponse, WorkerResponse>;

fn err_name(e: &ChannelError) -> &'static str {
    match e {
        ChannelError::Read(_) => "Read",
        ChannelError::NoByteWritten => "NoByteWritten",
        ChannelError::NoByteToRead => "NoByteToRead",
        ChannelError::MessageTooLarge { .. } => "MessageTooLarge",
        ChannelError::MessageLengthUnderDelimiter { .. } => "MessageLengthUnderDelimiter",
        ChannelError::Write(_) => "Write",
        ChannelError::BufferFull { .. } => "BufferFull",
        ChannelError::TimeoutReached(_) => "TimeoutReached",
        ChannelError::NothingRead => "NothingRead",
        ChannelError::InvalidCharSet(_) => "InvalidCharSet",
        ChannelError::SetTimeout { .. } => "SetTimeout",
        ChannelError::BlockingStatus { .. } => "BlockingStatus",
        ChannelError::Connection(_) => "Connection",
        ChannelError::InvalidProtobufMessage(_) => "InvalidProtobufMessage",
        ChannelError::MismatchBufferSize => "MismatchBufferSize",
    }
}

fn st(c: &Chan) -> Vec<Tok> {
    vec![
        tn(c.front_buf.capacity()),
        tn(c.front_buf.available_data()),
        tn(c.front_buf.available_space()),
        tn(c.back_buf.capacity()),
        tn(c.back_buf.available_data()),
        tn(c.back_buf.available_space()),
        tbool(c.interest.is_readable()),
        tbool(c.interest.is_writable()),
        tbool(c.readiness.is_readable()),
        tbool(c.readiness.is_writable()),
        tbool(c.readiness.is_hup()),
    ]
}

fn msg_toks(r: &Result<WorkerResponse, ChannelError>) -> Vec<Tok> {
    match r {
        Ok(m) => vec![ts("ok"), tb(&m.encode_to_vec())],
        Err(e) => vec![ts("err"), ts(err_name(e))],
    }
}

struct St {
    chan: Chan,
    peer: UnixStream,
    max: usize,
    /// what the peer wrote, and how many bytes of it were well-formed frames
    /// delivered so far (oracle bookkeeping, independent of the model)
    sent_good: Vec<Vec<u8>>,
    delivered: Vec<Vec<u8>>,
    written: Vec<u8>,
    peer_got: Vec<u8>,
}

fn run(case: &Case, out: &mut Out) {
    let mut st_: Option<St> = None;
    let mut bad: Vec<Vec<u8>> = vec![];
    let mut prev: &str = "";
    for op in &case.ops {
        let a = &op.args;
        // A declared length above the ceiling at the head of the read buffer: nothing can be delivered any more.
        // The read attempt that meets it must flag the channel as failed, which is what makes the command server
        // close the session (real bin/src/command/sessions.rs wants_to_tick + the is_error() test of
        // ClientSession / WorkerSession::ready).  The attempt is made here (it changes nothing the model tracks:
        // theorem oversize_prefix_is_error) because the owner loops stop at the first error of a turn.
        if matches!(prev, "read" | "turn" | "extract" | "drain_check" | "drain_check_x") {
            if let Some(s) = st_.as_mut() {
                let d = s.chan.front_buf.data();
                if d.len() >= 8 {
                    let declared = u64::from_le_bytes(d[..8].try_into().unwrap());
                    if declared > s.max as u64 {
                        let before = st(&s.chan);
                        let r = s.chan.read_message();
                        let flagged = s.chan.readiness.is_error() && sozu::command::sessions::wants_to_tick(&s.chan);
                        if !matches!(r, Err(ChannelError::MessageTooLarge { .. })) || st(&s.chan) != before {
                            out.viol("oversize-not-clean", &format!(
                                "a declared length of {declared} bytes (max {}) was answered {:?} or changed the buffers", s.max, r.map(|_| ())));
                        } else if !flagged {
                            out.viol("oversize-wedge", &format!(
                                "a read met a declared length of {declared} bytes (max {}) and the channel is not flagged as failed: the session owning it is never closed and nothing is ever delivered again", s.max));
                        }
                    }
                }
            }
        }
        prev = op.name.as_str();
        match op.name.as_str() {
            "new" => {
                let (x, y) = UnixStream::pair().unwrap();
                x.set_nonblocking(true).unwrap();
                y.set_nonblocking(true).unwrap();
                let chan: Chan = Channel::new(MioUnixStream::from_std(x), a[0].n() as u64, a[1].n() as u64);
                st_ = Some(St {
                    chan,
                    peer: y,
                    max: a[1].n() as usize,
                    sent_good: vec![],
                    delivered: vec![],
                    written: vec![],
                    peer_got: vec![],
                });
                out.obs(&[]);
            }
            "bad" => {
                for t in a {
                    let p = t.b().to_vec();
                    if WorkerResponse::decode(&p[..]).is_ok() {
                        out.note("invalid-case: payload declared undecodable decodes");
                    }
                    bad.push(p);
                }
                out.obs(&[]);
            }
            // oracle bookkeeping only: the generator says which well-formed,
            // decodable, in-bounds frames it sends, in order
            "expect" => {
                let s = st_.as_mut().unwrap();
                for t in a {
                    let p = t.b().to_vec();
                    match WorkerResponse::decode(&p[..]) {
                        Ok(m) if m.encode_to_vec() == p => {}
                        _ => out.note("invalid-case: expected payload is not canonical"),
                    }
                    s.sent_good.push(p);
                }
                out.obs(&[]);
            }
            "arrive" => {
                let s = st_.as_mut().unwrap();
                s.peer.write_all(a[0].b()).expect("peer write");
                out.obs(&[]);
            }
            "peer_close" => {
                let s = st_.as_mut().unwrap();
                s.peer.shutdown(std::net::Shutdown::Write).unwrap();
                out.obs(&[]);
            }
            "ev" => {
                let s = st_.as_mut().unwrap();
                let mut r = Ready::EMPTY;
                if a[0].n() == 1 {
                    r.insert(Ready::READABLE);
                }
                if a[1].n() == 1 {
                    r.insert(Ready::WRITABLE);
                }
                s.chan.handle_events(r);
                out.obs(&st(&s.chan));
            }
            "readable" => {
                let s = st_.as_mut().unwrap();
                let r = s.chan.readable();
                let mut t = match &r {
                    Ok(n) => vec![ts("ok"), tn(*n)],
                    Err(e) => vec![ts("err"), ts(err_name(e))],
                };
                t.extend(st(&s.chan));
                out.obs(&t);
            }
            "read" => {
                let s = st_.as_mut().unwrap();
                let r = s.chan.read_message();
                if let Ok(m) = &r {
                    s.delivered.push(m.encode_to_vec());
                }
                let mut t = msg_toks(&r);
                t.extend(st(&s.chan));
                out.obs(&t);
            }
            "write" => {
                let s = st_.as_mut().unwrap();
                let p = a[0].b();
                let m = WorkerResponse::decode(p).expect("write payload must decode");
                if m.encode_to_vec() != p {
                    out.note("invalid-case: write payload is not canonical");
                }
                let r = s.chan.write_message(&m);
                let mut t = match &r {
                    Ok(()) => {
                        s.written.extend_from_slice(&((p.len() + 8) as u64).to_le_bytes());
                        s.written.extend_from_slice(p);
                        vec![ts("ok")]
                    }
                    Err(e) => {
                        if p.len() + 8 <= s.max && !matches!(e, ChannelError::MessageTooLarge { .. }) {
                            out.viol("write-error", &format!("in-bounds message rejected: {e}"));
                        }
                        vec![ts("err"), ts(err_name(e))]
                    }
                };
                t.extend(st(&s.chan));
                out.obs(&t);
            }
            "writable" => {
                let s = st_.as_mut().unwrap();
                let r = s.chan.writable();
                let mut got = vec![];
                let mut tmp = [0u8; 65536];
                loop {
                    match s.peer.read(&mut tmp) {
                        Ok(0) => break,
                        Ok(n) => got.extend_from_slice(&tmp[..n]),
                        Err(_) => break,
                    }
                }
                s.peer_got.extend_from_slice(&got);
                let mut t = match &r {
                    Ok(n) => vec![ts("ok"), tn(*n)],
                    Err(e) => vec![ts("err"), ts(err_name(e))],
                };
                t.push(tb(&got));
                t.extend(st(&s.chan));
                out.obs(&t);
            }
            // the owner's loop of lib/src/server.rs read_channel_messages_and_notify
            "turn" => {
                let s = st_.as_mut().unwrap();
                let mut t = turn(s, out);
                t.push(ts("st"));
                t.extend(st(&s.chan));
                out.obs(&t);
            }
            // READABLE event + owner turn, repeated while a turn still produces a
            // message or an error (a malformed frame costs one wake-up: both
            // owner loops stop at the first error); then every well-formed
            // frame sent so far must have been delivered
            "drain_check" => {
                let s = st_.as_mut().unwrap();
                let mut t = vec![];
                for _ in 0..64 {
                    s.chan.handle_events(Ready::READABLE);
                    let r = turn(s, out);
                    if r.is_empty() {
                        break;
                    }
                    t.extend(r);
                }
                t.push(ts("st"));
                t.extend(st(&s.chan));
                out.obs(&t);
                if s.delivered.len() != s.sent_good.len() {
                    out.viol("delivery-missing", &format!(
                        "{} of {} well-formed messages delivered after the stream was fully drained",
                        s.delivered.len(), s.sent_good.len()));
                }
            }
            // shrink the channel socket's send buffer to the kernel minimum
            "sndbuf" => {
                let s = st_.as_mut().unwrap();
                let v: libc::c_int = 1;
                unsafe {
                    libc::setsockopt(s.chan.fd(), libc::SOL_SOCKET, libc::SO_SNDBUF,
                        &v as *const _ as *const libc::c_void, std::mem::size_of::<libc::c_int>() as u32);
                }
                out.obs(&[]);
            }
            // writable() without draining the peer (back-pressure)
            "writable_p" => {
                let s = st_.as_mut().unwrap();
                let r = s.chan.writable();
                let mut t = match &r {
                    Ok(n) => vec![ts("ok"), tn(*n)],
                    Err(e) => vec![ts("err"), ts(err_name(e))],
                };
                t.extend(st(&s.chan));
                out.obs(&t);
            }
            "peer_read" => {
                let s = st_.as_mut().unwrap();
                let want = a[0].n() as usize;
                let mut got = vec![0u8; want];
                let mut n = 0;
                while n < want {
                    match s.peer.read(&mut got[n..]) {
                        Ok(0) => break,
                        Ok(k) => n += k,
                        Err(_) => break,
                    }
                }
                got.truncate(n);
                s.peer_got.extend_from_slice(&got);
                out.obs(&[tb(&got)]);
            }
            // the peer reads everything while WRITABLE events keep coming: every
            // framed message accepted by write_message must reach the peer intact
            "flush_check" => {
                let s = st_.as_mut().unwrap();
                let mut tmp = [0u8; 65536];
                for _ in 0..3000 {
                    loop {
                        match s.peer.read(&mut tmp) {
                            Ok(0) => break,
                            Ok(n) => s.peer_got.extend_from_slice(&tmp[..n]),
                            Err(_) => break,
                        }
                    }
                    if s.chan.back_buf.available_data() == 0 {
                        break;
                    }
                    // what the event loop does: a WRITABLE event, then run()
                    s.chan.handle_events(Ready::WRITABLE);
                    let _ = s.chan.run();
                }
                loop {
                    match s.peer.read(&mut tmp) {
                        Ok(0) => break,
                        Ok(n) => s.peer_got.extend_from_slice(&tmp[..n]),
                        Err(_) => break,
                    }
                }
                if s.peer_got != s.written {
                    out.viol("write-lost", &format!(
                        "peer received {} bytes, {} bytes of framed messages were accepted by write_message{}",
                        s.peer_got.len(), s.written.len(),
                        if s.peer_got.len() == s.written.len() { " (content differs)" } else { "" }));
                }
                out.obs(&[]);
            }
            // black box: a REAL worker (lib/src/server.rs event loop, send_queue,
            // read_channel_messages_and_notify) whose command channel is put under
            // back-pressure: n requests with large echoed ids are written while
            // nothing is read, then the responses are read back slowly. Every
            // response must arrive exactly once, in order.
            "bb_worker" => {
                let (init, max, n, pause_ms) = (a[0].n() as u64, a[1].n() as u64, a[2].n() as usize, a[3].n() as u64);
                let (got, inorder) = bb_worker(init, max, n, pause_ms, out);
                out.obs(&[tn(got), ts(if inorder { "inorder" } else { "disorder" })]);
                if got != n || !inorder {
                    out.viol("worker-backpressure", &format!(
                        "{got} of {n} worker responses delivered (in order: {inorder}) on a {init}/{max} command channel under back-pressure"));
                }
            }
            // black-box: an answer that alone exceeds the ceiling (lib/src/server.rs send_queue). The worker must
            // answer that request with an error and go on answering the requests behind it.
            "bb_oversize" => {
                let (init, max) = (a[0].n() as u64, a[1].n() as u64);
                let (big, later) = bb_oversize(init, max, out);
                out.obs(&[ts(&big), ts(if later { "later_answered" } else { "later_unanswered" })]);
                if big != "failure" {
                    out.viol("oversize-answer-no-verdict", &format!(
                        "the request whose answer does not fit the {max}-byte command channel was answered '{big}' (an error answer is expected)"));
                }
                if !later {
                    out.viol("oversize-answer-wedges-worker", &format!(
                        "after an answer larger than the {max}-byte ceiling the worker answered no further request on its command channel"));
                }
            }
            // black-box: the main process's stream carries a declared length above the ceiling, then a valid request.
            // Clean outcomes: the worker answers the request, or gives its command channel up (the main process reads
            // EOF). Observed: "answered" | "closed" | "silent".
            "bb_oversize_prefix" => {
                let (init, max) = (a[0].n() as u64, a[1].n() as u64);
                let r = bb_oversize_prefix(init, max, out);
                out.obs(&[]); // the outcome is judged by the oracle below, not compared with the model
                if r == "silent" {
                    out.viol("oversize-worker-loop", &format!(
                        "a worker whose command channel received a declared length above the {max}-byte ceiling neither answers the requests behind it nor closes the channel: lib/src/server.rs read_channel_messages_and_notify reports the same error on every wake-up"));
                }
            }
            // Channel::into (the worker re-types its channel after the blocking handshake, bin/src/worker.rs):
            // everything buffered, read or unsent, must survive
            "retype" => {
                let s = st_.as_mut().unwrap();
                // SAFETY: the value is moved out and a value is written back before anything can observe the hole
                // (`into` only moves fields)
                unsafe {
                    let c: Chan = std::ptr::read(&s.chan);
                    let c2: Chan = c.into::<WorkerResponse, WorkerResponse>();
                    std::ptr::write(&mut s.chan, c2);
                }
                out.obs(&st(&s.chan));
            }
            // blocking-mode read with a short timeout (all bytes the case sends are
            // already in the socket, so it never waits unless the frame is incomplete)
            "read_b" => {
                let s = st_.as_mut().unwrap();
                s.chan.blocking().unwrap();
                let r = s.chan.read_message_blocking_timeout(Some(std::time::Duration::from_millis(120)));
                s.chan.nonblocking().unwrap();
                if let Ok(m) = &r {
                    s.delivered.push(m.encode_to_vec());
                }
                let mut t = msg_toks(&r);
                t.extend(st(&s.chan));
                out.obs(&t);
            }
            "write_b" => {
                let s = st_.as_mut().unwrap();
                let p = a[0].b();
                let m = WorkerResponse::decode(p).expect("write payload must decode");
                s.chan.blocking().unwrap();
                let r = s.chan.write_message(&m);
                s.chan.nonblocking().unwrap();
                let mut got = vec![];
                let mut tmp = [0u8; 65536];
                loop {
                    match s.peer.read(&mut tmp) {
                        Ok(0) => break,
                        Ok(n) => got.extend_from_slice(&tmp[..n]),
                        Err(_) => break,
                    }
                }
                s.peer_got.extend_from_slice(&got);
                let mut t = match &r {
                    Ok(()) => {
                        s.written.extend_from_slice(&((p.len() + 8) as u64).to_le_bytes());
                        s.written.extend_from_slice(p);
                        vec![ts("ok")]
                    }
                    Err(e) => vec![ts("err"), ts(err_name(e))],
                };
                t.push(tb(&got));
                t.extend(st(&s.chan));
                out.obs(&t);
            }
            // the main process's loop: the REAL bin/src/command/sessions.rs extract_messages
            "extract" => {
                let s = st_.as_mut().unwrap();
                let ms = sozu::command::sessions::extract_messages(&mut s.chan);
                let mut t = vec![];
                for m in &ms {
                    let b = m.encode_to_vec();
                    t.push(tb(&b));
                    s.delivered.push(b);
                }
                t.push(ts("st"));
                t.extend(st(&s.chan));
                out.obs(&t);
            }
            "drain_check_x" => {
                let s = st_.as_mut().unwrap();
                let mut t = vec![];
                for _ in 0..64 {
                    let before = s.chan.front_buf.available_data() + unread(&s.peer_fd_probe());
                    s.chan.handle_events(Ready::READABLE);
                    let ms = sozu::command::sessions::extract_messages(&mut s.chan);
                    let after = s.chan.front_buf.available_data() + unread(&s.peer_fd_probe());
                    if ms.is_empty() && after == before {
                        break;
                    }
                    for m in &ms {
                        let b = m.encode_to_vec();
                        t.push(tb(&b));
                        s.delivered.push(b);
                    }
                }
                t.push(ts("st"));
                t.extend(st(&s.chan));
                out.obs(&t);
                if s.delivered.len() != s.sent_good.len() {
                    out.viol("delivery-missing", &format!(
                        "{} of {} well-formed messages delivered by extract_messages after the stream was fully drained",
                        s.delivered.len(), s.sent_good.len()));
                }
            }
            other => panic!("unknown op {other}"),
        }
        // property oracle, evaluated on the implementation after every op
        if let Some(s) = st_.as_ref() {
            if s.chan.front_buf.capacity() > s.max.max(a_init(case)) || s.chan.back_buf.capacity() > s.max.max(a_init(case)) {
                out.viol("capacity", &format!(
                    "buffer capacity front={} back={} exceeds max={}",
                    s.chan.front_buf.capacity(), s.chan.back_buf.capacity(), s.max));
            }
        }
    }
    if let Some(s) = st_.as_ref() {
        // the expected frames must all have been sent, in order (guards the
        // shrinker against dropping arrivals)
        let stream: Vec<u8> = case.ops.iter().filter(|o| o.name == "arrive").flat_map(|o| o.args[0].b().to_vec()).collect();
        let mut at = 0usize;
        for p in &s.sent_good {
            let mut f = ((p.len() + 8) as u64).to_le_bytes().to_vec();
            f.extend_from_slice(p);
            match stream[at..].windows(f.len()).position(|w| w == &f[..]) {
                Some(i) => at += i + f.len(),
                None => {
                    out.note("invalid-case: an expected frame was never sent");
                    break;
                }
            }
        }
        // delivered messages must be a prefix of the expected good messages,
        // in order, each once; the generator adds `op check_all` semantics by
        // ending with enough turns, then `expect_all_delivered`
        let n = s.delivered.len().min(s.sent_good.len());
        if case.ops.iter().any(|o| o.name == "expect") && (s.delivered[..n] != s.sent_good[..n] || s.delivered.len() > s.sent_good.len()) {
            out.viol("delivery-order", "delivered messages are not a prefix of the sent well-formed messages");
        }
        if s.peer_got[..] != s.written[..s.peer_got.len().min(s.written.len())] || s.peer_got.len() > s.written.len() {
            out.viol("write-stream", "bytes received by the peer are not a prefix of the framed messages written");
        }
    }
}

/// bytes sitting unread in the channel's socket (FIONREAD)
fn unread(fd: &i32) -> usize {
    let mut n: libc::c_int = 0;
    unsafe { libc::ioctl(*fd, libc::FIONREAD, &mut n) };
    n as usize
}

impl St {
    fn peer_fd_probe(&self) -> i32 {
        self.chan.fd()
    }
}

fn turn(s: &mut St, out: &mut Out) -> Vec<Tok> {
    let mut t = vec![];
    if s.chan.readiness().is_readable() {
        let _ = s.chan.readable();
        let mut guard = 0;
        loop {
            guard += 1;
            if guard > 1000 {
                out.viol("turn-spin", "owner loop did not terminate in 1000 iterations");
                break;
            }
            let r = s.chan.read_message();
            match &r {
                Ok(m) => {
                    s.delivered.push(m.encode_to_vec());
                    t.extend(msg_toks(&r));
                }
                Err(e) => {
                    if !matches!(e, ChannelError::NothingRead) {
                        t.extend(msg_toks(&r));
                    }
                    if (s.chan.interest & s.chan.readiness).is_readable() {
                        let _ = s.chan.readable();
                        continue;
                    }
                    break;
                }
            }
        }
    }
    t
}

fn bb_request_id(i: usize, max: u64) -> String {
    let mut id = format!("REQ-{i:06}-");
    while id.len() < max as usize - 100 {
        id.push(char::from(b'a' + (i % 26) as u8));
    }
    id
}

fn bb_worker(init: u64, max: u64, n: usize, pause_ms: u64, out: &mut Out) -> (usize, bool) {
    use sozu_command_lib::config::ListenerBuilder;
    use sozu_command_lib::proto::command::{request::RequestType, QueryClustersHashes, SocketAddress, WorkerRequest};
    use std::time::Duration;
    let port = verif_harness::claim_port();
    let http_listener = ListenerBuilder::new_http(SocketAddress::new_v4(127, 0, 0, 1, port)).to_http(None).expect("listener");
    let (mut command, proxy): (Channel<WorkerRequest, WorkerResponse>, Channel<WorkerResponse, WorkerRequest>) =
        Channel::generate(init, max).expect("channel pair");
    std::thread::spawn(move || {
        let _ = sozu_lib::http::testing::start_http_worker(http_listener, proxy, 10, 16_384);
    });
    for i in 0..n {
        let request = WorkerRequest { id: bb_request_id(i, max), content: RequestType::QueryClustersHashes(QueryClustersHashes {}).into() };
        if let Err(e) = command.write_message(&request) {
            out.note(&format!("invalid-case: cannot write request {i}: {e}"));
            return (0, false);
        }
    }
    std::thread::sleep(Duration::from_millis(pause_ms));
    let mut ids: Vec<String> = vec![];
    while ids.len() < n {
        match command.read_message_blocking_timeout(Some(Duration::from_secs(8))) {
            Ok(r) => ids.push(r.id),
            Err(_) => break,
        }
        if ids.len() % 10 == 0 {
            std::thread::sleep(Duration::from_millis(10));
        }
    }
    let inorder = ids.iter().enumerate().all(|(i, id)| *id == bb_request_id(i, max));
    (ids.len(), inorder)
}

/// returns (how the oversized request was answered: "failure" | "ok" | "none", whether the request sent after it was answered)
fn bb_oversize(init: u64, max: u64, out: &mut Out) -> (String, bool) {
    use sozu_command_lib::config::ListenerBuilder;
    use sozu_command_lib::proto::command::{request::RequestType, QueryMetricsOptions, ResponseStatus, SocketAddress, Status, WorkerRequest};
    use std::time::Duration;
    let port = verif_harness::claim_port();
    let http_listener = ListenerBuilder::new_http(SocketAddress::new_v4(127, 0, 0, 1, port)).to_http(None).expect("listener");
    let (mut command, proxy): (Channel<WorkerRequest, WorkerResponse>, Channel<WorkerResponse, WorkerRequest>) =
        Channel::generate(init, max).expect("channel pair");
    std::thread::spawn(move || {
        let _ = sozu_lib::http::testing::start_http_worker(http_listener, proxy, 10, 16_384);
    });
    let small = |id: &str| WorkerRequest { id: id.to_owned(), content: RequestType::Status(Status {}).into() };
    if let Err(e) = command.write_message(&small("SMALL-1")) {
        out.note(&format!("invalid-case: cannot write the first request: {e}"));
        return ("none".into(), false);
    }
    match command.read_message_blocking_timeout(Some(Duration::from_secs(8))) {
        Ok(r) if r.id == "SMALL-1" => {}
        _ => {
            out.note("invalid-case: the worker did not answer the warm-up request");
            return ("none".into(), false);
        }
    }
    // the names of all available metrics: some kilobytes, above the ceilings this op is used with
    let bigreq = WorkerRequest {
        id: "BIG".to_owned(),
        content: RequestType::QueryMetrics(QueryMetricsOptions {
            list: true, cluster_ids: vec![], backend_ids: vec![], metric_names: vec![], no_clusters: false, workers: false,
        }).into(),
    };
    let _ = command.write_message(&bigreq);
    std::thread::sleep(Duration::from_millis(200));
    let _ = command.write_message(&small("SMALL-2"));
    let (mut big, mut later) = ("none".to_string(), false);
    let t0 = std::time::Instant::now();
    while t0.elapsed() < Duration::from_secs(6) && !later {
        match command.read_message_blocking_timeout(Some(Duration::from_secs(3))) {
            Ok(r) => {
                if r.id.starts_with("BIG") && r.status != ResponseStatus::Processing as i32 {
                    big = if r.status == ResponseStatus::Failure as i32 { "failure".into() } else { "ok".into() };
                }
                if r.id == "SMALL-2" {
                    later = true;
                }
            }
            Err(_) => break,
        }
    }
    (big, later)
}

fn bb_oversize_prefix(init: u64, max: u64, out: &mut Out) -> String {
    use sozu_command_lib::config::ListenerBuilder;
    use sozu_command_lib::proto::command::{request::RequestType, SocketAddress, Status, WorkerRequest};
    use std::time::Duration;
    let port = verif_harness::claim_port();
    let http_listener = ListenerBuilder::new_http(SocketAddress::new_v4(127, 0, 0, 1, port)).to_http(None).expect("listener");
    let (mut command, proxy): (Channel<WorkerRequest, WorkerResponse>, Channel<WorkerResponse, WorkerRequest>) =
        Channel::generate(init, max).expect("channel pair");
    std::thread::spawn(move || {
        let _ = sozu_lib::http::testing::start_http_worker(http_listener, proxy, 10, 16_384);
    });
    let small = |id: &str| WorkerRequest { id: id.to_owned(), content: RequestType::Status(Status {}).into() };
    let _ = command.write_message(&small("SMALL-1"));
    match command.read_message_blocking_timeout(Some(Duration::from_secs(8))) {
        Ok(r) if r.id == "SMALL-1" => {}
        _ => {
            out.note("invalid-case: the worker did not answer the warm-up request");
            return "silent".into();
        }
    }
    // raw bytes on the channel's socket: a length prefix above the ceiling and a few bytes of "payload"
    let mut raw = (max + 1000).to_le_bytes().to_vec();
    raw.extend_from_slice(b"zzzz");
    let fd = command.fd();
    let n = unsafe { libc::write(fd, raw.as_ptr() as *const libc::c_void, raw.len()) };
    if n != raw.len() as isize {
        out.note("invalid-case: could not write the raw prefix");
        return "silent".into();
    }
    std::thread::sleep(Duration::from_millis(100));
    let _ = command.write_message(&small("SMALL-2"));
    let t0 = std::time::Instant::now();
    while t0.elapsed() < Duration::from_millis(2500) {
        match command.read_message_blocking_timeout(Some(Duration::from_millis(500))) {
            Ok(r) if r.id == "SMALL-2" => return "answered".into(),
            Ok(_) => {}
            Err(ChannelError::TimeoutReached(_)) | Err(ChannelError::NothingRead) => {}
            Err(_) => return "closed".into(),
        }
    }
    "silent".into()
}

fn a_init(case: &Case) -> usize {
    case.ops.iter().find(|o| o.name == "new").map(|o| o.args[0].n() as usize).unwrap_or(0)
}

fn main() {
    drive(run);
}
