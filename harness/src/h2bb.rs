//! Shared helpers of the C14 / C15 black-box tiers (included with `#[path]` by
//! the `c14bb*` / `c15bb` binaries; not part of the harness library): a real
//! worker on its own thread, a raw TLS HTTP/2 client, frame encoding/parsing,
//! a tiny HTTP/1 backend.
#![allow(dead_code)]
use std::{
    io::{Read, Write},
    net::{SocketAddr, TcpListener, TcpStream},
    os::fd::IntoRawFd,
    os::unix::net::UnixStream,
    sync::Arc,
    thread::JoinHandle,
    time::{Duration, Instant},
};

use rustls::{
    client::danger::{HandshakeSignatureValid, ServerCertVerified, ServerCertVerifier},
    pki_types::{CertificateDer, ServerName, UnixTime},
    ClientConfig, DigitallySignedStruct, SignatureScheme,
};
use sozu_command_lib::{
    channel::Channel,
    config::{ConfigBuilder, FileConfig, ListenerBuilder},
    proto::command::{
        request::RequestType, ActivateListener, AddBackend, AddCertificate, CertificateAndKey, Cluster,
        HttpsListenerConfig, ListenerType, LoadBalancingParams, PathRule, Request, RequestHttpFrontend, RulePosition,
        ServerConfig, SocketAddress, WorkerRequest, WorkerResponse,
    },
    scm_socket::{Listeners, ScmSocket},
    state::ConfigState,
};
use sozu_lib::server::Server;

pub const T_DATA: u8 = 0;
pub const T_HEADERS: u8 = 1;
pub const T_PRIORITY: u8 = 2;
pub const T_RST: u8 = 3;
pub const T_SETTINGS: u8 = 4;
pub const T_PUSH: u8 = 5;
pub const T_PING: u8 = 6;
pub const T_GOAWAY: u8 = 7;
pub const T_WU: u8 = 8;
pub const T_CONT: u8 = 9;

pub const PREFACE: &[u8] = b"PRI * HTTP/2.0\r\n\r\nSM\r\n\r\n";

pub fn free_port() -> u16 {
    verif_harness::claim_port()
}

pub fn frame(t: u8, flags: u8, sid: u32, payload: &[u8]) -> Vec<u8> {
    raw_frame(payload.len(), t, flags, sid, payload)
}

/// a frame whose length field may disagree with the bytes that follow
pub fn raw_frame(len: usize, t: u8, flags: u8, sid: u32, payload: &[u8]) -> Vec<u8> {
    let mut v = vec![(len >> 16) as u8, (len >> 8) as u8, len as u8, t, flags];
    v.extend_from_slice(&sid.to_be_bytes());
    v.extend_from_slice(payload);
    v
}

pub fn settings(entries: &[(u16, u32)]) -> Vec<u8> {
    let mut p = vec![];
    for (k, v) in entries {
        p.extend_from_slice(&k.to_be_bytes());
        p.extend_from_slice(&v.to_be_bytes());
    }
    frame(T_SETTINGS, 0, 0, &p)
}

/// HPACK block of `GET|POST / https localhost` (static-table indices + one literal)
pub fn request_block(post: bool, path: &str) -> Vec<u8> {
    let mut b = vec![if post { 0x83 } else { 0x82 }, 0x87];
    // :path literal without indexing, name index 4
    b.push(0x04);
    b.push(path.len() as u8);
    b.extend_from_slice(path.as_bytes());
    b.extend_from_slice(&[0x41, 0x09]);
    b.extend_from_slice(b"localhost");
    b
}

#[derive(Debug, Clone)]
pub struct Fr {
    pub t: u8,
    pub flags: u8,
    pub sid: u32,
    pub payload: Vec<u8>,
}

impl Fr {
    pub fn code(&self) -> Option<u32> {
        match self.t {
            T_GOAWAY if self.payload.len() >= 8 => Some(u32::from_be_bytes([self.payload[4], self.payload[5], self.payload[6], self.payload[7]])),
            T_RST if self.payload.len() >= 4 => Some(u32::from_be_bytes([self.payload[0], self.payload[1], self.payload[2], self.payload[3]])),
            _ => None,
        }
    }
}

pub fn parse_frames(acc: &[u8]) -> (Vec<Fr>, usize) {
    let mut v = vec![];
    let mut i = 0;
    while acc.len() >= i + 9 {
        let len = ((acc[i] as usize) << 16) | ((acc[i + 1] as usize) << 8) | acc[i + 2] as usize;
        if acc.len() < i + 9 + len {
            break;
        }
        v.push(Fr {
            t: acc[i + 3],
            flags: acc[i + 4],
            sid: u32::from_be_bytes([acc[i + 5], acc[i + 6], acc[i + 7], acc[i + 8]]) & 0x7fff_ffff,
            payload: acc[i + 9..i + 9 + len].to_vec(),
        });
        i += 9 + len;
    }
    (v, i)
}

#[derive(Debug)]
pub struct Verifier;
impl ServerCertVerifier for Verifier {
    fn verify_server_cert(&self, _: &CertificateDer<'_>, _: &[CertificateDer<'_>], _: &ServerName<'_>, _: &[u8], _: UnixTime) -> Result<ServerCertVerified, rustls::Error> {
        Ok(ServerCertVerified::assertion())
    }
    fn verify_tls12_signature(&self, _: &[u8], _: &CertificateDer<'_>, _: &DigitallySignedStruct) -> Result<HandshakeSignatureValid, rustls::Error> {
        Ok(HandshakeSignatureValid::assertion())
    }
    fn verify_tls13_signature(&self, _: &[u8], _: &CertificateDer<'_>, _: &DigitallySignedStruct) -> Result<HandshakeSignatureValid, rustls::Error> {
        Ok(HandshakeSignatureValid::assertion())
    }
    fn supported_verify_schemes(&self) -> Vec<SignatureScheme> {
        vec![
            SignatureScheme::RSA_PKCS1_SHA256, SignatureScheme::RSA_PKCS1_SHA384, SignatureScheme::RSA_PKCS1_SHA512,
            SignatureScheme::ECDSA_NISTP256_SHA256, SignatureScheme::ECDSA_NISTP384_SHA384, SignatureScheme::ECDSA_NISTP521_SHA512,
            SignatureScheme::ED25519, SignatureScheme::RSA_PSS_SHA256, SignatureScheme::RSA_PSS_SHA384, SignatureScheme::RSA_PSS_SHA512,
        ]
    }
}

pub type Tls = rustls::StreamOwned<rustls::ClientConnection, TcpStream>;

/// A raw H2 peer over TLS (ALPN h2) with its own receive buffer.
pub struct Peer {
    pub tls: Tls,
    pub acc: Vec<u8>,
    pub closed: bool,
    /// frames that arrived during the handshake (sozu's connection-level WINDOW_UPDATE may be among them)
    pub early: Vec<Fr>,
}

impl Peer {
    pub fn connect(addr: SocketAddr) -> Option<Peer> {
        let _ = rustls::crypto::ring::default_provider().install_default();
        let mut config = ClientConfig::builder().dangerous().with_custom_certificate_verifier(Arc::new(Verifier)).with_no_client_auth();
        config.alpn_protocols = vec![b"h2".to_vec()];
        let name = ServerName::try_from("localhost".to_owned()).ok()?;
        let conn = rustls::ClientConnection::new(Arc::new(config), name).ok()?;
        let mut conn = conn;
        let mut tcp = TcpStream::connect(addr).ok()?;
        tcp.set_read_timeout(Some(Duration::from_secs(5))).ok()?;
        tcp.set_write_timeout(Some(Duration::from_secs(5))).ok()?;
        // finish the TLS handshake under a generous timeout, then poll with a short one
        while conn.is_handshaking() {
            conn.complete_io(&mut tcp).ok()?;
        }
        tcp.set_read_timeout(Some(Duration::from_millis(100))).ok()?;
        Some(Peer { tls: rustls::StreamOwned::new(conn, tcp), acc: vec![], closed: false, early: vec![] })
    }

    pub fn send(&mut self, bytes: &[u8]) -> bool {
        let ok = self.tls.write_all(bytes).is_ok() && self.tls.flush().is_ok();
        if !ok {
            self.closed = true;
        }
        ok
    }

    /// reads until `stop` says so on the frames seen so far, the peer closes, or the deadline passes;
    /// returns every frame received since the last call
    pub fn read_until<F: Fn(&[Fr]) -> bool>(&mut self, max: Duration, stop: F) -> Vec<Fr> {
        let t0 = Instant::now();
        let mut got: Vec<Fr> = vec![];
        let mut buf = [0u8; 16384];
        loop {
            let (fr, used) = parse_frames(&self.acc);
            if used > 0 {
                self.acc.drain(..used);
                got.extend(fr);
            }
            if stop(&got) || self.closed || t0.elapsed() >= max {
                return got;
            }
            match self.tls.read(&mut buf) {
                Ok(0) => self.closed = true,
                Ok(n) => self.acc.extend_from_slice(&buf[..n]),
                Err(e) if e.kind() == std::io::ErrorKind::WouldBlock || e.kind() == std::io::ErrorKind::TimedOut => {}
                Err(_) => self.closed = true,
            }
        }
    }

    /// preface + our SETTINGS, waits for sozu's SETTINGS and the ACK of ours, acknowledges
    pub fn handshake(&mut self, ours: &[(u16, u32)]) -> bool {
        let mut b = PREFACE.to_vec();
        b.extend(settings(ours));
        if !self.send(&b) {
            return false;
        }
        let fr = self.read_until(Duration::from_secs(3), |f| {
            f.iter().any(|x| x.t == T_SETTINGS && x.flags & 1 == 0) && f.iter().any(|x| x.t == T_SETTINGS && x.flags & 1 == 1)
        });
        let ok = fr.iter().any(|x| x.t == T_SETTINGS && x.flags & 1 == 0);
        self.early = fr;
        ok && self.send(&frame(T_SETTINGS, 1, 0, &[]))
    }

    /// true when sozu closed the transport (EOF / reset) within `max`
    pub fn wait_closed(&mut self, max: Duration) -> bool {
        let _ = self.read_until(max, |_| false);
        self.closed
    }
}

/// a well-behaved request on a fresh connection: Some(status byte of the HPACK block) when answered
pub fn probe(front: SocketAddr) -> bool {
    let Some(mut p) = Peer::connect(front) else { return false };
    if !p.handshake(&[]) {
        return false;
    }
    p.send(&frame(T_HEADERS, 0x5, 1, &request_block(false, "/probe")));
    let fr = p.read_until(Duration::from_secs(3), |f| f.iter().any(|x| x.t == T_HEADERS && x.sid == 1));
    fr.iter().any(|x| x.t == T_HEADERS && x.sid == 1 && x.payload.first() == Some(&0x88))
}

/// HTTP/1 backend answering every request with 200 "pong"
pub fn h1_backend(listener: TcpListener) {
    for s in listener.incoming() {
        let Ok(mut s) = s else { continue };
        std::thread::spawn(move || {
            let _ = s.set_read_timeout(Some(Duration::from_secs(5)));
            let mut acc: Vec<u8> = vec![];
            let mut buf = [0u8; 8192];
            loop {
                match s.read(&mut buf) {
                    Ok(0) | Err(_) => return,
                    Ok(n) => acc.extend_from_slice(&buf[..n]),
                }
                while let Some(pos) = acc.windows(4).position(|w| w == b"\r\n\r\n") {
                    let head = String::from_utf8_lossy(&acc[..pos]).to_ascii_lowercase();
                    let cl = head
                        .lines()
                        .find_map(|l| l.strip_prefix("content-length:").map(|v| v.trim().parse::<usize>().unwrap_or(0)))
                        .unwrap_or(0);
                    if acc.len() < pos + 4 + cl {
                        break;
                    }
                    acc.drain(..pos + 4 + cl);
                    if s.write_all(b"HTTP/1.1 200 OK\r\nContent-Length: 4\r\n\r\npong").is_err() {
                        return;
                    }
                }
            }
        });
    }
}

pub struct WorkerHandle {
    pub channel: Channel<WorkerRequest, WorkerResponse>,
    pub job: JoinHandle<()>,
    n: usize,
}

impl WorkerHandle {
    pub fn send(&mut self, r: RequestType) {
        self.n += 1;
        let _ = self.channel.write_message(&WorkerRequest { id: format!("ID-{}", self.n), content: Request { request_type: Some(r) } });
    }
    pub fn alive(&self) -> bool {
        !self.job.is_finished()
    }
}

pub fn start_worker() -> WorkerHandle {
    let config = ConfigBuilder::new(FileConfig::default(), "").into_config().expect("config");
    let sc = ServerConfig::from(&config);
    let (mut main_ch, worker_ch): (Channel<WorkerRequest, WorkerResponse>, Channel<WorkerResponse, WorkerRequest>) =
        Channel::generate(sc.command_buffer_size, sc.max_command_buffer_size).expect("channel");
    let (s1, s2) = UnixStream::pair().unwrap();
    let scm_main = ScmSocket::new(s1.into_raw_fd()).expect("scm");
    let scm_worker = ScmSocket::new(s2.into_raw_fd()).expect("scm");
    scm_main.send_listeners(&Listeners::default()).expect("send listeners");
    let job = std::thread::spawn(move || {
        // the logger is thread-local: the worker thread needs its own (silent unless H2BB_LOG is set)
        match std::env::var("H2BB_LOG") {
            Ok(level) if !level.is_empty() => {
                let _ = sozu_command_lib::logging::setup_logging("stderr", false, None, None, None, &level, "WRK");
            }
            _ => {
                let _ = sozu_command_lib::logging::setup_logging("file:///dev/null", false, None, None, None, "error", "WRK");
            }
        }
        let mut server =
            Server::try_new_from_config(worker_ch, scm_worker, sc, ConfigState::new().produce_initial_state(), false).expect("worker");
        server.run();
    });
    main_ch.blocking().expect("blocking");
    WorkerHandle { channel: main_ch, job, n: 0 }
}

pub fn https_listener_config(front: SocketAddr) -> HttpsListenerConfig {
    ListenerBuilder::new_https(SocketAddress::from(front)).to_tls(None).expect("tls listener")
}

/// HTTPS listener (ALPN h2) + one cluster + frontend `localhost` + certificate + backend
pub fn configure_https(w: &mut WorkerHandle, listener: HttpsListenerConfig, front: SocketAddr, back: SocketAddr, http2_backend: bool) {
    let fa: SocketAddress = front.into();
    w.send(RequestType::AddHttpsListener(listener));
    w.send(RequestType::ActivateListener(ActivateListener { address: fa.clone(), proxy: ListenerType::Https.into(), from_scm: false }));
    w.send(RequestType::AddCluster(Cluster { cluster_id: "c0".into(), http2: Some(http2_backend), ..Default::default() }));
    w.send(RequestType::AddHttpsFrontend(RequestHttpFrontend {
        cluster_id: Some("c0".into()),
        address: fa.clone(),
        hostname: "localhost".into(),
        path: PathRule::prefix("/".to_string()),
        position: RulePosition::Tree.into(),
        ..Default::default()
    }));
    w.send(RequestType::AddCertificate(AddCertificate {
        address: fa,
        certificate: CertificateAndKey {
            certificate: include_str!("/repo/lib/assets/local-certificate.pem").to_string(),
            key: include_str!("/repo/lib/assets/local-key.pem").to_string(),
            certificate_chain: vec![],
            versions: vec![],
            names: vec![],
        },
        expired_at: None,
    }));
    w.send(RequestType::AddBackend(AddBackend {
        cluster_id: "c0".into(),
        backend_id: "c0-0".into(),
        address: back.into(),
        load_balancing_parameters: Some(LoadBalancingParams::default()),
        sticky_id: None,
        backup: None,
    }));
    std::thread::sleep(Duration::from_millis(400));
}

/// a well-behaved h2c backend: SETTINGS exchange, generous windows, every complete request answered `200`
pub fn h2c_backend(listener: TcpListener) {
    for s in listener.incoming() {
        let Ok(mut s) = s else { continue };
        std::thread::spawn(move || {
            let _ = s.set_read_timeout(Some(Duration::from_secs(10)));
            let mut acc: Vec<u8> = vec![];
            let mut buf = [0u8; 65536];
            while acc.len() < 24 {
                match s.read(&mut buf) {
                    Ok(0) | Err(_) => return,
                    Ok(n) => acc.extend_from_slice(&buf[..n]),
                }
            }
            acc.drain(..24);
            let _ = s.write_all(&settings(&[]));
            let _ = s.write_all(&frame(T_WU, 0, 0, &(1u32 << 24).to_be_bytes()));
            let mut owed_conn = 0u32;
            let mut owed_stream: std::collections::HashMap<u32, u32> = std::collections::HashMap::new();
            loop {
                let (frames, used) = parse_frames(&acc);
                acc.drain(..used);
                for f in frames {
                    match f.t {
                        T_SETTINGS if f.flags & 1 == 0 => {
                            let _ = s.write_all(&frame(T_SETTINGS, 1, 0, &[]));
                        }
                        T_PING if f.flags & 1 == 0 => {
                            let _ = s.write_all(&frame(T_PING, 1, 0, &f.payload));
                        }
                        T_HEADERS | T_DATA => {
                            if f.t == T_DATA && !f.payload.is_empty() {
                                // credit back in batches: one WINDOW_UPDATE per tiny DATA frame would be a flood
                                owed_conn += f.payload.len() as u32;
                                let e = owed_stream.entry(f.sid).or_insert(0u32);
                                *e += f.payload.len() as u32;
                                if f.flags & 1 == 0 && *e >= 16384 {
                                    let _ = s.write_all(&frame(T_WU, 0, f.sid, &e.to_be_bytes()));
                                    *e = 0;
                                }
                                if owed_conn >= 32768 {
                                    let _ = s.write_all(&frame(T_WU, 0, 0, &owed_conn.to_be_bytes()));
                                    owed_conn = 0;
                                }
                            }
                            if f.flags & 1 != 0 {
                                let mut resp = frame(T_HEADERS, 4, f.sid, &[0x88]);
                                resp.extend(frame(T_DATA, 1, f.sid, b"h2pong"));
                                let _ = s.write_all(&resp);
                            }
                        }
                        T_GOAWAY => return,
                        _ => {}
                    }
                }
                match s.read(&mut buf) {
                    Ok(0) | Err(_) => return,
                    Ok(n) => acc.extend_from_slice(&buf[..n]),
                }
            }
        });
    }
}

/// a second cluster reached by the path prefix `prefix` on the same HTTPS frontend, with an h2c backend
pub fn add_h2_cluster(w: &mut WorkerHandle, front: SocketAddr, back: SocketAddr, prefix: &str) {
    let fa: SocketAddress = front.into();
    w.send(RequestType::AddCluster(Cluster { cluster_id: "c1".into(), http2: Some(true), ..Default::default() }));
    w.send(RequestType::AddHttpsFrontend(RequestHttpFrontend {
        cluster_id: Some("c1".into()),
        address: fa,
        hostname: "localhost".into(),
        path: PathRule::prefix(prefix.to_string()),
        position: RulePosition::Tree.into(),
        ..Default::default()
    }));
    w.send(RequestType::AddBackend(AddBackend {
        cluster_id: "c1".into(),
        backend_id: "c1-0".into(),
        address: back.into(),
        load_balancing_parameters: Some(LoadBalancingParams::default()),
        sticky_id: None,
        backup: None,
    }));
    std::thread::sleep(Duration::from_millis(300));
}

/// like `add_h2_cluster`, with its own cluster id (several h2c clusters behind one frontend)
pub fn add_h2_cluster_named(w: &mut WorkerHandle, front: SocketAddr, back: SocketAddr, prefix: &str, id: &str) {
    let fa: SocketAddress = front.into();
    w.send(RequestType::AddCluster(Cluster { cluster_id: id.into(), http2: Some(true), ..Default::default() }));
    w.send(RequestType::AddHttpsFrontend(RequestHttpFrontend {
        cluster_id: Some(id.into()),
        address: fa,
        hostname: "localhost".into(),
        path: PathRule::prefix(prefix.to_string()),
        position: RulePosition::Tree.into(),
        ..Default::default()
    }));
    w.send(RequestType::AddBackend(AddBackend {
        cluster_id: id.into(),
        backend_id: format!("{id}-0"),
        address: back.into(),
        load_balancing_parameters: Some(LoadBalancingParams::default()),
        sticky_id: None,
        backup: None,
    }));
    std::thread::sleep(Duration::from_millis(300));
}

/// body a faulty response announces and (when it is allowed to finish) delivers
pub const FAULT_BODY: usize = 3000;
/// bytes of it sent before the fault
pub const FAULT_SENT: usize = 1000;

/// An h2c backend that misbehaves on request: the request path selects the fault (`.../fault/<name>`),
/// any other path is answered `200 h2pong` once the request is complete.  Faults (stream = the request's):
///   rst_first      RST_STREAM(INTERNAL_ERROR) instead of a response
///   refused        RST_STREAM(REFUSED_STREAM) instead of a response (RFC 9113 8.7: safe to retry)
///   goaway_first   GOAWAY(NO_ERROR, last stream id below this stream) instead of a response, connection kept open
///   close_first    the TCP connection is closed instead of a response
///   rst_mid        HEADERS 200 (content-length FAULT_BODY) + FAULT_SENT bytes of DATA, then RST_STREAM(INTERNAL_ERROR)
///   close_mid      the same, then the TCP connection is closed
///   stall_mid      the same, then nothing more on this stream (the connection keeps serving other streams)
///   overrun_mid    the same, then a DATA frame that takes the body beyond the announced content-length
///   bad_trailers_mid  the same, then a malformed trailer block (a pseudo-header field) with END_STREAM
///   goaway_mid     the same, then GOAWAY(NO_ERROR, last stream id = this stream), then the rest of the body with END_STREAM
/// `log` receives one line per event (`conn N`, `req <sid> <path>`, `fault <sid> <name>`, `rst-in <sid> <code>`).
pub fn h2c_fault_backend(listener: TcpListener, log: std::sync::mpsc::Sender<String>) {
    let mut nconn = 0usize;
    for s in listener.incoming() {
        let Ok(mut s) = s else { continue };
        nconn += 1;
        let log = log.clone();
        let _ = log.send(format!("conn {nconn}"));
        std::thread::spawn(move || {
            let _ = s.set_read_timeout(Some(Duration::from_secs(20)));
            let mut acc: Vec<u8> = vec![];
            let mut buf = [0u8; 65536];
            while acc.len() < 24 {
                match s.read(&mut buf) {
                    Ok(0) | Err(_) => return,
                    Ok(n) => acc.extend_from_slice(&buf[..n]),
                }
            }
            acc.drain(..24);
            let _ = s.write_all(&settings(&[]));
            let _ = s.write_all(&frame(T_WU, 0, 0, &(1u32 << 24).to_be_bytes()));
            let mut dec = loona_hpack::Decoder::new();
            let mut paths: std::collections::HashMap<u32, String> = std::collections::HashMap::new();
            let mut owed_conn = 0u32;
            loop {
                let (frames, used) = parse_frames(&acc);
                acc.drain(..used);
                for f in frames {
                    match f.t {
                        T_SETTINGS if f.flags & 1 == 0 => {
                            let _ = s.write_all(&frame(T_SETTINGS, 1, 0, &[]));
                        }
                        T_PING if f.flags & 1 == 0 => {
                            let _ = s.write_all(&frame(T_PING, 1, 0, &f.payload));
                        }
                        T_RST => {
                            let _ = log.send(format!("rst-in {} {}", f.sid, f.code().unwrap_or(999)));
                        }
                        T_HEADERS | T_DATA => {
                            if f.t == T_HEADERS {
                                let mut path = String::new();
                                // (no PRIORITY / padding flags from sozu's encoder)
                                let _ = dec.decode_with_cb(&f.payload, |k, v| {
                                    if &k[..] == b":path" {
                                        path = String::from_utf8_lossy(&v).into_owned();
                                    }
                                });
                                let _ = log.send(format!("req {} {}", f.sid, path));
                                paths.insert(f.sid, path);
                            } else if !f.payload.is_empty() {
                                owed_conn += f.payload.len() as u32;
                                if owed_conn >= 32768 {
                                    let _ = s.write_all(&frame(T_WU, 0, 0, &owed_conn.to_be_bytes()));
                                    owed_conn = 0;
                                }
                            }
                            if f.flags & 1 == 0 {
                                continue;
                            }
                            let path = paths.remove(&f.sid).unwrap_or_default();
                            let fault = path.split("/fault/").nth(1).unwrap_or("").to_string();
                            if !fault.is_empty() {
                                let _ = log.send(format!("fault {} {}", f.sid, fault));
                            }
                            // HEADERS 200 with `content-length: FAULT_BODY` (literal without indexing, new name)
                            let mut head = vec![0x88, 0x00, 14];
                            head.extend_from_slice(b"content-length");
                            let cl = FAULT_BODY.to_string();
                            head.push(cl.len() as u8);
                            head.extend_from_slice(cl.as_bytes());
                            let partial = [frame(T_HEADERS, 4, f.sid, &head), frame(T_DATA, 0, f.sid, &vec![b'f'; FAULT_SENT])].concat();
                            match fault.as_str() {
                                "rst_first" => {
                                    let _ = s.write_all(&frame(T_RST, 0, f.sid, &2u32.to_be_bytes()));
                                }
                                "refused" => {
                                    let _ = s.write_all(&frame(T_RST, 0, f.sid, &7u32.to_be_bytes()));
                                }
                                "goaway_first" => {
                                    let mut p = (f.sid.saturating_sub(2)).to_be_bytes().to_vec();
                                    p.extend_from_slice(&0u32.to_be_bytes());
                                    let _ = s.write_all(&frame(T_GOAWAY, 0, 0, &p));
                                }
                                "close_first" => return,
                                "rst_mid" => {
                                    let _ = s.write_all(&partial);
                                    let _ = s.write_all(&frame(T_RST, 0, f.sid, &2u32.to_be_bytes()));
                                }
                                "close_mid" => {
                                    let _ = s.write_all(&partial);
                                    std::thread::sleep(Duration::from_millis(100));
                                    return;
                                }
                                "stall_mid" => {
                                    let _ = s.write_all(&partial);
                                }
                                "overrun_mid" => {
                                    // more DATA than the announced content-length (RFC 9113 8.1.1: malformed)
                                    let _ = s.write_all(&partial);
                                    let _ = s.write_all(&frame(T_DATA, 0, f.sid, &vec![b'o'; FAULT_BODY]));
                                }
                                "bad_trailers_mid" => {
                                    // trailers carrying a pseudo-header field (RFC 9113 8.1: malformed), END_STREAM
                                    let _ = s.write_all(&partial);
                                    let _ = s.write_all(&frame(T_HEADERS, 5, f.sid, &[0x88]));
                                }
                                "goaway_mid" => {
                                    let _ = s.write_all(&partial);
                                    let mut p = f.sid.to_be_bytes().to_vec();
                                    p.extend_from_slice(&0u32.to_be_bytes());
                                    let _ = s.write_all(&frame(T_GOAWAY, 0, 0, &p));
                                    let _ = s.write_all(&frame(T_DATA, 1, f.sid, &vec![b'f'; FAULT_BODY - FAULT_SENT]));
                                }
                                _ => {
                                    let mut resp = frame(T_HEADERS, 4, f.sid, &[0x88]);
                                    resp.extend(frame(T_DATA, 1, f.sid, b"h2pong"));
                                    let _ = s.write_all(&resp);
                                }
                            }
                        }
                        T_GOAWAY => return,
                        _ => {}
                    }
                }
                match s.read(&mut buf) {
                    Ok(0) | Err(_) => return,
                    Ok(n) => acc.extend_from_slice(&buf[..n]),
                }
            }
        });
    }
}
