(** C15 — property theorems (statements; proofs are in C15/Proofs.v). *)
From Coq Require Import List Arith NArith Bool Lia.
From SV Require Import C15.Gen C15.Model C15.Proofs.
Import ListNotations.
Open Scope N_scope.

(** 1. For EVERY byte list and every negotiated maximum, the decoder fails,
    asks for more only when the frame really is incomplete, or returns a frame
    with [consumed = 9 + payload_len <= length input], [payload_len <= max],
    the reserved bit cleared, and the frame's contents inside its own payload
    (padding <= remaining, PRIORITY+PADDED, SETTINGS a multiple of 6 and at
    most 64 entries, the fixed sizes 5/4/8/4, GOAWAY >= 8). *)
Theorem decoder_consumes_exactly :
  forall input max,
    match decode_frame input max with
    | Ok consumed h f =>
      consumed = 9 + payload_len h /\ consumed <= len input /\ payload_len h <= max /\
      stream_id h < 2147483648 /\ wf_frame h f
    | Incomplete =>
      len input < 9 \/ exists rest h, frame_header input max = POk rest h /\ len input < 9 + payload_len h
    | Fail _ => True
    end.
Proof. exact decoder_consumes_exactly_l. Qed.

Example decoder_consumes_exactly_nonvacuous :
  decode_frame [0;0;4; 8; 0; 0;0;0;1; 0;0;1;0; 7;7] 16384 =
  Ok 13 (mkfh 4 FWindowUpdate 0 1) (WindowUpdate 1 256)
  /\ decode_frame [0;0;4; 8; 0; 0;0;0;1; 0;0] 16384 = Incomplete
  /\ decode_frame [0;0;5; 8; 0; 0;0;0;1; 0;0;1;0;9] 16384 = Fail FrameSizeError.
Proof. vm_compute. repeat split; reflexivity. Qed.

(** 2. Round trip: every frame the serializer emits (and DATA / HEADERS as the
    converter frames them) decodes to exactly what was meant, whatever follows it. *)
Theorem decode_encode :
  (forall sid code tl max, N.land sid STREAM_ID_MASK <> 0 -> code < 4294967296 -> 4 <= max ->
     decode_frame (rst_stream_bytes sid code ++ tl) max =
     Ok 13 (mkfh 4 FRstStream 0 (N.land sid STREAM_ID_MASK)) (RstStream (N.land sid STREAM_ID_MASK) code)) /\
  (forall sid incr tl max, 4 <= max ->
     decode_frame (window_update_bytes sid incr ++ tl) max =
     Ok 13 (mkfh 4 FWindowUpdate 0 (N.land sid STREAM_ID_MASK))
        (WindowUpdate (N.land sid STREAM_ID_MASK) (N.land incr STREAM_ID_MASK))) /\
  (forall last code tl max, code < 4294967296 -> 8 <= max ->
     decode_frame (goaway_bytes last code ++ tl) max =
     Ok 17 (mkfh 8 FGoAway 0 0) (GoAway (N.land last STREAM_ID_MASK) code 8 [])) /\
  (forall payload tl max, length payload = 8%nat -> 8 <= max ->
     decode_frame (ping_ack_bytes payload ++ tl) max = Ok 17 (mkfh 8 FPing 1 0) (Ping payload true)) /\
  (forall tl max,
     decode_frame (SETTINGS_ACKNOWLEDGEMENT ++ tl) max = Ok 9 (mkfh 0 FSettings 1 0) (Settings [] true)) /\
  (forall s tl max, settings_small s -> 48 <= max ->
     decode_frame (settings_bytes s ++ tl) max = Ok 57 (mkfh 48 FSettings 0 0) (Settings (settings_list s) false)) /\
  (forall sid flags payload tl max,
     N.land sid STREAM_ID_MASK <> 0 -> flags < 256 -> has_flag flags FLAG_PADDED = false ->
     len payload < 16777216 -> len payload <= max ->
     decode_frame (frame_header_bytes (mkfh (len payload) FData flags sid) ++ payload ++ tl) max =
     Ok (9 + len payload) (mkfh (len payload) FData flags (N.land sid STREAM_ID_MASK))
        (Data (N.land sid STREAM_ID_MASK) 0 payload (has_flag flags FLAG_END_STREAM))) /\
  (forall sid flags fragment tl max,
     N.land sid STREAM_ID_MASK <> 0 -> flags < 256 ->
     has_flag flags FLAG_PADDED = false -> has_flag flags FLAG_PRIORITY = false ->
     len fragment < 16777216 -> len fragment <= max ->
     decode_frame (frame_header_bytes (mkfh (len fragment) FHeaders flags sid) ++ fragment ++ tl) max =
     Ok (9 + len fragment) (mkfh (len fragment) FHeaders flags (N.land sid STREAM_ID_MASK))
        (Headers (N.land sid STREAM_ID_MASK) None 0 fragment
                 (has_flag flags FLAG_END_STREAM) (has_flag flags FLAG_END_HEADERS))).
Proof.
  repeat split.
  - exact rst_stream_roundtrip.
  - exact window_update_roundtrip.
  - exact goaway_roundtrip.
  - exact ping_ack_roundtrip.
  - exact settings_ack_roundtrip.
  - exact settings_roundtrip.
  - exact data_roundtrip.
  - exact headers_roundtrip.
Qed.

Example decode_encode_nonvacuous :
  rst_stream_bytes 5 8 = [0;0;4; 3; 0; 0;0;0;5; 0;0;0;8] /\
  settings_small (mksettings 4096 false 100 65535 16384 65536 false true).
Proof. split; [vm_compute; reflexivity|]. unfold settings_small. cbn. lia. Qed.

(** 3. Error classes: the RFC 9113 class for each malformed class. *)
Theorem error_class :
  (* 4.2: a length above the negotiated maximum *)
  (forall plen t fl raw rest max, plen < 16777216 -> max < plen ->
     decode_frame (raw_header plen t fl raw ++ rest) max = Fail FrameSizeError) /\
  (* 6.x: stream-id rules, as a table over the type byte *)
  (forall plen t fl raw rest max, plen < 16777216 -> plen <= max ->
     (if (t =? 0) || (t =? 1) || (t =? 2) || (t =? 3) || (t =? 5) || (t =? 9)
      then N.land (raw mod 4294967296) STREAM_ID_MASK = 0
      else if (t =? 4) || (t =? 6) || (t =? 7) || (t =? 16)
           then N.land (raw mod 4294967296) STREAM_ID_MASK <> 0 else False) ->
     decode_frame (raw_header plen t fl raw ++ rest) max = Fail ProtocolError) /\
  (* fixed sizes, SETTINGS multiple of 6 / ACK with payload, GOAWAY and PRIORITY_UPDATE minimum *)
  (forall i h,
     (ftyp h = FPriority /\ payload_len h <> 5) \/ (ftyp h = FRstStream /\ payload_len h <> 4) \/
     (ftyp h = FPing /\ payload_len h <> 8) \/ (ftyp h = FWindowUpdate /\ payload_len h <> 4) \/
     (ftyp h = FGoAway /\ payload_len h < 8) \/ (ftyp h = FSettings /\ payload_len h mod 6 <> 0) \/
     (ftyp h = FSettings /\ has_flag (fflags h) 1 = true /\ payload_len h <> 0) \/
     (ftyp h = FPriorityUpdate /\ payload_len h < 4) ->
     frame_body i h = PFail FrameSizeError) /\
  (* PUSH_PROMISE; padding that does not fit *)
  (forall payload tl h, ftyp h = FPushPromise -> len payload = payload_len h ->
     frame_body (payload ++ tl) h = PFail ProtocolError) /\
  (forall pad content tl h, ftyp h = FData -> has_flag (fflags h) FLAG_PADDED = true ->
     payload_len h = 1 + len content -> len content < pad ->
     frame_body ((pad :: content) ++ tl) h = PFail ProtocolError) /\
  (forall pad content tl h,
     ftyp h = FHeaders -> has_flag (fflags h) FLAG_PADDED = true -> has_flag (fflags h) FLAG_PRIORITY = true ->
     payload_len h = 1 + len content -> 5 <= len content -> len content - 5 < pad ->
     frame_body ((pad :: content) ++ tl) h = PFail ProtocolError).
Proof.
  split; [exact header_too_large|].
  split.
  { intros plen t fl raw rest max Hp Hm Hr. apply header_bad_stream_id; try assumption.
    rewrite stream_id_table.
    destruct ((t =? 0) || (t =? 1) || (t =? 2) || (t =? 3) || (t =? 5) || (t =? 9)).
    - rewrite Hr. reflexivity.
    - destruct ((t =? 4) || (t =? 6) || (t =? 7) || (t =? 16)); [|contradiction].
      apply N.eqb_neq. exact Hr. }
  split; [exact body_size_errors|].
  split; [exact push_promise_error|].
  split; [exact data_padding_error|exact headers_padding_error].
Qed.

Example error_class_nonvacuous :
  decode_frame (raw_header 6 4 0 3 ++ [0;0;0;0;0;0]) 16384 = Fail ProtocolError /\
  decode_frame (raw_header 7 4 0 0 ++ [0;0;0;0;0;0;0]) 16384 = Fail FrameSizeError /\
  decode_frame (raw_header 3 0 8 1 ++ [3;0;0]) 16384 = Fail ProtocolError.
Proof. vm_compute. repeat split; reflexivity. Qed.

(** 4. Flood detector: [threshold+1] qualifying frames inside one window trip
    (from any state that is within its thresholds); a silent check certifies
    every counter is within its threshold (no connection keeps running above a
    limit); a reported violation has [count > threshold]; decay never increases
    a counter and never touches a lifetime counter. *)
Theorem flood_trips :
  (forall k ks d, kind k -> Forall (fun x => x = k) ks ->
     age d < FLOOD_WINDOW_MS -> threshold d k < U32 - 1 ->
     nth_counter d k <= threshold d k ->
     threshold d k < nth_counter d k + N.of_nat (length ks) ->
     snd (run_events d ks) = true) /\
  (forall d, snd (check_flood d) = None -> under (fst (check_flood d))) /\
  (forall d k c t, snd (check_flood d) = Some (k, c, t) -> t < c) /\
  (forall d, let d' := maybe_reset_window d in
     Forall2 N.le (counters d') (counters d) /\
     rst_life d' = rst_life d /\ rst_abusive d' = rst_abusive d /\ rst_emitted d' = rst_emitted d /\
     ping_life d' = ping_life d /\ settings_life d' = settings_life d /\ cfg d' = cfg d).
Proof.
  split; [intros; eapply flood_trips_l; eauto|].
  split; [exact check_flood_silent|].
  split; [exact check_flood_trip|exact decay_monotone].
Qed.

Example flood_trips_nonvacuous :
  let d := flood_new (cfg_new 100 2 50 100 100 20 100 1000 50 500 65536) in
  snd (run_events d [4; 4]) = false /\ snd (run_events d [4; 4; 4]) = true.
Proof. vm_compute. split; reflexivity. Qed.

(** 5. Slot table: after ANY sequence of create / kill / shrink / admission,
    every slot index stored in the wire-id map designates an existing,
    non-recycled slot and no two streams share a slot; with the admission test
    the number of open streams never exceeds the advertised maximum. *)
Theorem slot_indices_valid :
  (forall ops r, tbl_ok (fold_left sstep ops (mktable [] [] r))) /\
  (forall mx ops t, Forall (only_accept mx) ops -> (length (smap t) <= mx)%nat ->
     (length (smap (fold_left sstep ops t)) <= mx)%nat).
Proof.
  split; [intros; apply slots_valid_l; apply tbl_ok_empty|exact concurrent_bound_l].
Qed.

Example slot_indices_valid_nonvacuous :
  let t := fold_left sstep [SCreate 1; SCreate 3; SCreate 5; SKill 3; SKill 5; SCreate 7; SShrink] (mktable [] [] 2) in
  slots t = [Live 1; Live 7] /\ smap t = [(7, 1%nat); (1, 0%nat)].
Proof. vm_compute. split; reflexivity. Qed.

(** 6. Stream identifiers.  After ANY sequence of HEADERS (accepted, refused at
    the concurrent-stream limit or while draining, or rejected), stream ends
    and drain, a stream id for which HEADERS was accepted or refused is never
    classified idle again: late frames on it (the DATA that followed a refused
    HEADERS, RST_STREAM, WINDOW_UPDATE) are frames on a closed stream, not a
    PROTOCOL_ERROR that tears the connection down. *)
Theorem seen_never_idle :
  forall evs s0 sid,
    let '(s, seen) := fold_left idstep evs (s0, []) in
    In sid seen -> classify s sid <> IdIdle.
Proof. exact seen_never_idle_l. Qed.

Example seen_never_idle_nonvacuous :
  let '(s, seen) := fold_left idstep [IdHeaders 1; IdHeaders 3; IdHeaders 5; IdEnd 1]
                              (mkids 0 0 [] 2%nat false, []) in
  seen = [5; 3; 1] /\ open_ids s = [3] /\ classify s 5 = IdClosed /\ classify s 1 = IdClosed /\ classify s 7 = IdIdle.
Proof. vm_compute. repeat split; reflexivity. Qed.

(** 7. Proxy-initiated GOAWAY.  While the connection drains, whatever the
    interleaving of client DATA, forwarding to the backend and shutdown passes,
    DATA belonging to a request that has not ended is never answered
    GOAWAY(STREAM_CLOSED): graceful shutdown does not cut an upload in flight. *)
Theorem upload_not_cut :
  forall evs n es,
    let s := fold_left (fun st e => fst (upstep true st e)) evs (mkup false 0 false) in
    terminated s = false -> snd (upstep true s (UData n es)) = UOk.
Proof. exact upload_not_cut_l. Qed.

(** the condition before fix 0056615 (a momentarily drained buffer was enough): the witness
    replayed black-box by the graceful_shutdown phase of c15bb *)
Example upload_cut_before_fix :
  let s := fold_left (fun st e => fst (upstep false st e)) [UData 100 false; UForward; UShutdownPass] (mkup false 0 false) in
  terminated s = false /\ snd (upstep false s (UData 9 true)) = UStreamClosedError.
Proof. vm_compute. split; reflexivity. Qed.

Example upload_not_cut_nonvacuous :
  let s := fold_left (fun st e => fst (upstep true st e)) [UData 100 false; UForward; UShutdownPass] (mkup false 0 false) in
  terminated s = false /\ upstep true s (UData 9 true) = (mkup true 9 true, UOk).
Proof. vm_compute. split; reflexivity. Qed.

(** 8. Shutdown polls.  [shutting_down] reads the client outside the ready
    loop; an edge-triggered epoll reports nothing for bytes already taken from
    the socket.  With the repair (the poll writes out what it armed on the
    backends) nothing the client sent ever stays queued behind an armed but
    unserved backend, whatever the interleaving of arrivals, polls and epoll
    turns.  [shutdown_poll_strands_before_fix]: without it, a request whose
    last DATA is taken by a poll waits for ever (in practice for the shutdown
    deadline) - the black-box graceful_shutdown phase of c15bb saw exactly
    that under load (4 s without an answer, then the forced close). *)
Theorem shutdown_poll_serves_what_it_arms :
  forall evs,
    let s := fold_left (sdstep true) evs (mksd 0 0 false) in
    sd_queued s = 0 /\ sd_armed s = false.
Proof. intros evs. apply sdrun_serves; reflexivity. Qed.

Example shutdown_poll_strands_before_fix :
  let s := fold_left (sdstep false) [SdArrive 9; SdPoll] (mksd 0 0 false) in
  s = mksd 0 9 true /\
  forall evs, (forall e, In e evs -> e = SdPoll \/ e = SdEpoll) -> fold_left (sdstep false) evs s = s.
Proof.
  split; [vm_compute; reflexivity|]. intros evs H. apply sd_stuck; [reflexivity|discriminate|exact H].
Qed.

Example shutdown_poll_serves_nonvacuous :
  fold_left (sdstep true) [SdArrive 9; SdPoll; SdEpoll; SdArrive 4; SdEpoll] (mksd 0 0 false) = mksd 0 0 false /\
  fold_left (sdstep true) [SdArrive 9] (mksd 0 0 false) = mksd 9 0 false.
Proof. vm_compute. split; reflexivity. Qed.


(** 9. What a flood is made of.  The counter a frame bumps is a function of
    its type, flags and stream id ([qualifying]); its payload length is not
    looked at (for DATA the counter is by definition about frames without
    content).  So more than [threshold] frames that qualify for one counter,
    inside one window, trip it whatever their sizes - zero-length
    CONTINUATION frames, empty SETTINGS, padding-only DATA included. *)
Theorem flood_counts_frames_not_bytes :
  (forall l1 l2 t f sid c1 c2, t <> FData ->
     qualifying (mkfh l1 t f sid) c1 = qualifying (mkfh l2 t f sid) c2) /\
  (forall k fs d, kind k ->
     Forall (fun p => qualifying (fst p) (snd p) = Some k) fs ->
     age d < FLOOD_WINDOW_MS -> threshold d k < U32 - 1 ->
     nth_counter d k <= threshold d k ->
     threshold d k < nth_counter d k + N.of_nat (length fs) ->
     snd (run_events d (counted fs)) = true).
Proof.
  split; [exact qualifying_ignores_length|].
  intros k fs d Hk Hq Ha Ht Hle Hgt. rewrite (counted_all k fs Hq).
  eapply flood_trips_l; eauto; [apply forall_repeat|]. rewrite repeat_length. exact Hgt.
Qed.

Example flood_counts_frames_not_bytes_nonvacuous :
  (* continuation threshold 3: a block kept open by four CONTINUATION frames of length 0 trips, three do not *)
  let d := flood_new (cfg_new 8 8 8 8 8 3 10 1000 50 500 4096) in
  let empty_cont := (mkfh 0 FContinuation 0 1, 0) in
  counted [empty_cont; (mkfh 0 FPing 1 0, 8); empty_cont; (mkfh 5 FContinuation 0 1, 5)] = [10; 10; 10] /\
  snd (run_events d (counted [empty_cont; empty_cont; empty_cont])) = false /\
  snd (run_events d (counted [empty_cont; empty_cont; empty_cont; empty_cont])) = true /\
  qualifying (mkfh 1 FData 8 1) 0 = Some 8 /\ qualifying (mkfh 1 FData 9 1) 0 = None /\ qualifying (mkfh 4 FData 0 1) 4 = None.
Proof. vm_compute. repeat split; reflexivity. Qed.

(** 10. A response that has started is never continued by a default answer.
    When the proxy itself resets a backend stream (its trailers are malformed,
    its DATA overruns the content-length), a client that already holds bytes
    of the 200 gets the abort (RST_STREAM / close), whatever else is true.
    [reset_appends_502_before_fix]: without the guard the 502 page followed
    the bytes of the 200 and the stream ended cleanly (black-box faults
    bad_trailers_mid / overrun_mid, C01 finding trailers-into-full-buffer). *)
Theorem reset_after_response_started_aborts :
  forall request_consumed, on_backend_reset true true request_consumed = RAbort.
Proof. intros []; reflexivity. Qed.

Example reset_appends_502_before_fix :
  on_backend_reset false true true = RDefault502 /\ on_backend_reset true false true = RDefault502 /\ on_backend_reset true false false = RRetry.
Proof. repeat split; reflexivity. Qed.

(** 11. Trailer blocks ([pkawa::handle_trailer], executed in-process by the
    driver).  A trailer block that is accepted was sent with END_STREAM, its
    decoded size (name + value + 32 per field, RFC 9113 6.5.2) is within
    min(MAX_HEADER_LIST_SIZE, MAX_TRAILER_BYTES), it has at most
    [max_header_fields] fields, none of them a pseudo-header or an invalid
    field, and no more fields are stored than were sent: what one trailer block
    can make the proxy hold is bounded by 8 KiB whatever the listener allows
    for a header list. *)
Theorem trailer_block_bounded :
  forall max_list maxf es lf fs n,
    trailer_outcome max_list maxf es lf fs = TOk n ->
    es = true /\
    fold_right (fun f s => tfield_size f + s) 0 fs <= N.min max_list MAX_TRAILER_BYTES /\
    N.of_nat (length fs) <= maxf /\ Forall tclean fs /\ n <= N.of_nat (length fs).
Proof. exact trailer_accepted_bounded. Qed.

Example trailer_block_bounded_nonvacuous :
  (* 8192-byte budget: 128 fields of 10+22+32 = 64 octets fit exactly, one more octet does not;
     the field limit and a pseudo-header are met in wire order *)
  trailer_outcome 65536 200 true false (repeat (TPlain, 10, 22) 128) = TOk 128 /\
  trailer_outcome 65536 200 true false (repeat (TPlain, 10, 22) 127 ++ [(TPlain, 10, 23)]) = TErr EnhanceYourCalm /\
  trailer_outcome 65536 3 true false [(TPlain, 1, 1); (TSpoof, 9, 4); (TPlain, 1, 1); (TPseudo, 7, 3)] = TErr EnhanceYourCalm /\
  trailer_outcome 65536 200 true true [(TPlain, 1, 1); (TPseudo, 7, 3); (TPlain, 9000, 1)] = TErr ProtocolError /\
  trailer_outcome 100 200 false false [] = TErr ProtocolError.
Proof. vm_compute. repeat split; reflexivity. Qed.

