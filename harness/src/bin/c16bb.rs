//! C16 black-box tier: a real worker thread (`Server::try_new_from_config`)
//! with an HTTP listener (60 s timeouts), a second HTTP listener with 2 s
//! timeouts, an HTTPS listener (HTTP/1.1 and HTTP/2 by ALPN), two TCP
//! listeners; a cluster with a live scripted backend and one whose backend
//! refuses.  A seeded mix of session outcomes is driven through real sockets:
//!
//!   HTTP/1   complete · keep-alive (3 requests on one connection) · reset after
//!            the answer · reset inside the request head · backend refusal (503)
//!            · idle close · idle until the front timeout / the zombie check
//!            reclaims the session · backend disappearing in the middle of the
//!            response · WebSocket upgrade closed by the client / by the backend
//!   TLS      garbage instead of a ClientHello · abort after the ClientHello ·
//!            HTTP/1.1 over TLS complete
//!            · WebSocket over TLS
//!   HTTP/2   complete · a stream reset with RST_STREAM then another stream ·
//!            client gone in the middle of a stream
//!   TCP      complete · reset · backend refusal
//!   silence  TLS handshake never started · H2 request stalled mid-body · idle TLS keep-alive · idle TCP
//!            relay: each reclaimed by 2 s timeouts
//!   backend  never answers the SYN (listening socket, backlog 0, accept queue full): client reset while
//!            connecting (HTTP and TCP), session ended by the timeouts · cluster with no backend at all
//!            (HTTP 503, TCP close)
//!   transfer killed: 24 MB pending towards a client that does not read, which resets / leaves (HTTP/1, H2);
//!            half of a storm's connections have such pending output (evicted with data in the buffers)
//!   gauges   ALPN refusal after the handshake (H2-only listener) next to a silent handshake · the backend
//!            closes an idle kept-alive connection while the client stays · the per-ip limit enabled (0 -> n)
//!            or lowered at run time with connections open, then one more from the same address
//!   limits   a storm above `max_connections` · the per-(cluster, ip) limit
//!            raised / lowered / disabled at run time (`SetMaxConnectionsPerIp`)
//!            · optional eviction on queue full
//!
//! Oracles (the property's own, nothing of the model is involved):
//!   * after everything is over the gauges of `QueryMetrics` are back to the idle
//!     baseline (`client.connections`, `slab.entries`, `buffer.in_use`,
//!     `accept_queue.connections`, `http.active_requests`, the per-cluster /
//!     per-backend connection gauges), polled with a 40 s deadline;
//!   * the per-(cluster, ip) slots are back to baseline: with the limit set to
//!     `n`, `n` fresh concurrent connections are all served;
//!   * no gauge underflow was clamped (`VERIF_GAUGE_UNDERFLOWS`, cfg(sozu_verif));
//!   * never more than `max_connections` connections are being served at once,
//!     never more than the per-ip limit towards one cluster, and a connection
//!     that holds a slot is never refused its own slot (one slot per connection);
//!   * idle sessions are reclaimed; the worker accepts again after the storm;
//!   * C12 through the real session code (backend snapshot hook): every backend's active_connections /
//!     active_requests are 0 when traffic has ended; a refused connect is recorded (tries, failures), tries
//!     never exceed the maximum nor decrease without a success, is_down <=> tries >= max, a served request
//!     resets the policy; a revived backend is used again once its window allows and is then reset.
//!
//! usage: c16bb <seed> <max_connections> <per-ip limit> <rounds> [evict 0|1] [zombie secs, 0 = default]
//!              [k<i>_<j>..: only these outcomes | k] [revive 0|1]
//! Nothing depends on how fast anything happens: "served at once" counts
//! connections answered while every connection of the storm is held open and
//! still open afterwards (a slow worker can only lower it); every wait for a
//! return to baseline has a 40 s deadline against timeouts of 2-3 s.
use std::{
    io::{Read, Write},
    net::{SocketAddr, TcpListener, TcpStream},
    os::fd::IntoRawFd,
    os::unix::net::UnixStream,
    sync::atomic::Ordering,
    sync::Arc,
    time::{Duration, Instant},
};

use rustls::{
    client::danger::{HandshakeSignatureValid, ServerCertVerified, ServerCertVerifier},
    pki_types::{CertificateDer, ServerName, UnixTime},
    ClientConfig, ClientConnection, DigitallySignedStruct, SignatureScheme,
};
use sozu_command_lib::{
    channel::Channel,
    config::{ConfigBuilder, FileConfig, ListenerBuilder},
    proto::command::{
        filtered_metrics::Inner, request::RequestType, response_content::ContentType, ActivateListener, AddBackend,
        AddCertificate, CertificateAndKey, Cluster, ListenerType, LoadBalancingParams, PathRule, QueryMetricsOptions,
        Request, RequestHttpFrontend, RequestTcpFrontend, ResponseStatus, RulePosition, ServerConfig, SocketAddress,
        WorkerMetrics, WorkerRequest, WorkerResponse,
    },
    scm_socket::{Listeners, ScmSocket},
    state::ConfigState,
};
use sozu_lib::server::Server;

struct Rng(u64);
impl Rng {
    fn next(&mut self) -> u64 {
        self.0 ^= self.0 << 13;
        self.0 ^= self.0 >> 7;
        self.0 ^= self.0 << 17;
        self.0
    }
}

fn free_port() -> u16 {
    verif_harness::claim_port()
}

// ---------------------------------------------------------------- backend

/// `/x` → 200 pong (keep-alive) · `/ws*` → 101 then echo; after an echo of "bye" the backend closes
/// · `/cut` → a head announcing 100 bytes, 10 of them, then the backend disappears
fn backend(listener: TcpListener) {
    for conn in listener.incoming() {
        let Ok(mut s) = conn else { continue };
        std::thread::spawn(move || {
            let _ = s.set_read_timeout(Some(Duration::from_secs(30)));
            let mut acc: Vec<u8> = vec![];
            let mut buf = [0u8; 2048];
            loop {
                match s.read(&mut buf) {
                    Ok(0) | Err(_) => return,
                    Ok(n) => acc.extend_from_slice(&buf[..n]),
                }
                while let Some(p) = acc.windows(4).position(|w| w == b"\r\n\r\n") {
                    let head = String::from_utf8_lossy(&acc[..p]).to_string();
                    acc.drain(..p + 4);
                    let line = head.lines().next().unwrap_or("").to_string();
                    if line.contains(" /ws") {
                        if s.write_all(b"HTTP/1.1 101 Switching Protocols\r\nUpgrade: websocket\r\nConnection: Upgrade\r\nSec-WebSocket-Accept: s3pPLMBiTxaQ9kYGzzhZRbK+xOo=\r\n\r\n").is_err() {
                            return;
                        }
                        // raw echo until somebody leaves
                        loop {
                            match s.read(&mut buf) {
                                Ok(0) | Err(_) => return,
                                Ok(n) => {
                                    if s.write_all(&buf[..n]).is_err() {
                                        return;
                                    }
                                    if buf[..n].windows(3).any(|w| w == b"bye") {
                                        return;
                                    }
                                }
                            }
                        }
                    } else if line.contains(" /big") {
                        // 24 MB towards a client that may never read them (more than loopback socket buffers absorb)
                        let body = vec![b'z'; 24 * 1024 * 1024];
                        let _ = s.set_write_timeout(Some(Duration::from_secs(5)));
                        if s.write_all(format!("HTTP/1.1 200 OK\r\nContent-Length: {}\r\n\r\n", body.len()).as_bytes()).is_err() || s.write_all(&body).is_err() {
                            return;
                        }
                    } else if line.contains(" /once") {
                        // a keep-alive answer, then the backend closes the idle connection
                        let _ = s.write_all(b"HTTP/1.1 200 OK\r\nContent-Length: 4\r\n\r\npong");
                        std::thread::sleep(Duration::from_millis(150));
                        return;
                    } else if line.contains(" /cut") {
                        let _ = s.write_all(b"HTTP/1.1 200 OK\r\nContent-Length: 100\r\n\r\n0123456789");
                        return;
                    } else if s.write_all(b"HTTP/1.1 200 OK\r\nContent-Length: 4\r\n\r\npong").is_err() {
                        return;
                    }
                }
            }
        });
    }
}

// ---------------------------------------------------------------- command channel

type Main = Channel<WorkerRequest, WorkerResponse>;

fn send(ch: &mut Main, id: &str, r: RequestType) -> Option<WorkerResponse> {
    ch.write_message(&WorkerRequest { id: id.to_string(), content: Request { request_type: Some(r) } }).ok()?;
    let t0 = Instant::now();
    while t0.elapsed() < Duration::from_secs(20) {
        match ch.read_message() {
            Ok(resp) => {
                if resp.id == id && resp.status != ResponseStatus::Processing as i32 {
                    return Some(resp);
                }
            }
            Err(_) => std::thread::sleep(Duration::from_millis(20)),
        }
    }
    None
}

fn query(ch: &mut Main, n: &mut u32, clusters: Vec<String>) -> Option<WorkerMetrics> {
    *n += 1;
    let resp = send(
        ch,
        &format!("Q-{n}"),
        RequestType::QueryMetrics(QueryMetricsOptions {
            list: false,
            cluster_ids: clusters,
            backend_ids: vec![],
            metric_names: vec![],
            no_clusters: false,
            workers: false,
        }),
    )?;
    match resp.content?.content_type? {
        ContentType::WorkerMetrics(m) => Some(m),
        _ => None,
    }
}

/// the gauges of the footprint: name -> value
fn gauges(ch: &mut Main, n: &mut u32) -> Option<Vec<(String, u64)>> {
    let mut out = vec![];
    let m = query(ch, n, vec![])?;
    for name in [
        "client.connections",
        "slab.entries",
        "buffer.in_use",
        "accept_queue.connections",
        "http.active_requests",
        "websocket.active_requests",
        "backend.connections",
        "backend.pool.size",
        "protocol.http",
        "protocol.https",
        "protocol.ws",
        "protocol.wss",
        "protocol.tcp",
        "protocol.tls.handshake",
    ] {
        if let Some(Inner::Gauge(v)) = m.proxy.get(name).and_then(|f| f.inner.clone()) {
            out.push((name.to_string(), v));
        }
    }
    if let Some(m) = query(ch, n, vec!["good".into(), "dead".into(), "hang".into(), "empty".into()]) {
        for (cid, cm) in &m.clusters {
            for (name, f) in &cm.cluster {
                if name.contains("connections") || name.contains("active_requests") {
                    if let Some(Inner::Gauge(v)) = f.inner.clone() {
                        out.push((format!("{cid}/{name}"), v));
                    }
                }
            }
            for b in &cm.backends {
                for (name, f) in &b.metrics {
                    if name.contains("connections") || name.contains("active_requests") {
                        if let Some(Inner::Gauge(v)) = f.inner.clone() {
                            out.push((format!("{cid}/{}/{name}", b.backend_id), v));
                        }
                    }
                }
            }
        }
    }
    Some(out)
}

// ---------------------------------------------------------------- clients

fn request(host: &str, path: &str, close: bool) -> String {
    format!("GET {path} HTTP/1.1\r\nHost: {host}\r\nConnection: {}\r\n\r\n", if close { "close" } else { "keep-alive" })
}

/// reads one response head (+ the 4-byte body of the mock backend when 200); returns the status line.
/// The stream must have a short read timeout.
fn read_response<S: Read>(c: &mut S, wait: Duration) -> Option<String> {
    let t0 = Instant::now();
    let mut acc = vec![];
    let mut buf = [0u8; 4096];
    while t0.elapsed() < wait {
        match c.read(&mut buf) {
            Ok(0) => break,
            Ok(n) => {
                acc.extend_from_slice(&buf[..n]);
                if let Some(p) = acc.windows(4).position(|w| w == b"\r\n\r\n") {
                    let head = String::from_utf8_lossy(&acc[..p]).to_string();
                    let line = head.lines().next().unwrap_or("").to_string();
                    let need = if line.contains(" 200") { p + 4 + 4 } else { p + 4 };
                    if acc.len() >= need {
                        return Some(line);
                    }
                }
            }
            Err(e) if e.kind() == std::io::ErrorKind::WouldBlock || e.kind() == std::io::ErrorKind::TimedOut => {}
            Err(_) => break,
        }
    }
    if acc.is_empty() { None } else { Some(String::from_utf8_lossy(&acc).lines().next().unwrap_or("").to_string()) }
}

fn tcp(addr: &SocketAddr) -> Option<TcpStream> {
    let c = TcpStream::connect_timeout(addr, Duration::from_secs(3)).ok()?;
    let _ = c.set_read_timeout(Some(Duration::from_millis(200)));
    let _ = c.set_write_timeout(Some(Duration::from_secs(3)));
    Some(c)
}

/// a small receive buffer: the peer's data backs up into the proxy
fn small_rcvbuf(c: &TcpStream) {
    let v: libc::c_int = 4096;
    unsafe {
        libc::setsockopt(std::os::fd::AsRawFd::as_raw_fd(c), libc::SOL_SOCKET, libc::SO_RCVBUF, &v as *const _ as *const libc::c_void, 4);
    }
}

fn reset(c: TcpStream) {
    // SO_LINGER {on, 0}: close() sends RST
    let l = libc::linger { l_onoff: 1, l_linger: 0 };
    unsafe {
        libc::setsockopt(
            std::os::fd::AsRawFd::as_raw_fd(&c),
            libc::SOL_SOCKET,
            libc::SO_LINGER,
            &l as *const _ as *const libc::c_void,
            std::mem::size_of::<libc::linger>() as u32,
        );
    }
    drop(c);
}

/// has the peer closed? (non-destructive as far as this driver cares: pending bytes are dropped)
fn still_open(c: &mut TcpStream) -> bool {
    let _ = c.set_read_timeout(Some(Duration::from_millis(30)));
    let mut buf = [0u8; 256];
    loop {
        match c.read(&mut buf) {
            Ok(0) => return false,
            Ok(_) => continue,
            Err(e) if e.kind() == std::io::ErrorKind::WouldBlock || e.kind() == std::io::ErrorKind::TimedOut => return true,
            Err(_) => return false,
        }
    }
}

/// waits for the peer to close the connection
fn wait_closed<S: Read>(c: &mut S, max: Duration) -> bool {
    let t0 = Instant::now();
    let mut buf = [0u8; 512];
    while t0.elapsed() < max {
        match c.read(&mut buf) {
            Ok(0) => return true,
            Ok(_) => {}
            Err(e) if e.kind() == std::io::ErrorKind::WouldBlock || e.kind() == std::io::ErrorKind::TimedOut => {}
            Err(_) => return true,
        }
    }
    false
}

// ---------------------------------------------------------------- TLS / H2

#[derive(Debug)]
struct NoVerify(Vec<SignatureScheme>);
impl ServerCertVerifier for NoVerify {
    fn verify_server_cert(
        &self,
        _e: &CertificateDer<'_>,
        _i: &[CertificateDer<'_>],
        _s: &ServerName<'_>,
        _o: &[u8],
        _n: UnixTime,
    ) -> Result<ServerCertVerified, rustls::Error> {
        Ok(ServerCertVerified::assertion())
    }
    fn verify_tls12_signature(&self, _m: &[u8], _c: &CertificateDer<'_>, _d: &DigitallySignedStruct) -> Result<HandshakeSignatureValid, rustls::Error> {
        Ok(HandshakeSignatureValid::assertion())
    }
    fn verify_tls13_signature(&self, _m: &[u8], _c: &CertificateDer<'_>, _d: &DigitallySignedStruct) -> Result<HandshakeSignatureValid, rustls::Error> {
        Ok(HandshakeSignatureValid::assertion())
    }
    fn supported_verify_schemes(&self) -> Vec<SignatureScheme> {
        self.0.clone()
    }
}

fn tls_config(alpn: &[&[u8]]) -> Arc<ClientConfig> {
    let provider = Arc::new(rustls::crypto::ring::default_provider());
    let schemes = provider.signature_verification_algorithms.supported_schemes();
    let mut cfg = ClientConfig::builder_with_provider(provider)
        .with_safe_default_protocol_versions()
        .unwrap()
        .dangerous()
        .with_custom_certificate_verifier(Arc::new(NoVerify(schemes)))
        .with_no_client_auth();
    cfg.alpn_protocols = alpn.iter().map(|a| a.to_vec()).collect();
    Arc::new(cfg)
}

type Tls = rustls::StreamOwned<ClientConnection, TcpStream>;

fn tls_connect(addr: &SocketAddr, alpn: &[&[u8]]) -> Option<Tls> {
    let sock = tcp(addr)?;
    let _ = sock.set_read_timeout(Some(Duration::from_secs(3)));
    let conn = ClientConnection::new(tls_config(alpn), ServerName::try_from("localhost").unwrap()).ok()?;
    let mut s = rustls::StreamOwned::new(conn, sock);
    let t0 = Instant::now();
    while s.conn.is_handshaking() {
        if t0.elapsed() > Duration::from_secs(5) || s.conn.complete_io(&mut s.sock).is_err() {
            return None;
        }
    }
    let _ = s.sock.set_read_timeout(Some(Duration::from_millis(200)));
    Some(s)
}

fn h2_frame(t: u8, flags: u8, sid: u32, payload: &[u8]) -> Vec<u8> {
    let mut v = vec![(payload.len() >> 16) as u8, (payload.len() >> 8) as u8, payload.len() as u8, t, flags];
    v.extend_from_slice(&sid.to_be_bytes());
    v.extend_from_slice(payload);
    v
}

/// HPACK, no Huffman, nothing added to the dynamic table
fn h2_headers(method_post: bool, path: &str) -> Vec<u8> {
    let mut b = vec![if method_post { 0x83 } else { 0x82 }, 0x87]; // :method, :scheme https
    b.push(0x04); // :path, literal without indexing, indexed name 4
    b.push(path.len() as u8);
    b.extend_from_slice(path.as_bytes());
    b.push(0x01); // :authority
    b.push(9);
    b.extend_from_slice(b"localhost");
    b
}

fn h2_open(addr: &SocketAddr) -> Option<Tls> {
    let mut s = tls_connect(addr, &[b"h2"])?;
    if s.conn.alpn_protocol() != Some(b"h2".as_ref()) {
        return None;
    }
    s.write_all(b"PRI * HTTP/2.0\r\n\r\nSM\r\n\r\n").ok()?;
    s.write_all(&h2_frame(4, 0, 0, &[])).ok()?;
    Some(s)
}

/// reads frames until stream `sid` ends (END_STREAM / RST_STREAM / GOAWAY); acks SETTINGS. -> status seen?
fn h2_read_stream(s: &mut Tls, sid: u32, wait: Duration) -> Option<bool> {
    let t0 = Instant::now();
    let mut acc: Vec<u8> = vec![];
    let mut buf = [0u8; 4096];
    let mut got_headers = false;
    while t0.elapsed() < wait {
        match s.read(&mut buf) {
            Ok(0) => return None,
            Ok(n) => acc.extend_from_slice(&buf[..n]),
            Err(e) if e.kind() == std::io::ErrorKind::WouldBlock || e.kind() == std::io::ErrorKind::TimedOut => {}
            Err(_) => return None,
        }
        while acc.len() >= 9 {
            let len = ((acc[0] as usize) << 16) | ((acc[1] as usize) << 8) | acc[2] as usize;
            if acc.len() < 9 + len {
                break;
            }
            let (t, flags) = (acc[3], acc[4]);
            let fsid = u32::from_be_bytes([acc[5], acc[6], acc[7], acc[8]]) & 0x7fff_ffff;
            acc.drain(..9 + len);
            match t {
                4 if flags & 1 == 0 => {
                    let _ = s.write_all(&h2_frame(4, 1, 0, &[]));
                }
                1 if fsid == sid => {
                    got_headers = true;
                    if flags & 1 != 0 {
                        return Some(true);
                    }
                }
                0 if fsid == sid && flags & 1 != 0 => return Some(got_headers),
                3 if fsid == sid => return Some(false),
                7 => return Some(false),
                _ => {}
            }
        }
    }
    None
}

/// waits until the worker serves exactly `n` client connections
fn wait_idle(ch: &mut Main, qn: &mut u32, n: u64) -> bool {
    let t0 = Instant::now();
    while t0.elapsed() < Duration::from_secs(12) {
        if gauges(ch, qn).is_some_and(|g| g.iter().find(|(k, _)| k == "client.connections").map(|(_, v)| *v) == Some(n)) {
            return true;
        }
        std::thread::sleep(Duration::from_millis(100));
    }
    false
}

/// every backend's state as the worker last published it (cfg(sozu_verif) hook); two metric queries
/// first, so that at least one full event-loop iteration has run since the last outcome
fn backends_snapshot(ch: &mut Main, n: &mut u32) -> Vec<sozu_lib::backends::VerifBackend> {
    let _ = query(ch, n, vec![]);
    let _ = query(ch, n, vec![]);
    sozu_lib::backends::VERIF_BACKENDS.lock().map(|g| g.clone()).unwrap_or_default()
}

/// Are all per-(cluster, ip) slots of cluster `good` free, now that nothing talks to it?
/// A slot left behind by a closed session stays attached to that session's token, and the next session
/// that is given the same token inherits it (tracking is idempotent per token) and gives it back when it
/// closes, which hides the leak: so the most recently freed tokens are first taken by silent connections
/// that resolve no cluster, then a probe that gets a token of its own must be served with the limit at 1.
/// -> Some(false): a slot is still held.  The limit is put back to `restore`.
fn slot_probe(ch: &mut Main, id: &str, maxc: u64, front: &SocketAddr, restore: u64, host: &str) -> Option<bool> {
    if maxc < 2 {
        return None;
    }
    let ok = |r: Option<WorkerResponse>| r.is_some_and(|r| r.status == ResponseStatus::Ok as i32);
    if !ok(send(ch, &format!("{id}-a"), RequestType::SetMaxConnectionsPerIp(1))) {
        return None;
    }
    let blockers = std::cmp::min(maxc - 1, 4);
    let held: Vec<TcpStream> = (0..blockers).filter_map(|_| tcp(front)).collect();
    std::thread::sleep(Duration::from_millis(40));
    // any answer but 429 (200, 503 when the cluster has no usable backend) means the slot was granted; a
    // cluster whose backend never answers the SYN gives no answer at all within the wait: granted too
    let slow = host == "hang.test";
    let mut verdict = None;
    for _attempt in 0..(if slow { 1 } else { 6 }) {
        if let Some(mut c) = tcp(front) {
            let _ = c.write_all(request(host, "/x", true).as_bytes());
            match read_response(&mut c, if slow { Duration::from_millis(500) } else { Duration::from_secs(2) }) {
                Some(l) if l.contains(" 429") => {
                    verdict = Some(false);
                    break;
                }
                Some(_) => {
                    verdict = Some(true);
                    break;
                }
                None if slow => {
                    verdict = Some(true);
                    reset(c);
                    break;
                }
                None => {}
            }
        }
        std::thread::sleep(Duration::from_millis(200));
    }
    drop(held);
    std::thread::sleep(Duration::from_millis(40));
    // a disabled limit wipes the accounting, which would hide what the final probe looks for: a run
    // that started with a limit keeps one
    let _ = send(ch, &format!("{id}-b"), RequestType::SetMaxConnectionsPerIp(restore));
    verdict
}

// ---------------------------------------------------------------- main

fn main() {
    let args: Vec<String> = std::env::args().collect();
    let arg = |i: usize, d: u64| args.get(i).and_then(|x| x.parse().ok()).unwrap_or(d);
    let seed = arg(1, 1);
    let maxc = arg(2, 2);
    let per_ip = arg(3, 0);
    let rounds = arg(4, 12) as usize;
    let evict = arg(5, 0) == 1;
    let zombie = arg(6, 0) as u32;
    let logfile = format!("/tmp/c16bb-{}-{}.log", std::process::id(), seed);
    let _ = std::fs::remove_file(&logfile);
    let mut rng = Rng(seed.wrapping_mul(0x9E3779B97F4A7C15) | 1);

    let front: SocketAddr = format!("127.0.0.1:{}", free_port()).parse().unwrap();
    let front2: SocketAddr = format!("127.0.0.1:{}", free_port()).parse().unwrap();
    let fronts: SocketAddr = format!("127.0.0.1:{}", free_port()).parse().unwrap();
    let fronts2: SocketAddr = format!("127.0.0.1:{}", free_port()).parse().unwrap();
    let fronts3: SocketAddr = format!("127.0.0.1:{}", free_port()).parse().unwrap();
    let tcp_good2: SocketAddr = format!("127.0.0.1:{}", free_port()).parse().unwrap();
    let tcp_good: SocketAddr = format!("127.0.0.1:{}", free_port()).parse().unwrap();
    let tcp_dead: SocketAddr = format!("127.0.0.1:{}", free_port()).parse().unwrap();
    let back_listener = TcpListener::bind("127.0.0.1:0").unwrap();
    let back: SocketAddr = back_listener.local_addr().unwrap();
    let dead: SocketAddr = format!("127.0.0.1:{}", free_port()).parse().unwrap(); // nobody listens
    std::thread::spawn(move || backend(back_listener));
    // a backend that never answers the SYN: a listening socket with backlog 0 whose accept queue is
    // kept full by one connection nobody accepts; further SYNs are dropped by the kernel
    let (hang, _hang_keep) = unsafe {
        let fd = libc::socket(libc::AF_INET, libc::SOCK_STREAM, 0);
        let one: libc::c_int = 1;
        libc::setsockopt(fd, libc::SOL_SOCKET, libc::SO_REUSEADDR, &one as *const _ as *const libc::c_void, 4);
        let mut sa: libc::sockaddr_in = std::mem::zeroed();
        sa.sin_family = libc::AF_INET as u16;
        sa.sin_port = 0;
        sa.sin_addr.s_addr = u32::from_be_bytes([127, 0, 0, 1]).to_be();
        libc::bind(fd, &sa as *const _ as *const libc::sockaddr, std::mem::size_of::<libc::sockaddr_in>() as u32);
        libc::listen(fd, 0);
        let mut len = std::mem::size_of::<libc::sockaddr_in>() as u32;
        libc::getsockname(fd, &mut sa as *mut _ as *mut libc::sockaddr, &mut len);
        let addr: SocketAddr = format!("127.0.0.1:{}", u16::from_be(sa.sin_port)).parse().unwrap();
        // fill the accept queue (backlog 0 holds one established connection) and keep everything alive
        let fillers: Vec<Option<TcpStream>> = (0..2).map(|_| TcpStream::connect_timeout(&addr, Duration::from_millis(300)).ok()).collect();
        (addr, (fd, fillers))
    };
    let tcp_hang: SocketAddr = format!("127.0.0.1:{}", free_port()).parse().unwrap();
    let tcp_empty: SocketAddr = format!("127.0.0.1:{}", free_port()).parse().unwrap();

    let config = ConfigBuilder::new(FileConfig::default(), "").into_config().expect("config");
    let mut sc = ServerConfig::from(&config);
    sc.max_connections = maxc;
    sc.max_connections_per_ip = Some(per_ip);
    sc.accept_queue_timeout = 3;
    sc.evict_on_queue_full = Some(evict);
    if zombie > 0 {
        sc.zombie_check_interval = zombie;
    }
    let (mut main_ch, worker_ch): (Main, Channel<WorkerResponse, WorkerRequest>) =
        Channel::generate(sc.command_buffer_size, sc.max_command_buffer_size).expect("channel");
    let (s1, s2) = UnixStream::pair().unwrap();
    let scm_main = ScmSocket::new(s1.into_raw_fd()).expect("scm");
    let scm_worker = ScmSocket::new(s2.into_raw_fd()).expect("scm");
    scm_main.send_listeners(&Listeners::default()).expect("send listeners");
    let sc2 = sc.clone();
    let lf = logfile.clone();
    let underflows_before = sozu_lib::metrics::VERIF_GAUGE_UNDERFLOWS.load(Ordering::SeqCst);
    std::thread::spawn(move || {
        let _ = sozu_command_lib::logging::setup_logging(&format!("file://{lf}"), false, None, None, None, "error", "C16BB");
        let mut server =
            Server::try_new_from_config(worker_ch, scm_worker, sc2, ConfigState::new().produce_initial_state(), false)
                .expect("worker");
        server.run();
    });
    main_ch.blocking().expect("blocking");

    let fa: SocketAddress = front.into();
    let fa2: SocketAddress = front2.into();
    let fas: SocketAddress = fronts.into();
    let mut lb = ListenerBuilder::new_http(fa.clone());
    lb.with_connect_timeout(Some(1));
    let mut lb2 = ListenerBuilder::new_http(fa2.clone());
    lb2.with_front_timeout(Some(2)).with_request_timeout(Some(2)).with_back_timeout(Some(2)).with_connect_timeout(Some(1));
    let mut lbs = ListenerBuilder::new_https(fas.clone());
    lbs.with_connect_timeout(Some(1));
    // HTTPS and TCP listeners with 2 s timeouts, for the sessions that go silent and must be reclaimed
    let fas2: SocketAddress = fronts2.into();
    let mut lbs2 = ListenerBuilder::new_https(fas2.clone());
    lbs2.with_front_timeout(Some(2)).with_request_timeout(Some(2)).with_back_timeout(Some(2)).with_connect_timeout(Some(1));
    // an HTTP/2-only HTTPS listener: a TLS client that negotiates no ALPN completes its handshake and is
    // then refused
    let fas3: SocketAddress = fronts3.into();
    let mut lbs3 = ListenerBuilder::new_https(fas3.clone());
    lbs3.with_connect_timeout(Some(1)).with_alpn_protocols(Some(vec!["h2".to_string()]));
    lbs3.disable_http11 = Some(true);
    let tcp_listener = |a: SocketAddr, cluster: &str| -> Vec<RequestType> {
        let sa: SocketAddress = a.into();
        let mut b = ListenerBuilder::new_tcp(sa.clone());
        b.with_connect_timeout(Some(1));
        if a == tcp_good2 {
            b.with_front_timeout(Some(2)).with_back_timeout(Some(2));
        }
        vec![
            RequestType::AddTcpListener(b.to_tcp(None).unwrap()),
            RequestType::ActivateListener(ActivateListener { address: sa.clone(), proxy: ListenerType::Tcp.into(), from_scm: false }),
            RequestType::AddTcpFrontend(RequestTcpFrontend { cluster_id: cluster.into(), address: sa, ..Default::default() }),
        ]
    };
    let front_of = |cluster: &str, host: &str, fa: &SocketAddress| RequestHttpFrontend {
        cluster_id: Some(cluster.into()),
        address: fa.clone(),
        hostname: host.into(),
        path: PathRule::prefix("/".to_string()),
        position: RulePosition::Tree.into(),
        ..Default::default()
    };
    let backend_of = |cluster: &str, addr: SocketAddr| {
        RequestType::AddBackend(AddBackend {
            cluster_id: cluster.into(),
            backend_id: format!("{cluster}-0"),
            address: addr.into(),
            load_balancing_parameters: Some(LoadBalancingParams::default()),
            sticky_id: None,
            backup: None,
        })
    };
    let assets = "/repo/lib/assets";
    let cert = std::fs::read_to_string(format!("{assets}/local-certificate.pem")).unwrap_or_default();
    let key = std::fs::read_to_string(format!("{assets}/local-key.pem")).unwrap_or_default();
    let (cert3, key3) = (cert.clone(), key.clone());
    let mut setup = vec![
        RequestType::AddHttpListener(lb.to_http(None).unwrap()),
        RequestType::ActivateListener(ActivateListener { address: fa.clone(), proxy: ListenerType::Http.into(), from_scm: false }),
        RequestType::AddHttpListener(lb2.to_http(None).unwrap()),
        RequestType::ActivateListener(ActivateListener { address: fa2.clone(), proxy: ListenerType::Http.into(), from_scm: false }),
        RequestType::AddHttpsListener(lbs.to_tls(None).unwrap()),
        RequestType::ActivateListener(ActivateListener { address: fas.clone(), proxy: ListenerType::Https.into(), from_scm: false }),
        RequestType::AddCluster(Cluster { cluster_id: "good".into(), ..Default::default() }),
        RequestType::AddCluster(Cluster { cluster_id: "dead".into(), ..Default::default() }),
        RequestType::AddCluster(Cluster { cluster_id: "hang".into(), ..Default::default() }),
        RequestType::AddCluster(Cluster { cluster_id: "empty".into(), ..Default::default() }),
        RequestType::AddHttpFrontend(front_of("hang", "hang.test", &fa)),
        RequestType::AddHttpFrontend(front_of("hang", "hang.test", &fa2)),
        RequestType::AddHttpFrontend(front_of("empty", "empty.test", &fa)),
        backend_of("hang", hang),
        RequestType::AddHttpFrontend(front_of("good", "good.test", &fa)),
        RequestType::AddHttpFrontend(front_of("dead", "dead.test", &fa)),
        RequestType::AddHttpFrontend(front_of("good", "good.test", &fa2)),
        RequestType::AddHttpsFrontend(front_of("good", "localhost", &fas)),
        RequestType::AddCertificate(AddCertificate {
            address: fas.clone(),
            certificate: CertificateAndKey { certificate: cert.clone(), key: key.clone(), certificate_chain: vec![], versions: vec![], names: vec![] },
            expired_at: None,
        }),
        backend_of("good", back),
        backend_of("dead", dead),
    ];
    setup.extend(tcp_listener(tcp_good, "good"));
    setup.extend(tcp_listener(tcp_dead, "dead"));
    // 8 listeners + 4 system entries: more entries that are not sessions than the 10 the accept gate
    // reserves for them (with max_connections = 1 this used to close the gate for good on an idle worker)
    let many_listeners = true;
    if many_listeners {
        setup.push(RequestType::AddHttpsListener(lbs2.to_tls(None).unwrap()));
        setup.push(RequestType::ActivateListener(ActivateListener { address: fas2.clone(), proxy: ListenerType::Https.into(), from_scm: false }));
        setup.push(RequestType::AddHttpsFrontend(front_of("good", "localhost", &fas2)));
        setup.push(RequestType::AddCertificate(AddCertificate {
            address: fas2.clone(),
            certificate: CertificateAndKey { certificate: cert, key, certificate_chain: vec![], versions: vec![], names: vec![] },
            expired_at: None,
        }));
        setup.push(RequestType::AddHttpsListener(lbs3.to_tls(None).unwrap()));
        setup.push(RequestType::ActivateListener(ActivateListener { address: fas3.clone(), proxy: ListenerType::Https.into(), from_scm: false }));
        setup.push(RequestType::AddHttpsFrontend(front_of("good", "localhost", &fas3)));
        setup.push(RequestType::AddCertificate(AddCertificate {
            address: fas3.clone(),
            certificate: CertificateAndKey { certificate: cert3, key: key3, certificate_chain: vec![], versions: vec![], names: vec![] },
            expired_at: None,
        }));
        setup.extend(tcp_listener(tcp_good2, "good"));
        setup.extend(tcp_listener(tcp_hang, "hang"));
        setup.extend(tcp_listener(tcp_empty, "empty"));
    }
    for (i, r) in setup.into_iter().enumerate() {
        match send(&mut main_ch, &format!("S-{i}"), r) {
            Some(resp) if resp.status == ResponseStatus::Ok as i32 => {}
            other => {
                // e.g. a port taken by somebody else between its choice and the bind: not a verdict
                println!("note setup-failed step {i}: {:?}", other.map(|r| r.message));
                println!("obs done (no run)");
                std::process::exit(0);
            }
        }
    }
    let mut qn = 0u32;
    std::thread::sleep(Duration::from_millis(300));
    let Some(base) = gauges(&mut main_ch, &mut qn) else {
        println!("note no-metrics");
        println!("obs done (no run)");
        std::process::exit(0);
    };
    println!("obs baseline {:?}", base);
    let get = |g: &Vec<(String, u64)>, k: &str| g.iter().find(|(n, _)| n == k).map(|(_, v)| *v);

    // the per-ip limit currently in force (changed at run time by outcome 20)
    let mut limit = per_ip;
    let mut refusals = 0usize;
    let mut dead_tries = 0usize;
    let mut went_ok_last;
    // the tightest limit that was in force ever since some still-open connection was admitted: the
    // storm only holds connections it opened itself after the last change, so `limit` is it
    const NKINDS: u64 = 40;
    let mut counts = [0usize; NKINDS as usize];
    let t_start = Instant::now();
    // how many times the outcome went as scripted (e.g. the response did arrive): coverage, not an oracle
    let mut went = [0usize; NKINDS as usize];
    // debugging aid: C16BB_ONLY=7,19 cycles through the given outcomes only
    let only: Option<Vec<usize>> = std::env::var("C16BB_ONLY")
        .ok()
        .map(|v| v.split(',').filter_map(|x| x.parse().ok()).collect())
        .or_else(|| {
            // 7th argument `k8_9`: cycle through outcomes 8 and 9 only (used by corpus witnesses)
            args.get(7).and_then(|a| a.strip_prefix('k')).map(|v| v.split('_').filter_map(|x| x.parse().ok()).collect())
        })
        .filter(|v: &Vec<usize>| !v.is_empty());
    let revive = args.get(8).is_some_and(|a| a == "1");
    for round in 0..rounds {
        let mut kind = (rng.next() % NKINDS) as usize;
        if let Some(k) = only.as_ref() {
            kind = k[round % k.len()];
        }
        if !many_listeners && matches!(kind, 23 | 24 | 25 | 26 | 29 | 30) {
            kind %= 23;
        }
        counts[kind] += 1;
        went_ok_last = false;
        if std::env::var("C16BB_TRACE").is_ok() {
            println!("note round {round} outcome {kind} at {} ms", t_start.elapsed().as_millis());
        }
        match kind {
            0 => {
                if let Some(mut c) = tcp(&front) {
                    let _ = c.write_all(request("good.test", "/x", true).as_bytes());
                    went_ok_last = read_response(&mut c, Duration::from_secs(5)).is_some_and(|l| l.contains(" 200"));
                }
            }
            1 => {
                // keep-alive: three requests on one connection; a connection that holds its
                // (cluster, ip) slot must never be refused that slot
                if let Some(mut c) = tcp(&front) {
                    let mut first = None;
                    for i in 0..3 {
                        let _ = c.write_all(request("good.test", "/x", false).as_bytes());
                        let r = read_response(&mut c, Duration::from_secs(5));
                        if i == 0 {
                            first = r.clone();
                        } else if first.as_ref().is_some_and(|l| l.contains(" 200")) && r.as_ref().is_some_and(|l| l.contains(" 429")) {
                            println!("viol slot-per-connection request {} of a keep-alive connection was refused 429 after its first request was served", i + 1);
                        }
                    }
                }
            }
            2 => {
                if let Some(mut c) = tcp(&front) {
                    let _ = c.write_all(request("good.test", "/x", false).as_bytes());
                    let _ = read_response(&mut c, Duration::from_secs(5));
                    reset(c);
                }
            }
            3 => {
                if let Some(mut c) = tcp(&front) {
                    let _ = c.write_all(b"GET /x HTTP/1.1\r\nHost: good.te");
                    std::thread::sleep(Duration::from_millis(30));
                    reset(c);
                }
            }
            4 => {
                if let Some(mut c) = tcp(&front) {
                    let _ = c.write_all(request("dead.test", "/x", false).as_bytes());
                    // 503: the connect was attempted and refused (a 429 would mean it never was)
                    went_ok_last = read_response(&mut c, Duration::from_secs(8)).is_some_and(|l| l.contains(" 503"));
                    if went_ok_last {
                        went[kind] += 1;
                    }
                }
            }
            5 => {
                if let Some(c) = tcp(&front) {
                    std::thread::sleep(Duration::from_millis(20));
                    drop(c);
                }
            }
            6 => {
                // idle until the worker reclaims the session: front timeout (2 s) on the second listener,
                // or the zombie check on the main one when it is configured
                let target = if zombie > 0 && rng.next() % 2 == 0 { front } else { front2 };
                if let Some(mut c) = tcp(&target) {
                    if target == front {
                        let _ = c.write_all(request("good.test", "/x", false).as_bytes());
                        let _ = read_response(&mut c, Duration::from_secs(5));
                    }
                    if !wait_closed(&mut c, Duration::from_secs(40)) && target == front2 {
                        println!("viol not-reclaimed an idle client connection was still open 40 s after connecting (front_timeout = 2 s)");
                    }
                }
            }
            7 => {
                // the backend disappears in the middle of the response
                if let Some(mut c) = tcp(&front) {
                    let _ = c.write_all(request("good.test", "/cut", false).as_bytes());
                    let _ = wait_closed(&mut c, Duration::from_secs(6));
                }
            }
            8 | 9 => {
                // WebSocket upgrade; 8: the client leaves, 9: the backend leaves
                if let Some(mut c) = tcp(&front) {
                    let _ = c.write_all(b"GET /ws HTTP/1.1\r\nHost: good.test\r\nUpgrade: websocket\r\nConnection: Upgrade\r\nSec-WebSocket-Key: dGhlIHNhbXBsZSBub25jZQ==\r\nSec-WebSocket-Version: 13\r\n\r\n");
                    let r = read_response(&mut c, Duration::from_secs(5));
                    if r.as_ref().is_some_and(|l| l.contains(" 101")) {
                        went[kind] += 1;
                        let _ = c.write_all(b"ping-ping");
                        let mut buf = [0u8; 64];
                        let _ = c.read(&mut buf);
                        if kind == 9 {
                            let _ = c.write_all(b"bye");
                            let _ = wait_closed(&mut c, Duration::from_secs(6));
                        }
                    }
                }
            }
            10 => {
                // garbage instead of a ClientHello
                if let Some(mut c) = tcp(&fronts) {
                    let junk: Vec<u8> = (0..200).map(|_| rng.next() as u8).collect();
                    let _ = c.write_all(&junk);
                    let _ = wait_closed(&mut c, Duration::from_secs(3));
                }
            }
            11 => {
                // a real ClientHello, then nothing
                if let Some(mut sock) = tcp(&fronts) {
                    if let Ok(mut conn) = ClientConnection::new(tls_config(&[b"h2", b"http/1.1"]), ServerName::try_from("localhost").unwrap()) {
                        let _ = conn.write_tls(&mut sock);
                        std::thread::sleep(Duration::from_millis(30));
                    }
                    if rng.next() % 2 == 0 {
                        reset(sock);
                    }
                }
            }
            12 => {
                // HTTP/1.1 over TLS
                if let Some(mut s) = tls_connect(&fronts, &[b"http/1.1"]) {
                    let _ = s.write_all(request("localhost", "/x", false).as_bytes());
                    if read_response(&mut s, Duration::from_secs(5)).is_some_and(|l| l.contains(" 200") || l.contains(" 429")) {
                        went[kind] += 1;
                    }
                }
            }
            13 => {
                // HTTP/2: two complete streams on one connection (one slot per connection)
                if let Some(mut s) = h2_open(&fronts) {
                    let mut ok_first = false;
                    for (i, sid) in [1u32, 3].into_iter().enumerate() {
                        let _ = s.write_all(&h2_frame(1, 5, sid, &h2_headers(false, "/x")));
                        let r = h2_read_stream(&mut s, sid, Duration::from_secs(5));
                        if i == 0 {
                            ok_first = r == Some(true);
                        }
                    }
                    if ok_first {
                        went[kind] += 1;
                    }
                    let _ = s.write_all(&h2_frame(7, 0, 0, &[0, 0, 0, 0, 0, 0, 0, 0]));
                }
            }
            14 => {
                // HTTP/2: a POST whose body never comes, cancelled with RST_STREAM, then a complete stream
                if let Some(mut s) = h2_open(&fronts) {
                    let _ = s.write_all(&h2_frame(1, 4, 1, &h2_headers(true, "/x")));
                    std::thread::sleep(Duration::from_millis(30));
                    let _ = s.write_all(&h2_frame(3, 0, 1, &[0, 0, 0, 8]));
                    let _ = s.write_all(&h2_frame(1, 5, 3, &h2_headers(false, "/x")));
                    if h2_read_stream(&mut s, 3, Duration::from_secs(5)) == Some(true) {
                        went[kind] += 1;
                    }
                }
            }
            15 => {
                // HTTP/2: the client is gone in the middle of a stream
                if let Some(mut s) = h2_open(&fronts) {
                    let _ = s.write_all(&h2_frame(1, 4, 1, &h2_headers(true, "/x")));
                    let _ = s.write_all(&h2_frame(0, 0, 1, b"half of the bo"));
                    let _ = s.flush();
                    std::thread::sleep(Duration::from_millis(30));
                    let (_conn, sock) = s.into_parts();
                    if rng.next() % 2 == 0 {
                        reset(sock);
                    } else {
                        drop(sock); // plain FIN, no close_notify, no GOAWAY
                    }
                }
            }
            16 => {
                if let Some(mut c) = tcp(&tcp_good) {
                    let _ = c.write_all(b"PING / HTTP/1.1\r\n\r\n");
                    if read_response(&mut c, Duration::from_secs(5)).is_some() {
                        went[kind] += 1;
                    }
                }
            }
            17 => {
                if let Some(mut c) = tcp(&tcp_good) {
                    let _ = c.write_all(b"PING / HTTP/1.1\r\n\r\n");
                    let _ = read_response(&mut c, Duration::from_secs(5));
                    let _ = c.write_all(b"half a requ");
                    reset(c);
                }
            }
            18 => {
                if let Some(mut c) = tcp(&tcp_dead) {
                    let _ = c.write_all(b"hello");
                    let _ = wait_closed(&mut c, Duration::from_secs(8));
                }
            }
            19 => {
                // the backend of a keep-alive connection in use goes away between two requests: served again
                if let Some(mut c) = tcp(&front) {
                    let _ = c.write_all(request("good.test", "/cut", false).as_bytes());
                    let _ = wait_closed(&mut c, Duration::from_secs(6));
                }
                if let Some(mut c) = tcp(&front) {
                    let _ = c.write_all(request("good.test", "/x", true).as_bytes());
                    let _ = read_response(&mut c, Duration::from_secs(5));
                }
            }
            20 => {
                // the per-(cluster, ip) limit changes at run time (0 disables and wipes the accounting;
                // a run that started with a limit never disables it, so that a leaked slot stays visible)
                let choices: &[u64] = if per_ip == 0 { &[0, 1, 2, 3] } else { &[1, 2, 3] };
                let n = choices[(rng.next() % choices.len() as u64) as usize];
                if send(&mut main_ch, &format!("L-{round}"), RequestType::SetMaxConnectionsPerIp(n)).is_some_and(|r| r.status == ResponseStatus::Ok as i32) {
                    limit = n;
                    println!("obs limit {n}");
                }
            }
            22 => {
                // WebSocket over TLS; the client or the backend leaves
                if let Some(mut s) = tls_connect(&fronts, &[b"http/1.1"]) {
                    let _ = s.write_all(b"GET /ws HTTP/1.1\r\nHost: localhost\r\nUpgrade: websocket\r\nConnection: Upgrade\r\nSec-WebSocket-Key: dGhlIHNhbXBsZSBub25jZQ==\r\nSec-WebSocket-Version: 13\r\n\r\n");
                    if read_response(&mut s, Duration::from_secs(5)).is_some_and(|l| l.contains(" 101")) {
                        went[kind] += 1;
                        let _ = s.write_all(b"ping-ping");
                        let mut buf = [0u8; 64];
                        let _ = s.read(&mut buf);
                        if rng.next() % 2 == 0 {
                            let _ = s.write_all(b"bye");
                            let _ = wait_closed(&mut s, Duration::from_secs(6));
                        }
                    }
                }
            }
            23 => {
                // a TLS handshake that never starts: reclaimed by the front timeout (2 s)
                if let Some(mut c) = tcp(&fronts2) {
                    if !wait_closed(&mut c, Duration::from_secs(40)) {
                        println!("viol not-reclaimed a connection that never sent its ClientHello was still open after 40 s (front_timeout = 2 s)");
                    } else {
                        went[kind] += 1;
                    }
                }
            }
            24 => {
                // an H2 request whose body never comes, client silent: reclaimed by the timeouts (2 s)
                if let Some(mut s) = h2_open(&fronts2) {
                    let _ = s.write_all(&h2_frame(1, 4, 1, &h2_headers(true, "/x")));
                    let _ = s.flush();
                    if !wait_closed(&mut s, Duration::from_secs(40)) {
                        println!("viol not-reclaimed an HTTP/2 connection stalled in the middle of a request was still open after 40 s (timeouts = 2 s)");
                    } else {
                        went[kind] += 1;
                    }
                }
            }
            25 => {
                // HTTP/1.1 over TLS, served, then silent: reclaimed by the front timeout (2 s)
                if let Some(mut s) = tls_connect(&fronts2, &[b"http/1.1"]) {
                    let _ = s.write_all(request("localhost", "/x", false).as_bytes());
                    let _ = read_response(&mut s, Duration::from_secs(5));
                    if !wait_closed(&mut s, Duration::from_secs(40)) {
                        println!("viol not-reclaimed an idle keep-alive TLS connection was still open after 40 s (front_timeout = 2 s)");
                    } else {
                        went[kind] += 1;
                    }
                }
            }
            26 => {
                // a TCP relay that goes silent: reclaimed by the timeouts (2 s)
                if let Some(mut c) = tcp(&tcp_good2) {
                    let _ = c.write_all(b"PING / HTTP/1.1\r\n\r\n");
                    let _ = read_response(&mut c, Duration::from_secs(5));
                    if !wait_closed(&mut c, Duration::from_secs(40)) {
                        println!("viol not-reclaimed an idle TCP relay was still open after 40 s (timeouts = 2 s)");
                    } else {
                        went[kind] += 1;
                    }
                }
            }
            27 => {
                // the client resets while the backend connection is still being established (unanswered SYN)
                if let Some(mut c) = tcp(&front) {
                    let _ = c.write_all(request("hang.test", "/x", false).as_bytes());
                    std::thread::sleep(Duration::from_millis(120));
                    if rng.next() % 2 == 0 {
                        reset(c);
                    }
                    went[kind] += 1;
                }
            }
            28 => {
                // the front timeout / the connect retries end a session whose backend never answers
                if let Some(mut c) = tcp(&front2) {
                    let _ = c.write_all(request("hang.test", "/x", false).as_bytes());
                    if wait_closed(&mut c, Duration::from_secs(40)) {
                        went[kind] += 1;
                    } else {
                        println!("viol not-reclaimed a session whose backend never answers was still open after 40 s (timeouts 1-2 s)");
                    }
                }
            }
            29 => {
                // TCP relay: the client leaves while the backend connection is still being established
                if let Some(mut c) = tcp(&tcp_hang) {
                    let _ = c.write_all(b"hello");
                    std::thread::sleep(Duration::from_millis(120));
                    if rng.next() % 2 == 0 {
                        reset(c);
                    }
                    went[kind] += 1;
                }
            }
            30 => {
                // TCP relay towards a cluster that has no backend at all: closed at once
                if let Some(mut c) = tcp(&tcp_empty) {
                    let _ = c.write_all(b"hello");
                    if wait_closed(&mut c, Duration::from_secs(8)) {
                        went[kind] += 1;
                    }
                }
            }
            31 => {
                // HTTP towards a cluster that has no backend at all: 503
                if let Some(mut c) = tcp(&front) {
                    let _ = c.write_all(request("empty.test", "/x", false).as_bytes());
                    if read_response(&mut c, Duration::from_secs(5)).is_some_and(|l| l.contains(" 503")) {
                        went[kind] += 1;
                    }
                }
            }
            32 | 33 => {
                // the session is killed in the middle of a transfer: 24 MB are on their way to a client that
                // does not read; it resets (32) or just leaves (33) while the proxy's buffers hold data
                if let Some(mut c) = tcp(&front) {
                    small_rcvbuf(&c);
                    let _ = c.write_all(request("good.test", "/big", false).as_bytes());
                    std::thread::sleep(Duration::from_millis(250));
                    went[kind] += 1;
                    if kind == 32 {
                        reset(c);
                    } else {
                        let mut b = [0u8; 1000];
                        let _ = c.read(&mut b);
                        drop(c);
                    }
                }
            }
            34 => {
                // the same over TLS (HTTP/2): a stream with 24 MB pending, then the client is gone
                if let Some(mut s) = h2_open(&fronts) {
                    let _ = s.write_all(&h2_frame(1, 5, 1, &h2_headers(false, "/big")));
                    let _ = s.flush();
                    std::thread::sleep(Duration::from_millis(250));
                    went[kind] += 1;
                    let (_conn, sock) = s.into_parts();
                    reset(sock);
                }
            }
            35 => {
                // TCP relay killed in the middle of a transfer (the relay's own buffers hold data when dropped)
                if let Some(mut c) = tcp(&tcp_good) {
                    small_rcvbuf(&c);
                    let _ = c.write_all(b"GET /big HTTP/1.1\r\n\r\n");
                    std::thread::sleep(Duration::from_millis(250));
                    went[kind] += 1;
                    if rng.next() % 2 == 0 {
                        reset(c);
                    }
                }
            }
            36 => {
                // ALPN refusal after a completed handshake (H2-only listener, client without ALPN), while
                // another client sits silently in its own handshake: the handshake gauge must still count
                // exactly that one
                wait_idle(&mut main_ch, &mut qn, 0);
                let silent = tcp(&fronts3);
                std::thread::sleep(Duration::from_millis(50));
                let refused = match tcp(&fronts3) {
                    Some(sock) => {
                        let _ = sock.set_read_timeout(Some(Duration::from_secs(3)));
                        match ClientConnection::new(tls_config(&[]), ServerName::try_from("localhost").unwrap()) {
                            Ok(conn) => {
                                let mut s = rustls::StreamOwned::new(conn, sock);
                                let t0 = Instant::now();
                                let mut hs = true;
                                while s.conn.is_handshaking() {
                                    if t0.elapsed() > Duration::from_secs(5) || s.conn.complete_io(&mut s.sock).is_err() {
                                        hs = false;
                                        break;
                                    }
                                }
                                let _ = s.sock.set_read_timeout(Some(Duration::from_millis(200)));
                                let _ = s.write_all(request("localhost", "/x", false).as_bytes());
                                hs && wait_closed(&mut s, Duration::from_secs(5))
                            }
                            Err(_) => false,
                        }
                    }
                    None => false,
                };
                if refused && silent.is_some() && wait_idle(&mut main_ch, &mut qn, 1) {
                    went[kind] += 1;
                    if let Some(g) = gauges(&mut main_ch, &mut qn) {
                        let h = get(&g, "protocol.tls.handshake").unwrap_or(0);
                        if h != 1 {
                            println!("viol gauge-wrong one client is in the middle of its TLS handshake and protocol.tls.handshake reads {h} after another client was refused at ALPN");
                        }
                    }
                }
                drop(silent);
            }
            37 => {
                // the backend closes an idle kept-alive backend connection while the client stays connected:
                // the connection must stop being counted at once, and the client's next request is served
                wait_idle(&mut main_ch, &mut qn, 0);
                if let Some(mut c) = tcp(&front) {
                    let _ = c.write_all(request("good.test", "/once", false).as_bytes());
                    if read_response(&mut c, Duration::from_secs(5)).is_some_and(|l| l.contains(" 200")) {
                        std::thread::sleep(Duration::from_millis(600));
                        went[kind] += 1;
                        let snap = backends_snapshot(&mut main_ch, &mut qn);
                        if let Some(b) = snap.iter().find(|b| b.backend_id == "good-0") {
                            if b.active_connections != 0 {
                                println!("viol backend-count-not-released the backend closed its idle connection 600 ms ago, the client is still connected, and the backend still counts {} connections", b.active_connections);
                            }
                        }
                        if let Some(g) = gauges(&mut main_ch, &mut qn) {
                            for k in ["backend.connections", "backend.pool.size", "good/connections_per_backend"] {
                                let v = get(&g, k).unwrap_or(0);
                                if v != 0 {
                                    println!("viol backend-count-not-released the backend closed its idle connection 600 ms ago, the client is still connected, and gauge {k} = {v}");
                                }
                            }
                        }
                        let _ = c.write_all(request("good.test", "/x", true).as_bytes());
                        let _ = read_response(&mut c, Duration::from_secs(5));
                    }
                }
            }
            38 | 39 => {
                // the per-(cluster, ip) limit is enabled (38: 0 -> 2) or lowered (39: 3 -> 2) at run time while
                // two connections are open: their slots must still count, a third connection is refused
                if maxc >= 3 {
                    wait_idle(&mut main_ch, &mut qn, 0);
                    let before = if kind == 38 { 0 } else { 3 };
                    let ok = |r: Option<WorkerResponse>| r.is_some_and(|r| r.status == ResponseStatus::Ok as i32);
                    if ok(send(&mut main_ch, &format!("T-{round}-a"), RequestType::SetMaxConnectionsPerIp(before))) {
                        let mut held: Vec<TcpStream> = vec![];
                        let mut served = 0;
                        for _ in 0..2 {
                            if let Some(mut c) = tcp(&front) {
                                let _ = c.write_all(request("good.test", "/x", false).as_bytes());
                                if read_response(&mut c, Duration::from_secs(3)).is_some_and(|l| l.contains(" 200")) {
                                    served += 1;
                                }
                                held.push(c);
                            }
                        }
                        if served == 2 && ok(send(&mut main_ch, &format!("T-{round}-b"), RequestType::SetMaxConnectionsPerIp(2))) {
                            went[kind] += 1;
                            if let Some(mut c) = tcp(&front) {
                                let _ = c.write_all(request("good.test", "/x", true).as_bytes());
                                if read_response(&mut c, Duration::from_secs(3)).is_some_and(|l| l.contains(" 200")) {
                                    println!("viol over-ip-limit two connections from this address are open, the per-(cluster, ip) limit was just set to 2 (from {before}), and a third one was served: the open connections' slots were forgotten");
                                }
                            }
                        }
                        drop(held);
                    }
                    let _ = send(&mut main_ch, &format!("T-{round}-c"), RequestType::SetMaxConnectionsPerIp(limit));
                }
            }
            21 => {
                // a storm above max_connections: everybody asks, nobody leaves
                let n = maxc as usize + 3;
                let mut conns: Vec<TcpStream> = (0..n).filter_map(|_| tcp(&front)).collect();
                for (i, c) in conns.iter_mut().enumerate() {
                    // every other one asks for 24 MB it will not read: sessions with pending output
                    let path = if i % 2 == 1 { "/big" } else { "/x" };
                    if i % 2 == 1 {
                        small_rcvbuf(c);
                    }
                    let _ = c.write_all(request("good.test", path, false).as_bytes());
                }
                // pass 1: who is answered 200 while all are held open
                let mut answered = vec![false; conns.len()];
                for (i, c) in conns.iter_mut().enumerate() {
                    answered[i] = read_response(c, Duration::from_millis(400)).is_some_and(|l| l.contains(" 200"));
                }
                // pass 2: of those, who is still being served (not closed by the worker: eviction, zombie
                // check).  Everybody counted was answered before pass 2 began and is open at its own
                // check, hence all of them were being served at the instant pass 2 began.
                let mut served = 0;
                for (i, c) in conns.iter_mut().enumerate() {
                    if answered[i] && still_open(c) {
                        served += 1;
                    }
                }
                println!("obs storm opened={} served_at_once={served} max={maxc} limit={limit}", conns.len());
                if served as u64 > maxc {
                    println!("viol over-max {served} connections were being served at once, max_connections={maxc}");
                }
                if limit > 0 && served as u64 > limit {
                    println!("viol over-ip-limit {served} connections from one address to one cluster were being served at once, limit {limit}");
                }
                if let Some(g) = gauges(&mut main_ch, &mut qn) {
                    if let Some(v) = get(&g, "client.connections") {
                        if v > maxc {
                            println!("viol over-max gauge client.connections={v} > max_connections={maxc}");
                        }
                    }
                }
                drop(conns);
            }
            _ => {}
        }
        // C12, through the real session code: what the sessions did to the backend they were given
        if matches!(kind, 0 | 4 | 18) {
            let snap = backends_snapshot(&mut main_ch, &mut qn);
            if let Some(d) = snap.iter().find(|b| b.backend_id == "dead-0") {
                if kind == 18 || (kind == 4 && went_ok_last) {
                    refusals += 1;
                    if d.tries == 0 || d.failures == 0 {
                        println!("viol c12-refusal-not-recorded the backend refused a connection and its retry policy shows tries={} failures={}", d.tries, d.failures);
                    }
                }
                if d.tries > d.max_tries || d.is_down != (d.tries >= d.max_tries) || d.tries < dead_tries {
                    println!("viol c12-retry-state dead backend: tries={} (before {dead_tries}) max={} is_down={}", d.tries, d.max_tries, d.is_down);
                }
                dead_tries = d.tries;
                if d.active_connections > 1 || d.active_requests > 1 {
                    println!("viol c12-counter-drift dead backend holds {} connections / {} requests with at most one client", d.active_connections, d.active_requests);
                }
            }
            if kind == 0 {
                if let Some(g) = snap.iter().find(|b| b.backend_id == "good-0") {
                    if went_ok_last && (g.tries != 0 || g.failures != 0 || g.is_down) {
                        println!("viol c12-success-not-recorded a request was just served by the backend and its retry policy shows tries={} failures={} is_down={}", g.tries, g.failures, g.is_down);
                    }
                }
            }
        }
        // sessions of the HTTPS and TCP listeners and WebSocket sessions close through their own paths:
        // look for a slot they left behind before a later session recycles their token
        let probe_host = match kind {
            8 | 9 | 12 | 13 | 14 | 15 | 16 | 17 | 22 | 24 | 25 | 26 | 34 | 35 => Some("good.test"),
            4 | 18 => Some("dead.test"),
            27 | 28 | 29 => Some("hang.test"),
            30 | 31 => Some("empty.test"),
            _ => None,
        };
        if let Some(host) = probe_host {
            // the probe asks whether a session that is OVER left a slot behind: wait until the worker
            // serves nobody (a session whose client has left may legitimately live on for a moment,
            // e.g. while its backend connection attempt runs into the connect timeout)
            let t0 = Instant::now();
            let mut idle = false;
            while t0.elapsed() < Duration::from_secs(12) {
                if gauges(&mut main_ch, &mut qn).is_some_and(|g| get(&g, "client.connections") == Some(0)) {
                    idle = true;
                    break;
                }
                std::thread::sleep(Duration::from_millis(100));
            }
            if idle
                && slot_probe(&mut main_ch, &format!("P-{round}"), maxc, &front, limit, host) == Some(false) {
                println!("viol slot-leak after outcome {kind}: nothing talks to the cluster, the per-(cluster, ip) limit is 1, silent connections hold the recycled tokens, and a fresh connection was refused 429: a slot of a closed session is still held");
            }
        }
    }
    println!("obs outcomes {:?}", counts);
    println!("obs went {:?}", went);

    // C12: the refusing backend comes to life; as soon as its back-off window lets a connection
    // through and it succeeds, its retry policy is reset (thorough tier: windows last up to 31 s)
    if revive && refusals > 0 {
        if let Ok(l) = TcpListener::bind(dead) {
            std::thread::spawn(move || backend(l));
            let t0 = Instant::now();
            let mut served = false;
            while t0.elapsed() < Duration::from_secs(75) {
                if let Some(mut c) = tcp(&front) {
                    let _ = c.write_all(request("dead.test", "/x", true).as_bytes());
                    if read_response(&mut c, Duration::from_secs(3)).is_some_and(|l| l.contains(" 200")) {
                        served = true;
                        break;
                    }
                }
                std::thread::sleep(Duration::from_millis(700));
            }
            println!("obs revive served={served} after {} ms", t0.elapsed().as_millis());
            if !served {
                println!("viol c12-no-recovery the backend accepts connections again and no request reached it within 75 s (back-off windows last at most 31 s)");
            } else {
                let snap = backends_snapshot(&mut main_ch, &mut qn);
                if let Some(d) = snap.iter().find(|b| b.backend_id == "dead-0") {
                    if d.tries != 0 || d.failures != 0 || d.is_down {
                        println!("viol c12-success-not-recorded the revived backend served a request and its retry policy shows tries={} failures={} is_down={}", d.tries, d.failures, d.is_down);
                    }
                }
            }
        }
    }
    // everything is over: the footprint must come back to the baseline
    let t0 = Instant::now();
    let mut last = vec![];
    let mut ok = false;
    let mut busy: Vec<String> = vec![];
    let deadline = std::env::var("C16BB_DEADLINE").ok().and_then(|v| v.parse().ok()).unwrap_or(40u64);
    while t0.elapsed() < Duration::from_secs(deadline) {
        if let Some(g) = gauges(&mut main_ch, &mut qn) {
            last = g.clone();
            let same = base.iter().all(|(k, v)| get(&g, k) == Some(*v))
                && g.iter().all(|(k, v)| get(&base, k).unwrap_or(0) == *v);
            // ... and so must the load counters of every backend object (what the policies read)
            let snap = backends_snapshot(&mut main_ch, &mut qn);
            busy = snap.iter().filter(|b| b.active_connections != 0 || b.active_requests != 0).map(|b| format!("{}: {} connections, {} requests", b.backend_id, b.active_connections, b.active_requests)).collect();
            if same && busy.is_empty() {
                ok = true;
                break;
            }
        }
        std::thread::sleep(Duration::from_millis(250));
    }
    println!("obs final {:?} after {} ms", last, t0.elapsed().as_millis());
    if !ok {
        for (k, v) in &last {
            let b = get(&base, k).unwrap_or(0);
            if b != *v {
                println!("viol not-baseline gauge {k} = {v}, baseline {b}, 40 s after the last connection closed");
            }
        }
        for b in &busy {
            println!("viol backend-count-not-zero traffic has ended and backend {b}");
        }
        for (k, b) in &base {
            if get(&last, k).is_none() {
                println!("viol not-baseline gauge {k} disappeared (baseline {b})");
            }
        }
    }
    // the per-(cluster, ip) slots are all free (before any other connection recycles a token)
    if slot_probe(&mut main_ch, "P-final", maxc, &front, 1, "good.test") == Some(false) {
        println!("viol slot-leak nothing talks to the cluster, the per-(cluster, ip) limit is 1, silent connections hold the recycled tokens, and a fresh connection was refused 429: a slot of a closed session is still held");
    }
    // the worker accepts again
    if maxc >= 1 {
        let mut served = false;
        for _attempt in 0..20 {
            if let Some(mut c) = tcp(&front) {
                let _ = c.write_all(request("good.test", "/x", true).as_bytes());
                if read_response(&mut c, Duration::from_secs(2)).is_some_and(|l| l.contains(" 200") || l.contains(" 429")) {
                    served = true;
                    break;
                }
            }
            std::thread::sleep(Duration::from_millis(500));
        }
        if !served {
            println!("viol accept-wedged no request was answered within 20 attempts after everything had closed (max_connections={maxc})");
        }
    }
    let under = sozu_lib::metrics::VERIF_GAUGE_UNDERFLOWS.load(Ordering::SeqCst) - underflows_before;
    if under > 0 {
        let log = std::fs::read_to_string(&logfile).unwrap_or_default();
        let which: Vec<&str> = log.lines().filter(|l| l.contains("underflow")).take(3).collect();
        println!("viol gauge-underflow {under} gauge decrements were clamped at zero: {}", which.join(" | ").replace('\n', " "));
    }
    if std::env::var("C16BB_KEEPLOG").is_err() {
        let _ = std::fs::remove_file(&logfile);
    } else {
        println!("note log kept at {logfile}");
    }
    println!("obs done");
    std::process::exit(0);
}
