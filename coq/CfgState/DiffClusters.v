(** CfgState — the cluster section of [diff] applied (C06): the merge-join
    composed with the add_cluster / remove_cluster handlers. *)
From stdpp Require Import gmap strings.
From Coq Require Import NArith Lia.
From SV Require Import CfgState.Model CfgState.Spec CfgState.Proofs CfgState.ReplayProofs CfgState.DiffProofs CfgState.DiffChunks.
Open Scope N_scope.

Section dmkeys.
  Context {K V : Type} (kcmp : K -> K -> comparison) (veq : V -> V -> bool).
  Hypothesis cmp_refl : forall a, kcmp a a = Eq.
  Hypothesis cmp_eq : forall a b, kcmp a b = Eq -> a = b.
  Hypothesis cmp_antisym : forall a b, kcmp b a = CompOpp (kcmp a b).
  Hypothesis cmp_trans : forall a b c, kcmp a b = Lt -> kcmp b c = Lt -> kcmp a c = Lt.
  Notation dm := (diff_map kcmp veq).
  Notation above := (above kcmp).
  Notation ssorted := (ssorted kcmp).

  Lemma dm_above k my : forall other,
    above k my -> above k other -> forall k' r, In (k', r) (dm my other) -> kcmp k k' = Lt.
  Proof.
    induction my as [|[k1 v1] my IHmy]; intros other Ha1 Ha2 k' r Hin.
    - rewrite dm_nil_l in Hin. apply in_map_iff in Hin as [[k2 v2] [E Hin]]. inversion E; subst.
      clear -Ha2 Hin. induction other as [|[k3 v3] o IH]; [destruct Hin|].
      destruct Ha2 as [H1 H2]. destruct Hin as [E|Hin]; [inversion E; subst; exact H1|apply IH; assumption].
    - induction other as [|[k2 v2] other IHo].
      + rewrite dm_nil_r in Hin. apply in_map_iff in Hin as [[k3 v3] [E Hin]]. inversion E; subst.
        clear -Ha1 Hin. revert Ha1 Hin. generalize ((k1, v1) :: my). intros l. induction l as [|[k4 v4] l IH]; intros Ha Hin; [destruct Hin|].
        destruct Ha as [H1 H2]. destruct Hin as [E|Hin]; [inversion E; subst; exact H1|apply IH; assumption].
      + rewrite dm_cons in Hin. destruct Ha1 as [Hk1 Ha1]. destruct Ha2 as [Hk2 Ha2].
        destruct (kcmp k1 k2) eqn:Hc.
        * assert (Hrec : In (k', r) (dm my other) -> kcmp k k' = Lt) by (apply IHmy; assumption).
          destruct (veq v1 v2); [auto|]. destruct Hin as [E|Hin]; [inversion E; subst; exact Hk1|auto].
        * destruct Hin as [E|Hin]; [inversion E; subst; exact Hk1|].
          eapply (IHmy ((k2, v2) :: other)); [exact Ha1|split; assumption|exact Hin].
        * destruct Hin as [E|Hin]; [inversion E; subst; exact Hk2|].
          apply IHo; [exact Ha2|exact Hin].
  Qed.

  Lemma dm_nodup my : forall other, ssorted my -> ssorted other -> NoDup ((dm my other).*1).
  Proof.
    assert (Hmap : forall (l : list (K * V)) (r : dres), ssorted l -> NoDup ((map (fun kv => (fst kv, r)) l).*1)).
    { intros l r. induction l as [|[k v] l IH]; intros Hs; [constructor|].
      destruct Hs as [Ha Hs]. cbn. apply NoDup_cons. split; [|apply IH; exact Hs].
      intros Hin. apply elem_of_list_fmap in Hin as [[k' r'] [E Hin]]. cbn in E. subst k'.
      apply elem_of_list_In, in_map_iff in Hin as [[k2 v2] [E Hin]]. inversion E; subst.
      eapply (above_not_has kcmp cmp_refl); [exact Ha|]. exists v2. exact Hin. }
    assert (Hfresh : forall k (out : list (K * dres)), (forall k' r, In (k', r) out -> kcmp k k' = Lt) -> k ∉ out.*1).
    { intros k out Hall Hin. apply elem_of_list_fmap in Hin as [[k' r] [-> Hin]].
      apply elem_of_list_In in Hin. specialize (Hall _ _ Hin). cbn in Hall. rewrite cmp_refl in Hall. discriminate. }
    induction my as [|[k1 v1] my IHmy]; intros other Hs1 Hs2.
    - rewrite dm_nil_l. apply Hmap. exact Hs2.
    - induction other as [|[k2 v2] other IHo].
      + rewrite dm_nil_r. apply Hmap. exact Hs1.
      + destruct Hs1 as [Ha1 Hs1]. destruct Hs2 as [Ha2 Hs2].
        rewrite dm_cons. destruct (kcmp k1 k2) eqn:Hc.
        * apply cmp_eq in Hc. subst k2.
          destruct (veq v1 v2); [apply IHmy; assumption|].
          rewrite fmap_cons. apply NoDup_cons. split; [|apply IHmy; assumption].
          apply Hfresh. intros k' r. apply dm_above; assumption.
        * rewrite fmap_cons. apply NoDup_cons. split; [|apply IHmy; [assumption|split; assumption]].
          apply Hfresh. intros k' r. apply dm_above; [exact Ha1|].
          split; [exact Hc|]. eapply (above_trans kcmp cmp_trans); eauto.
        * rewrite fmap_cons. apply NoDup_cons. split; [|apply IHo; assumption].
          apply Hfresh. intros k' r. apply dm_above; [|exact Ha2].
          assert (Hlt : kcmp k2 k1 = Lt) by (rewrite (cmp_antisym k1 k2), Hc; reflexivity).
          split; [exact Hlt|]. eapply (above_trans kcmp cmp_trans); [exact Hlt|exact Ha1].
  Qed.
End dmkeys.

(** [sorted_entries] is a strictly key-sorted list of exactly the map's entries *)
Lemma In_sorted_entries {V} (m : gmap N V) k v : In (k, v) (sorted_entries m) <-> m !! k = Some v.
Proof. unfold sorted_entries. rewrite In_isort, <- elem_of_list_In. apply elem_of_map_to_list. Qed.

Lemma sorted_le_head {V} (x : N * V) l :
  sorted (fun a b : N * V => fst a <=? fst b) (x :: l) -> forall y, In y l -> (fst x <=? fst y) = true.
Proof.
  revert x. induction l as [|z l IH]; intros x Hs y Hin; [destruct Hin|].
  inversion Hs; subst. destruct Hin as [->|Hin]; [assumption|].
  apply N.leb_le. transitivity (fst z); [apply N.leb_le; assumption|apply N.leb_le; apply IH; assumption].
Qed.

Lemma ssorted_sorted_entries {V} (m : gmap N V) : ssorted N.compare (sorted_entries m).
Proof.
  unfold sorted_entries.
  assert (Hs : sorted (fun a b : N * V => fst a <=? fst b) (isort (fun a b : N * V => fst a <=? fst b) (map_to_list m))).
  { apply isort_sorted. intros a b Hab. apply N.leb_le. apply N.leb_gt in Hab. lia. }
  assert (Hnd : NoDup ((isort (fun a b : N * V => fst a <=? fst b) (map_to_list m)).*1)).
  { assert (Hp : isort (fun a b : N * V => fst a <=? fst b) (map_to_list m) ≡ₚ map_to_list m).
    { clear. induction (map_to_list m) as [|x l IH]; cbn [isort]; [reflexivity|].
      assert (Hi : forall y (r : list (N * V)), insert_sorted (fun a b : N * V => fst a <=? fst b) y r ≡ₚ y :: r).
      { intros y r. induction r as [|z r IHr]; cbn [insert_sorted]; [reflexivity|].
        destruct (fst y <=? fst z); [reflexivity|]. rewrite IHr. apply perm_swap. }
      rewrite Hi, IH. reflexivity. }
    rewrite Hp. apply NoDup_fst_map_to_list. }
  revert Hs Hnd. generalize (isort (fun a b : N * V => fst a <=? fst b) (map_to_list m)). intros l.
  induction l as [|[k v] l IH]; intros Hs Hnd; [exact I|].
  rewrite fmap_cons in Hnd. apply NoDup_cons in Hnd as [Hni Hnd]. cbn [fst] in Hni.
  split; [|apply IH; [eapply sorted_tail; exact Hs|exact Hnd]].
  assert (Hall : forall y, In y l -> k < fst y).
  { intros y Hy. pose proof (sorted_le_head (k, v) l Hs y Hy) as Hle. cbn [fst] in Hle. apply N.leb_le in Hle.
    assert (k <> fst y).
    { intros E. apply Hni. apply elem_of_list_fmap. exists y. split; [exact E|apply elem_of_list_In; exact Hy]. }
    lia. }
  clear -Hall. induction l as [|[k2 v2] l IH]; [exact I|].
  split; [apply N.compare_lt_iff; apply (Hall (k2, v2)); left; reflexivity|].
  apply IH. intros y Hy. apply Hall. right. exact Hy.
Qed.

Section clusters.
  Variable fingerprint : N -> option N.
  Variable inames : N -> option (list N).
  Variable hc_valid : N -> bool.
  Variable steps : lkind -> list step.
  Notation replay := (replay fingerprint inames hc_valid steps).

  Lemma Ncmp_trans a b c : (a ?= b) = Lt -> (b ?= c) = Lt -> (a ?= c) = Lt.
  Proof. rewrite !N.compare_lt_iff. apply N.lt_trans. Qed.

  Theorem piece_clusters my other s :
    clusters s = my ->
    (forall i c v, other !! i = Some c -> c_hc c = Some v -> hc_valid v = true) ->
    replay (diff_clusters my other) s = (set_clusters s other, 0%nat).
  Proof.
    intros Hmy Hhc. unfold diff_clusters.
    set (veq := fun a b : cluster => bool_decide (a = b)).
    set (L := diff_map N.compare veq (sorted_entries my) (sorted_entries other)).
    assert (Hnd : NoDup (L.*1)).
    { apply (dm_nodup N.compare veq N.compare_refl N.compare_eq (fun a b => N.compare_antisym a b) Ncmp_trans);
        apply ssorted_sorted_entries. }
    assert (Hcorr := dm_correct N.compare veq N.compare_refl N.compare_eq (fun a b => N.compare_antisym a b) Ncmp_trans
                       (sorted_entries my) (sorted_entries other) (ssorted_sorted_entries my) (ssorted_sorted_entries other)).
    fold L in Hcorr.
    assert (Hhas : forall (m : gmap N cluster) k, has (sorted_entries m) k <-> is_Some (m !! k)).
    { intros m k. unfold has. split; intros [v Hv]; exists v; apply In_sorted_entries; exact Hv. }
    assert (Es : s = set_clusters s my) by (destruct s; cbn in *; subst; reflexivity).
    rewrite Es at 1.
    rewrite (replay_chunks fingerprint inames hc_valid steps set_clusters (cluster_chunk other)
               (fun k r o => match r with DRemoved => None | _ => match other !! k with Some c => Some c | None => o end end)
               (fun k r o => match r with DRemoved => is_Some o | _ => True end)).
    - f_equal. f_equal. apply map_eq. intros k.
      destruct (decide (k ∈ L.*1)) as [Hin|Hnin].
      + apply elem_of_list_fmap in Hin as [[k' r] [-> Hin]]. cbn [fst]. apply elem_of_list_In in Hin.
        rewrite (apply_chunks_in _ _ _ k' r Hnd Hin).
        apply Hcorr in Hin. destruct r.
        * destruct Hin as [_ Ho]. apply Hhas in Ho as [c Hc]. rewrite Hc. reflexivity.
        * destruct Hin as [_ Ho]. destruct (other !! k') eqn:E; [|reflexivity]. exfalso. apply Ho, Hhas. eauto.
        * destruct Hin as (v1 & v2 & _ & H2 & _). apply In_sorted_entries in H2. rewrite H2. reflexivity.
      + rewrite apply_chunks_notin by exact Hnin.
        assert (Hno : forall r, ~ In (k, r) L).
        { intros r Hin. apply Hnin. apply elem_of_list_fmap. exists (k, r). split; [reflexivity|apply elem_of_list_In; exact Hin]. }
        destruct (my !! k) as [c1|] eqn:E1; destruct (other !! k) as [c2|] eqn:E2; try reflexivity.
        * destruct (decide (c1 = c2)) as [->|Hne]; [reflexivity|]. exfalso. apply (Hno DChanged). apply Hcorr.
          exists c1, c2. repeat split; [apply In_sorted_entries; exact E1|apply In_sorted_entries; exact E2|].
          unfold veq. apply bool_decide_eq_false_2. exact Hne.
        * exfalso. apply (Hno DRemoved). apply Hcorr. split; [apply Hhas; rewrite E1; eauto|].
          intros Hh. apply Hhas in Hh. rewrite E2 in Hh. destruct Hh as [? Hh]. discriminate.
        * exfalso. apply (Hno DAdded). apply Hcorr. split; [|apply Hhas; rewrite E2; eauto].
          intros Hh. apply Hhas in Hh. rewrite E1 in Hh. destruct Hh as [? Hh]. discriminate.
    - intros k r s0 m HP. unfold cluster_chunk.
      assert (Hadd : match other !! k with
                     | Some c => replay [RAddCluster k c] (set_clusters s0 m) = (set_clusters s0 (<[k := c]> m), 0%nat)
                     | None => True end).
      { destruct (other !! k) as [c|] eqn:Eo; [|exact I]. cbn [Model.replay Model.dispatch]. unfold add_cluster.
        destruct (c_hc c) as [v|] eqn:Ev; [rewrite (Hhc k c v Eo Ev)|]; reflexivity. }
      destruct r.
      + destruct (other !! k) as [c|]; [exact Hadd|cbn; rewrite partial_alter_id; reflexivity].
      + destruct HP as [c Hc]. cbn [Model.replay Model.dispatch]. unfold remove_cluster.
        cbn [clusters set_clusters]. rewrite Hc. reflexivity.
      + destruct (other !! k) as [c|]; [exact Hadd|cbn; rewrite partial_alter_id; reflexivity].
    - exact Hnd.
    - intros k r Hin. destruct r; try exact I. apply Hcorr in Hin as [Hm _]. apply Hhas in Hm. exact Hm.
  Qed.
End clusters.
