//! C03 / C13 black-box tier: a real worker (own thread, plain HTTP listener), a
//! RECORDING backend that re-parses everything it receives with a strict RFC
//! 9112 reader, and a raw client that sends the case's bytes at the case's
//! segmentation.
//!
//! The property's own oracle (no model involved), per case:
//!   * every byte a backend connection received belongs to a well-formed request
//!     (strict reader), nothing is left over;
//!   * every such request was ROUTED by sozu: it carries exactly one correlation
//!     header (the connection's id, which a request sozu did not parse itself
//!     cannot know) and one X-Request-Id, i.e. the number and boundaries of
//!     the requests the backend sees are those sozu understood;
//!   * C13: the last X-Forwarded-For element is the client's address, Forwarded's
//!     last element is sozu's, X-Forwarded-Proto/Port describe the listener when
//!     the client sent none, and no trailer carries a proxy-owned name;
//!   * the client gets exactly one answer per request the backend saw, plus
//!     sozu's own 4xx for what it refused.
//!
//! input  (argv[1]): the usual case file; ops: `cuts <n>...`, `raw <bytes>`
//! output: `obs` per op + `viol` lines.
use std::{
    io::{Read, Write},
    net::{SocketAddr, TcpListener, TcpStream},
    os::fd::IntoRawFd,
    os::unix::net::UnixStream,
    sync::{Arc, Mutex},
    time::{Duration, Instant},
};

use sozu_command_lib::{
    channel::Channel,
    config::{ConfigBuilder, FileConfig, ListenerBuilder},
    proto::command::{
        request::RequestType, ActivateListener, AddBackend, Cluster, Header, HeaderPosition, ListenerType, LoadBalancingParams, PathRule,
        Request, RequestHttpFrontend, RulePosition, ServerConfig, SocketAddress, WorkerRequest, WorkerResponse,
    },
    scm_socket::{Listeners, ScmSocket},
    state::ConfigState,
};
use sozu_lib::server::Server;
use verif_harness::*;

#[path = "../recbb.rs"]
mod recbb;
#[allow(dead_code)]
#[path = "../h2bb.rs"]
mod h2bb;
#[path = "../h2rec.rs"]
mod h2rec;
use h2rec::*;
use recbb::*;

// ---------------------------------------------------------------- worker
struct Worker {
    channel: Channel<WorkerRequest, WorkerResponse>,
    n: usize,
}
impl Worker {
    fn send(&mut self, r: RequestType) {
        self.n += 1;
        self.channel
            .write_message(&WorkerRequest { id: format!("ID-{}", self.n), content: Request { request_type: Some(r) } })
            .expect("write to worker");
    }
    fn drain(&mut self) {
        let mut done = 0;
        while done < self.n {
            match self.channel.read_message() {
                Ok(resp) => {
                    if resp.status != 1 {
                        done += 1;
                    }
                }
                Err(e) => panic!("worker channel: {e}"),
            }
        }
    }
}

fn start_worker() -> Worker {
    let config = ConfigBuilder::new(FileConfig::default(), "").into_config().expect("config");
    let sc = ServerConfig::from(&config);
    let (mut main_ch, worker_ch): (Channel<WorkerRequest, WorkerResponse>, Channel<WorkerResponse, WorkerRequest>) =
        Channel::generate(sc.command_buffer_size, sc.max_command_buffer_size).expect("channel");
    let (s1, s2) = UnixStream::pair().unwrap();
    let scm_main = ScmSocket::new(s1.into_raw_fd()).expect("scm");
    let scm_worker = ScmSocket::new(s2.into_raw_fd()).expect("scm");
    scm_main.send_listeners(&Listeners::default()).expect("send listeners");
    std::thread::spawn(move || {
        let _ = sozu_command_lib::logging::setup_logging("file:///dev/null", false, None, None, None, "error", "WRK");
        let mut server =
            Server::try_new_from_config(worker_ch, scm_worker, sc, ConfigState::new().produce_initial_state(), false).expect("worker");
        server.run();
    });
    main_ch.blocking().expect("blocking");
    Worker { channel: main_ch, n: 0 }
}

fn free_addr() -> SocketAddr {
    SocketAddr::from(([127, 0, 0, 1], verif_harness::claim_port()))
}


fn main() {
    let _ = sozu_command_lib::logging::setup_logging("file:///dev/null", false, None, None, None, "error", "C03BB");
    let path = std::env::args().nth(1).expect("usage: c03bb <cases>");
    let cases = read_cases(&path);

    let back_l = TcpListener::bind("127.0.0.1:0").unwrap();
    let back = back_l.local_addr().unwrap();
    let rec = Arc::new(Mutex::new(Record::default()));
    {
        let rec = rec.clone();
        std::thread::spawn(move || backend(back_l, rec));
    }
    let front = free_addr();
    let mut w = start_worker();
    let fa: SocketAddress = front.into();
    let mut lc = ListenerBuilder::new_http(fa.clone()).to_http(None).expect("listener");
    lc.front_timeout = 5;
    lc.request_timeout = 3;
    lc.back_timeout = 3;
    lc.connect_timeout = 2;
    w.send(RequestType::AddHttpListener(lc));
    w.send(RequestType::ActivateListener(ActivateListener { address: fa.clone(), proxy: ListenerType::Http.into(), from_scm: false }));
    w.send(RequestType::AddCluster(Cluster { cluster_id: "c".into(), ..Default::default() }));
    for host in ["x", "example.com", "a.b"] {
        w.send(RequestType::AddHttpFrontend(RequestHttpFrontend {
            cluster_id: Some("c".into()),
            address: fa.clone(),
            hostname: host.into(),
            path: PathRule::prefix("/".to_string()),
            position: RulePosition::Tree.into(),
            ..Default::default()
        }));
    }
    w.send(RequestType::AddBackend(AddBackend {
        cluster_id: "c".into(),
        backend_id: "c-0".into(),
        address: back.into(),
        load_balancing_parameters: Some(LoadBalancingParams::default()),
        sticky_id: None,
        backup: None,
    }));
    // cluster "r" (hostname retry.x): a frontend with a request-header rule (append X-Op, rewrite nothing) and TWO
    // backends, the first of which refuses connections: a request routed to it is retried on the live one
    let dead = {
        let l = TcpListener::bind("127.0.0.1:0").unwrap();
        l.local_addr().unwrap()
    };
    w.send(RequestType::AddCluster(Cluster { cluster_id: "r".into(), ..Default::default() }));
    w.send(RequestType::AddHttpFrontend(RequestHttpFrontend {
        cluster_id: Some("r".into()),
        address: fa.clone(),
        hostname: "retry.x".into(),
        path: PathRule::prefix("/".to_string()),
        position: RulePosition::Tree.into(),
        headers: vec![
            Header { position: HeaderPosition::Request.into(), key: "X-Op".into(), val: "1".into() },
            Header { position: HeaderPosition::Request.into(), key: "X-Drop".into(), val: "".into() },
        ],
        ..Default::default()
    }));
    for (id, addr) in [("r-dead", dead), ("r-live", back)] {
        w.send(RequestType::AddBackend(AddBackend {
            cluster_id: "r".into(),
            backend_id: id.into(),
            address: addr.into(),
            load_balancing_parameters: Some(LoadBalancingParams::default()),
            sticky_id: None,
            backup: None,
        }));
    }
    // cluster "h" (hostname h2.x): an HTTP/2 (h2c, prior knowledge) RECORDING backend behind the HTTP/1.1 frontend
    let back2_l = TcpListener::bind("127.0.0.1:0").unwrap();
    let back2 = back2_l.local_addr().unwrap();
    let rec2 = Arc::new(Mutex::new(H2Record::default()));
    {
        let rec2 = rec2.clone();
        std::thread::spawn(move || h2c_recording_backend(back2_l, rec2));
    }
    w.send(RequestType::AddCluster(Cluster { cluster_id: "h".into(), http2: Some(true), ..Default::default() }));
    w.send(RequestType::AddHttpFrontend(RequestHttpFrontend {
        cluster_id: Some("h".into()),
        address: fa.clone(),
        hostname: "h2.x".into(),
        path: PathRule::prefix("/".to_string()),
        position: RulePosition::Tree.into(),
        ..Default::default()
    }));
    w.send(RequestType::AddBackend(AddBackend {
        cluster_id: "h".into(),
        backend_id: "h-0".into(),
        address: back2.into(),
        load_balancing_parameters: Some(LoadBalancingParams::default()),
        sticky_id: None,
        backup: None,
    }));
    w.drain();

    let mut outw: Box<dyn Write> = match std::env::var_os("VERIF_OUT") {
        Some(p) => Box::new(std::io::BufWriter::new(std::fs::File::create(p).expect("create $VERIF_OUT"))),
        None => Box::new(std::io::stdout()),
    };
    for case in &cases {
        let mut out = Out::default();
        let mut cuts: Vec<usize> = vec![];
        for op in &case.ops {
            match op.name.as_str() {
                "cuts" => {
                    cuts = op.args.iter().map(|t| t.n() as usize).collect();
                    out.obs(&[]);
                }
                "raw" => {
                    let raw = op.args[0].b().to_vec();
                    new_case(&rec);
                    new_case_h2(&rec2);
                    let (answers, statuses) = drive_client(front, &raw, &cuts);
                    // give the backend threads the time to record the tail
                    std::thread::sleep(Duration::from_millis(30));
                    let mut r = take_case(&rec);
                    let r2 = take_case_h2(&rec2);
                    let answered_by_h2 = r2.complete;
                    out.obs(&[ts("seen"), tn(r.requests.len()), ts("answers"), tn(answers), ts("h2seen"), tn(r2.streams.len()), ts("h2complete"), tn(r2.complete)]);
                    r.early += answered_by_h2; // answers that came from the h2c backend
                    judge(&r, front, &statuses, &mut out);
                    judge_boundaries(&r, &raw, &mut out);
                    judge_h2(&r2, &raw, &mut out);
                }
                // a scripted client: `x<bytes>` = send, <n> = wait n ms, `r` = wait for one complete answer
                "script" => {
                    let steps: Vec<Step> = op
                        .args
                        .iter()
                        .map(|t| match t {
                            Tok::B(b) => Step::Send(b.clone()),
                            Tok::N(n) => Step::Wait(*n as u64),
                            _ => Step::ReadOne,
                        })
                        .collect();
                    let raw: Vec<u8> = steps.iter().flat_map(|s| if let Step::Send(b) = s { b.clone() } else { vec![] }).collect();
                    new_case(&rec);
                    new_case_h2(&rec2);
                    let (answers, statuses) = run_script(front, &steps);
                    std::thread::sleep(Duration::from_millis(30));
                    let mut r = take_case(&rec);
                    let r2 = take_case_h2(&rec2);
                    let answered_by_h2 = r2.complete;
                    out.obs(&[ts("seen"), tn(r.requests.len()), ts("answers"), tn(answers), ts("early"), tn(r.early), ts("h2seen"), tn(r2.streams.len()), ts("h2complete"), tn(r2.complete)]);
                    r.early += answered_by_h2; // answers that came from the h2c backend
                    judge(&r, front, &statuses, &mut out);
                    judge_boundaries(&r, &raw, &mut out);
                    judge_h2(&r2, &raw, &mut out);
                }
                _ => out.obs(&[ts("badop")]),
            }
        }
        writeln!(outw, "case {}", case.id).unwrap();
        for l in &out.lines {
            writeln!(outw, "{l}").unwrap();
        }
        writeln!(outw, "end").unwrap();
    }
    outw.flush().unwrap();
    std::process::exit(0);
}

/// what the h2c backend behind the HTTP/1.1 frontend received: metadata / trailers / connection-specific names
/// (h2rec::judge_h2c), and the request boundaries: no more streams than requests the client sent, with their targets
fn judge_h2(r2: &H2Record, raw: &[u8], out: &mut Out) {
    if r2.streams.is_empty() && r2.blocks.is_empty() {
        return;
    }
    if std::env::var_os("VERIF_DEBUG").is_some() {
        for l in &r2.blocks {
            out.note(&format!("h2c block: {:?}", l.iter().map(|(k, v)| format!("{}={}", String::from_utf8_lossy(k), String::from_utf8_lossy(v))).collect::<Vec<_>>()));
        }
    }
    let sent = client_intent(raw);
    // (a stream is opened at the backend as soon as the head is there: only COMPLETE streams are compared with the
    // complete requests of the client)
    judge_h2c(r2, usize::MAX, b"http", out);
    if let Some(sent) = sent {
        let mut i = 0;
        for st in r2.streams.iter().filter(|x| x.3) {
            match sent[i..].iter().position(|c| c.target == st.1) {
                Some(p) => i += p + 1,
                None => {
                    out.viol("bb-boundaries", &format!("the h2c backend received a complete stream ({}) that is not one of the {} request(s) the client sent, in order", String::from_utf8_lossy(&st.1), sent.len()));
                    return;
                }
            }
        }
    }
}

enum Step {
    Send(Vec<u8>),
    Wait(u64),
    ReadOne,
}

/// Sends `raw` at the given cuts; reads answers until the connection is quiet or closed.
/// -> (number of status lines received, their codes)
fn drive_client(front: SocketAddr, raw: &[u8], cuts: &[usize]) -> (usize, Vec<u16>) {
    let mut cs: Vec<usize> = cuts.iter().copied().filter(|x| *x > 0 && *x < raw.len()).collect();
    cs.sort();
    cs.dedup();
    cs.push(raw.len());
    let mut steps = vec![];
    let mut pos = 0;
    for x in cs {
        steps.push(Step::Send(raw[pos..x].to_vec()));
        steps.push(Step::Wait(3));
        pos = x;
    }
    run_script(front, &steps)
}

/// complete answers (status line + Content-Length delimited body) at the start of `acc`
fn complete_answers(acc: &[u8]) -> usize {
    let (mut n, mut s) = (0, acc);
    while let Some(e) = s.windows(4).position(|w| w == b"\r\n\r\n") {
        let head = String::from_utf8_lossy(&s[..e]).to_ascii_lowercase();
        let cl = head.lines().find_map(|l| l.strip_prefix("content-length:").and_then(|v| v.trim().parse::<usize>().ok())).unwrap_or(0);
        if s.len() < e + 4 + cl {
            break;
        }
        n += 1;
        s = &s[e + 4 + cl..];
    }
    n
}

fn run_script(front: SocketAddr, steps: &[Step]) -> (usize, Vec<u16>) {
    let Ok(mut c) = TcpStream::connect(front) else { return (0, vec![]) };
    let _ = c.set_nodelay(true);
    let mut acc: Vec<u8> = vec![];
    let mut buf = [0u8; 8192];
    let mut wanted = 0;
    'steps: for st in steps {
        match st {
            Step::Send(b) => {
                if c.write_all(b).is_err() {
                    break;
                }
            }
            Step::Wait(ms) => std::thread::sleep(Duration::from_millis(*ms)),
            Step::ReadOne => {
                wanted += 1;
                let _ = c.set_read_timeout(Some(Duration::from_millis(100)));
                let t0 = Instant::now();
                while complete_answers(&acc) < wanted && t0.elapsed() < Duration::from_millis(2500) {
                    match c.read(&mut buf) {
                        Ok(0) => break 'steps,
                        Ok(n) => acc.extend_from_slice(&buf[..n]),
                        Err(e) if matches!(e.kind(), std::io::ErrorKind::WouldBlock | std::io::ErrorKind::TimedOut) => {}
                        Err(_) => break 'steps,
                    }
                }
            }
        }
    }
    let _ = c.set_read_timeout(Some(Duration::from_millis(250)));
    let t0 = Instant::now();
    while t0.elapsed() < Duration::from_secs(4) {
        match c.read(&mut buf) {
            Ok(0) => break,
            Ok(n) => acc.extend_from_slice(&buf[..n]),
            Err(_) => break, // quiet for 250 ms
        }
    }
    let mut codes = vec![];
    let mut i = 0;
    while let Some(p) = acc[i..].windows(9).position(|w| w == b"HTTP/1.1 ") {
        let at = i + p;
        if at == 0 || acc[at - 1] == b'\n' || acc[at - 1] == b'k' {
            if let Some(code) = acc.get(at + 9..at + 12).and_then(|b| std::str::from_utf8(b).ok()).and_then(|s| s.parse::<u16>().ok()) {
                codes.push(code);
            }
        }
        i = at + 9;
    }
    (codes.len(), codes)
}
