(** C03 — lemmas. *)
From Coq Require Import List NArith Bool Lia String.
From SV Require Import C13.Model C03.Model.
From SV Require C13.Proofs.
Import ListNotations.
Open Scope N_scope.

Ltac case_if := match goal with |- context [if ?c then _ else _] => destruct c eqn:? end.

(** a byte that can be part of a line: neither CR nor LF *)
Definition line_byte (b : N) : bool := negb (b =? 13) && negb (b =? 10).

(** No byte of a CR/LF-free string can terminate the line it is written on. *)
Lemma take_line_app v rest :
  forallb line_byte v = true -> take_line (v ++ crlf ++ rest) = Some (v, rest).
Proof.
  induction v as [|b v IH]; intros H.
  - reflexivity.
  - cbn [forallb] in H. apply andb_prop in H. destruct H as [Hb Hv].
    unfold line_byte in Hb. apply andb_prop in Hb. destruct Hb as [H13 H10].
    cbn [app take_line]. destruct (b =? 13); [discriminate|]. destruct (b =? 10); [discriminate|].
    rewrite (IH Hv). reflexivity.
Qed.

Lemma tchar_line_byte b : is_tchar b = true -> line_byte b = true.
Proof.
  unfold line_byte. intros H.
  destruct (b =? 13) eqn:E1; [apply N.eqb_eq in E1; subst; discriminate H|].
  destruct (b =? 10) eqn:E2; [apply N.eqb_eq in E2; subst; discriminate H|]. reflexivity.
Qed.

Lemma vbyte_line_byte b : is_vbyte b = true -> line_byte b = true.
Proof.
  unfold line_byte. intros H.
  destruct (b =? 13) eqn:E1; [apply N.eqb_eq in E1; subst; discriminate H|].
  destruct (b =? 10) eqn:E2; [apply N.eqb_eq in E2; subst; discriminate H|]. reflexivity.
Qed.

Lemma forallb_impl {A} (p q : A -> bool) l :
  (forall x, p x = true -> q x = true) -> forallb p l = true -> forallb q l = true.
Proof.
  intros Hpq. induction l as [|a l IH]; cbn; [reflexivity|]. intros H.
  apply andb_prop in H. destruct H as [H1 H2]. rewrite (Hpq _ H1), (IH H2). reflexivity.
Qed.

(** a well-formed field: non-empty token name, value of field-value bytes *)
Definition field_ok (h : header) : bool :=
  negb (match fst h with [] => true | _ => false end) && forallb is_tchar (fst h) && forallb is_vbyte (snd h).

Lemma span_tchar_name n r :
  forallb is_tchar n = true -> span is_tchar (n ++ 58 :: r) = (n, 58 :: r).
Proof.
  induction n as [|b n IH]; intros H.
  - reflexivity.
  - cbn [forallb] in H. apply andb_prop in H. destruct H as [Hb Hn].
    cbn [app span]. rewrite Hb, (IH Hn). reflexivity.
Qed.

Lemma ltrim_sp v : ltrim (32 :: v) = ltrim v.
Proof. reflexivity. Qed.

Lemma parse_field_line h :
  field_ok h = true ->
  parse_field (fst h ++ B ": "%string ++ snd h) = Some (fst h, trim_ows (snd h)).
Proof.
  destruct h as [n v]. unfold field_ok. cbn [fst snd]. intros H.
  apply andb_prop in H. destruct H as [H Hv]. apply andb_prop in H. destruct H as [Hne Hn].
  unfold parse_field. change (B ": "%string ++ v) with (58 :: 32 :: v).
  rewrite (span_tchar_name n (32 :: v) Hn).
  destruct n as [|b n]; [discriminate Hne|].
  cbn [forallb]. change (is_vbyte 32) with true. cbn [andb]. rewrite Hv.
  unfold trim_ows. rewrite ltrim_sp. reflexivity.
Qed.

Lemma line_of_take h rest :
  field_ok h = true ->
  take_line (line_of h ++ rest) = Some (fst h ++ B ": "%string ++ snd h, rest).
Proof.
  intros H. unfold line_of. rewrite !app_assoc_reverse.
  replace (fst h ++ B ": "%string ++ snd h ++ crlf ++ rest)
    with ((fst h ++ B ": "%string ++ snd h) ++ crlf ++ rest) by (rewrite !app_assoc_reverse; reflexivity).
  apply take_line_app.
  unfold field_ok in H. apply andb_prop in H. destruct H as [H Hv]. apply andb_prop in H. destruct H as [_ Hn].
  rewrite !forallb_app. rewrite (forallb_impl _ _ _ tchar_line_byte Hn), (forallb_impl _ _ _ vbyte_line_byte Hv).
  reflexivity.
Qed.

(** The whole header block sozu writes is read back field by field. *)
Lemma header_block_roundtrip_fuel hs rest fuel :
  (List.length hs < fuel)%nat ->
  forallb field_ok hs = true ->
  read_headers fuel (flat_map line_of hs ++ crlf ++ rest) =
  Some (map (fun h => (fst h, trim_ows (snd h))) hs, rest).
Proof.
  revert fuel. induction hs as [|h t IH]; intros fuel Hf H.
  - destruct fuel as [|f]; [inversion Hf|]. reflexivity.
  - destruct fuel as [|f]; [inversion Hf|]. cbn [List.length] in Hf.
    cbn [forallb] in H. apply andb_prop in H. destruct H as [Hh Ht].
    cbn [flat_map]. rewrite app_assoc_reverse.
    cbn [read_headers]. rewrite (line_of_take h _ Hh).
    destruct (fst h ++ B ": "%string ++ snd h) eqn:E.
    + exfalso. unfold field_ok in Hh. destruct (fst h); [discriminate Hh|discriminate E].
    + rewrite <- E. rewrite (parse_field_line h Hh). rewrite (IH f) by (try lia; assumption). reflexivity.
Qed.

Lemma header_block_roundtrip hs rest :
  forallb field_ok hs = true ->
  read_headers (S (List.length hs)) (flat_map line_of hs ++ crlf ++ rest) =
  Some (map (fun h => (fst h, trim_ows (snd h))) hs, rest).
Proof. apply header_block_roundtrip_fuel. lia. Qed.

(* ------------------------------------------------------------------ *)
(** * what [handle_header] lets through *)

Lemma not_bad_value_vbyte b : bad_value_byte b = false -> is_vbyte b = true.
Proof.
  unfold bad_value_byte, is_vbyte. intros H.
  apply orb_false_elim in H. destruct H as [H H127]. apply orb_false_elim in H. destruct H as [H8 H1031].
  apply N.leb_gt in H8. apply N.eqb_neq in H127.
  destruct (b =? 9) eqn:E9; [reflexivity|]. apply N.eqb_neq in E9. cbn [orb].
  apply andb_false_iff in H1031.
  assert (32 <= b) by (destruct H1031 as [H|H]; [apply N.leb_gt in H|apply N.leb_gt in H]; lia).
  destruct (128 <=? b) eqn:E128; [apply orb_true_r|]. apply N.leb_gt in E128.
  rewrite orb_false_r. apply andb_true_intro. split; apply N.leb_le; lia.
Qed.

Lemma bad_value_false_vbytes v : bad_value v = false -> forallb is_vbyte v = true.
Proof.
  unfold bad_value. induction v as [|b v IH]; cbn; [reflexivity|]. intros H.
  apply orb_false_elim in H. destruct H as [H1 H2]. rewrite (not_bad_value_vbyte _ H1), (IH H2). reflexivity.
Qed.

Lemma name_bytes_tchar n : has_invalid_name_byte n = false -> forallb is_tchar n = true.
Proof.
  unfold has_invalid_name_byte. induction n as [|b n IH]; cbn; [reflexivity|]. intros H.
  apply orb_false_elim in H. destruct H as [H1 H2]. apply orb_false_elim in H1. destruct H1 as [_ H1].
  apply negb_false_iff in H1. rewrite H1, (IH H2). reflexivity.
Qed.

(** a regular field that passes [classify_invalid_h2_header] is a well-formed H1 field *)
Lemma valid_regular_field_ok k v :
  invalid_h2_header k v = false -> (match k with 58 :: _ => true | _ => false end) = false ->
  field_ok (k, v) = true.
Proof.
  unfold invalid_h2_header, field_ok. cbn [fst snd]. destruct k as [|b0 k]; [discriminate|]. intros H Hc.
  apply orb_false_elim in H. destruct H as [H Hv]. apply orb_false_elim in H. destruct H as [H _].
  apply orb_false_elim in H. destruct H as [H _].
  assert (b0 =? 58 = false) as E by (destruct (b0 =? 58) eqn:E; [apply N.eqb_eq in E; subst; discriminate Hc|reflexivity]).
  rewrite E in H. cbn [negb andb] in H.
  rewrite (name_bytes_tchar _ H), (bad_value_false_vbytes _ Hv). reflexivity.
Qed.

Definition items_ok (l : list item) : bool := forallb field_ok (headers_of l).

Lemma headers_of_app' l1 l2 : headers_of (l1 ++ l2) = headers_of l1 ++ headers_of l2.
Proof. induction l1 as [|[h|] t IH]; cbn; rewrite ?IH; reflexivity. Qed.

Lemma items_ok_snoc l h : items_ok l = true -> field_ok h = true -> items_ok (l ++ [IH h]) = true.
Proof.
  unfold items_ok. intros H1 H2. rewrite headers_of_app', forallb_app, H1. cbn. rewrite H2. reflexivity.
Qed.

Lemma items_ok_cookies l : items_ok l = true -> items_ok (l ++ [ICookies]) = true.
Proof. unfold items_ok. intros H. rewrite headers_of_app', forallb_app, H. reflexivity. Qed.

(** invariant of the decode loop: every header block pushed so far is well-formed *)
Lemma step_items_ok s kv : items_ok (h_items s) = true -> items_ok (h_items (step s kv)) = true.
Proof.
  intros H. unfold step. destruct (h_invalid s); [exact H|]. destruct kv as [k v].
  destruct (invalid_h2_header k v) eqn:Ev; [exact H|].
  repeat (case_if; cbn [h_items set_invalid]; try exact H);
    try (destruct (store_pseudo _ _ _); cbn [h_items set_invalid]; exact H);
    try (destruct (h_host s); cbn [h_items]; exact H);
    try (apply items_ok_cookies; exact H);
    try (destruct (h_len s); try case_if; cbn [h_items set_invalid]; try exact H);
    apply items_ok_snoc; try exact H; apply valid_regular_field_ok; assumption.
Qed.

Lemma fold_items_ok hs s : items_ok (h_items s) = true -> items_ok (h_items (fold_left step hs s)) = true.
Proof.
  revert s. induction hs as [|kv t IH]; intros s H; [exact H|]. cbn [fold_left]. apply IH. apply step_items_ok. exact H.
Qed.

Lemma accepted_items_ok hs es a : accept_h2 hs es = Accept a -> items_ok (a_items a) = true.
Proof.
  unfold accept_h2. pose proof (fold_items_ok hs h_init eq_refl) as Hinv.
  destruct (h_path (fold_left step hs h_init)); [|discriminate].
  destruct (h_method (fold_left step hs h_init)); [|discriminate].
  destruct (h_authority (fold_left step hs h_init)); [|discriminate].
  destruct (h_scheme (fold_left step hs h_init)); [|discriminate].
  repeat (case_if; try discriminate); intros Ha; injection Ha as <-; cbn [a_items];
    unfold items_ok in *; rewrite headers_of_app', forallb_app, Hinv; reflexivity.
Qed.

(* ------------------------------------------------------------------ *)
(** * Content-Length vs DATA *)

Lemma data_agree_complete declared r evs t n :
  data_agree declared r evs = Complete t -> declared = Some n -> t = n.
Proof.
  intros H Hd. subst declared. revert r H. induction evs as [|e evs IH]; intros r H; [discriminate|].
  destruct e as [len es| |]; cbn [data_agree] in H.
  - destruct (n <? r + len); [discriminate|]. destruct es.
    + destruct (r + len =? n) eqn:E; cbn [negb] in H; [|discriminate]. injection H as <-. apply N.eqb_eq. exact E.
    + apply (IH _ H).
  - destruct (r =? n) eqn:E; cbn [negb] in H; [|discriminate]. injection H as <-. apply N.eqb_eq. exact E.
  - discriminate.
Qed.

Lemma data_agree_never_exceeds declared r evs n :
  declared = Some n -> r <= n ->
  match data_agree declared r evs with Open t | Complete t => t <= n | Reset => True end.
Proof.
  intros Hd. subst declared. revert r. induction evs as [|e evs IH]; intros r Hr; cbn [data_agree]; [exact Hr|].
  destruct e as [len es| |].
  - destruct (n <? r + len) eqn:E; [exact I|]. apply N.ltb_ge in E. destruct es.
    + destruct (r + len =? n); cbn [negb]; [exact E|exact I].
    + apply IH. exact E.
  - destruct (r =? n); cbn [negb]; [exact Hr|exact I].
  - exact I.
Qed.

(** an upload the client cancels before its END_STREAM is never complete *)
Lemma data_agree_cancelled declared r pre post :
  forallb (fun e => match e with Data _ false => true | _ => false end) pre = true ->
  data_agree declared r (pre ++ Cancel :: post) = Reset.
Proof.
  revert r. induction pre as [|e pre IH]; intros r H; [reflexivity|].
  cbn [forallb] in H. apply andb_prop in H. destruct H as [He Hp].
  destruct e as [len es| |]; try discriminate He. destruct es; [discriminate He|].
  cbn [app data_agree]. destruct declared as [n|].
  - destruct (n <? r + len); [reflexivity|]. apply IH. exact Hp.
  - apply IH. exact Hp.
Qed.

(* ------------------------------------------------------------------ *)
(** * request line: the pseudo-header values that reach it *)

Definition pseudo_ok (v : list N) : bool :=
  negb (match v with [] => true | _ => false end) && negb (bad_pseudo_value v).

Definition opt_ok (p : list N -> bool) (o : option (list N)) : bool :=
  match o with Some v => p v | None => true end.

Definition line_state_ok (s : hstate) : bool :=
  opt_ok (fun v => pseudo_ok v && forallb is_tchar v) (h_method s) &&
  opt_ok pseudo_ok (h_path s) && opt_ok pseudo_ok (h_authority s).

Lemma store_pseudo_ok d r v x : store_pseudo d r v = Some x -> x = v /\ pseudo_ok v = true.
Proof.
  unfold store_pseudo, pseudo_ok. destruct d; [discriminate|]. destruct r; [discriminate|].
  destruct v as [|b v]; [discriminate|]. destruct (bad_pseudo_value (b :: v)); [discriminate|].
  intros H. injection H as <-. split; reflexivity.
Qed.

Lemma step_line_ok s kv : line_state_ok s = true -> line_state_ok (step s kv) = true.
Proof.
  intros H. unfold step. destruct (h_invalid s); [exact H|]. destruct kv as [k v].
  destruct (invalid_h2_header k v); [exact H|].
  unfold line_state_ok in *. apply andb_prop in H. destruct H as [H Ha]. apply andb_prop in H. destruct H as [Hm Hp].
  repeat (case_if; cbn [h_method h_path h_authority set_invalid]; try (rewrite Hm, Hp, Ha; reflexivity));
    try (destruct (store_pseudo _ _ v) eqn:Es; cbn [h_method h_path h_authority set_invalid];
         [apply store_pseudo_ok in Es; destruct Es as [-> Es]; cbn [opt_ok]|]);
    try (destruct (h_host s)); try (destruct (h_len s); try case_if);
    cbn [h_method h_path h_authority set_invalid opt_ok];
    rewrite ?Hm, ?Hp, ?Ha, ?Es; cbn [andb]; try reflexivity.
  all: try match goal with H : negb (forallb is_tchar ?x) = false |- _ => apply negb_false_iff in H; rewrite H; reflexivity end.
Qed.

Lemma fold_line_ok hs s : line_state_ok s = true -> line_state_ok (fold_left step hs s) = true.
Proof.
  revert s. induction hs as [|kv t IH]; intros s H; [exact H|]. cbn [fold_left]. apply IH. apply step_line_ok. exact H.
Qed.

Lemma accepted_line_ok hs es a :
  accept_h2 hs es = Accept a ->
  pseudo_ok (a_method a) = true /\ forallb is_tchar (a_method a) = true /\
  pseudo_ok (a_path a) = true /\ pseudo_ok (a_authority a) = true.
Proof.
  unfold accept_h2. pose proof (fold_line_ok hs h_init eq_refl) as Hinv. unfold line_state_ok in Hinv.
  destruct (h_path (fold_left step hs h_init)); [|discriminate].
  destruct (h_method (fold_left step hs h_init)); [|discriminate].
  destruct (h_authority (fold_left step hs h_init)); [|discriminate].
  destruct (h_scheme (fold_left step hs h_init)); [|discriminate].
  cbn [opt_ok] in Hinv. apply andb_prop in Hinv. destruct Hinv as [Hinv Ha]. apply andb_prop in Hinv.
  destruct Hinv as [Hm Hp]. apply andb_prop in Hm. destruct Hm as [Hm1 Hm2].
  repeat (case_if; try discriminate); intros H; injection H as <-; cbn [a_method a_path a_authority];
    repeat split; assumption.
Qed.

(** a pseudo value that passed has no SP, no CTL: it cannot split the request line *)
Lemma pseudo_ok_no_sp v : pseudo_ok v = true -> forallb (fun b => (33 <=? b) && negb (b =? 127)) v = true.
Proof.
  unfold pseudo_ok, bad_pseudo_value. intros H. apply andb_prop in H. destruct H as [_ H].
  apply negb_true_iff in H. induction v as [|b v IH]; [reflexivity|]. cbn [existsb] in H. cbn [forallb].
  apply orb_false_elim in H. destruct H as [H1 H2]. apply orb_false_elim in H1. destruct H1 as [H32 H127].
  rewrite (IH H2), H127. apply N.leb_gt in H32. assert (33 <=? b = true) as -> by (apply N.leb_le; lia). reflexivity.
Qed.

Lemma ser_h1_no_cookies l : ser_h1 l false [] = headers_of l.
Proof. induction l as [|[h|] t IH]; cbn; rewrite ?IH; reflexivity. Qed.

(* ------------------------------------------------------------------ *)
(** * sozu's own HTTP/1 acceptance ([h1_guard]) *)

Definition name_ok (h : header) : bool := negb (is_nil (fst h)) && forallb is_tchar (fst h).

Lemma guard_fields_names s hs : guard_fields s hs = true -> forallb name_ok hs = true.
Proof.
  revert s. induction hs as [|[k v] t IH]; intros s H; [reflexivity|].
  cbn [guard_fields] in H. cbn [forallb]. unfold name_ok at 1. cbn [fst].
  destruct (is_nil k || negb (forallb is_tchar k)) eqn:E; [discriminate|].
  apply orb_false_elim in E. destruct E as [E1 E2]. apply negb_false_iff in E2. rewrite E1, E2. cbn [negb andb].
  repeat match type of H with context [if ?c then _ else _] => destruct c; try discriminate end; eapply IH; eassumption.
Qed.

Lemma guard_fields_te s hs :
  guard_fields s hs = true ->
  forallb (fun v => eq_nc v (B "chunked"%string)) (values_of (B "transfer-encoding"%string) hs) = true /\
  (List.length (values_of (B "transfer-encoding"%string) hs) <= (if s then 0 else 1))%nat.
Proof.
  revert s. induction hs as [|[k v] t IH]; intros s H.
  - split; [reflexivity|destruct s; cbn; lia].
  - cbn [guard_fields] in H. unfold values_of. cbn [filter fst].
    destruct (is_nil k || negb (forallb is_tchar k)); [discriminate|].
    destruct (eq_nc k (B "transfer-encoding"%string)) eqn:Ete.
    + destruct s; cbn [orb] in H; [discriminate|].
      destruct (eq_nc v (B "chunked"%string)) eqn:Ev; cbn [negb] in H; [|discriminate].
      destruct (IH true H) as [H1 H2]. cbn [map snd forallb List.length]. fold (values_of (B "transfer-encoding"%string) t).
      rewrite Ev, H1. split; [reflexivity|]. lia.
    + fold (values_of (B "transfer-encoding"%string) t).
      destruct (eq_nc k (B "content-length"%string)); [destruct (is_nil v || negb (forallb is_digit v)); [discriminate|]|];
        apply (IH s H).
Qed.

Lemma guard_fields_cl s hs :
  guard_fields s hs = true ->
  forallb (fun v => negb (is_nil v) && forallb is_digit v) (values_of (B "content-length"%string) hs) = true.
Proof.
  revert s. induction hs as [|[k v] t IH]; intros s H; [reflexivity|].
  cbn [guard_fields] in H. unfold values_of. cbn [filter fst].
  destruct (is_nil k || negb (forallb is_tchar k)); [discriminate|].
  destruct (eq_nc k (B "transfer-encoding"%string)) eqn:Ete.
  - assert (eq_nc k (B "content-length"%string) = false) as ->.
    { destruct (eq_nc k (B "content-length"%string)) eqn:E; [|reflexivity].
      rewrite (C13.Proofs.eq_nc_congr k (B "content-length"%string) _ E) in Ete. discriminate Ete. }
    fold (values_of (B "content-length"%string) t).
    destruct (s || negb (eq_nc v (B "chunked"%string))); [discriminate|]. apply (IH true H).
  - destruct (eq_nc k (B "content-length"%string)) eqn:Ecl.
    + destruct (is_nil v || negb (forallb is_digit v)) eqn:E; [discriminate|].
      apply orb_false_elim in E. destruct E as [E1 E2]. apply negb_false_iff in E2.
      cbn [map snd forallb]. fold (values_of (B "content-length"%string) t). rewrite E1, E2, (IH s H). reflexivity.
    + fold (values_of (B "content-length"%string) t). apply (IH s H).
Qed.

Lemma name_value_field_ok hs :
  forallb name_ok hs = true -> forallb (fun h => forallb is_vbyte (snd h)) hs = true ->
  forallb field_ok hs = true.
Proof.
  induction hs as [|h t IH]; [reflexivity|]. cbn [forallb]. intros H1 H2.
  apply andb_prop in H1. destruct H1 as [Hn H1]. apply andb_prop in H2. destruct H2 as [Hv H2].
  rewrite (IH H1 H2), andb_true_r. unfold field_ok. unfold name_ok, is_nil in Hn.
  apply andb_prop in Hn. destruct Hn as [Hn1 Hn2]. rewrite Hn2, Hv.
  destruct (fst h); [discriminate Hn1|reflexivity].
Qed.

(* ================================================================== *)
(** * Composition: the whole message written for an accepted list *)

Lemma forallb_app' {A} (p : A -> bool) l1 l2 : forallb p (l1 ++ l2) = forallb p l1 && forallb p l2.
Proof. apply forallb_app. Qed.

(** ** splitting the request line *)
Lemma split_on_nosep d a :
  forallb (fun b => negb (b =? d)) a = true -> split_on d a = [a].
Proof.
  induction a as [|b a IH]; intros H; [reflexivity|].
  cbn [forallb] in H. apply andb_prop in H. destruct H as [Hb Ha].
  cbn [split_on]. rewrite (IH Ha). apply negb_true_iff in Hb. rewrite Hb. reflexivity.
Qed.

Lemma split_on_app d a r :
  forallb (fun b => negb (b =? d)) a = true ->
  split_on d (a ++ d :: r) = a :: split_on d r.
Proof.
  induction a as [|b a IH]; intros H.
  - cbn [app split_on]. destruct (split_on d r) eqn:E.
    + exfalso. clear -E. destruct r as [|x r]; cbn in E; [discriminate|].
      destruct (split_on d r); [discriminate|]. destruct (x =? d); discriminate.
    + rewrite N.eqb_refl. reflexivity.
  - cbn [forallb] in H. apply andb_prop in H. destruct H as [Hb Ha].
    cbn [app split_on]. rewrite (IH Ha). apply negb_true_iff in Hb. rewrite Hb. reflexivity.
Qed.

Definition no_sp (v : list N) : bool := forallb (fun b => negb (b =? 32)) v.

Lemma target_no_sp v : forallb (fun b => (33 <=? b) && negb (b =? 127)) v = true -> no_sp v = true.
Proof.
  unfold no_sp. apply forallb_impl. intros b H. apply andb_prop in H. destruct H as [H _].
  apply N.leb_le in H. apply negb_true_iff. apply N.eqb_neq. lia.
Qed.

Lemma tchar_no_sp v : forallb is_tchar v = true -> no_sp v = true.
Proof.
  unfold no_sp. apply forallb_impl. intros b H.
  destruct (b =? 32) eqn:E; [apply N.eqb_eq in E; subst; discriminate H|reflexivity].
Qed.

Lemma target_line_byte v : forallb (fun b => (33 <=? b) && negb (b =? 127)) v = true -> forallb line_byte v = true.
Proof.
  apply forallb_impl. intros b H. apply andb_prop in H. destruct H as [H _]. apply N.leb_le in H.
  unfold line_byte. apply andb_true_intro. split; apply negb_true_iff; apply N.eqb_neq; lia.
Qed.

Lemma request_line_split m p :
  no_sp m = true -> no_sp p = true ->
  split_sp (m ++ [32] ++ p ++ B " HTTP/1.1"%string) = [m; p; B "HTTP/1.1"%string].
Proof.
  intros Hm Hp. unfold split_sp. cbn [app].
  rewrite (split_on_app 32 m _ Hm).
  change (B " HTTP/1.1"%string) with (32 :: B "HTTP/1.1"%string).
  rewrite (split_on_app 32 p _ Hp). rewrite split_on_nosep by reflexivity. reflexivity.
Qed.

(** ** OWS trimming leaves clean tokens alone *)
Lemma ltrim_id v : (match v with b :: _ => negb (is_ws b) | [] => true end) = true -> ltrim v = v.
Proof. destruct v as [|b v]; [reflexivity|]. cbn. intros H. apply negb_true_iff in H. rewrite H. reflexivity. Qed.

Lemma rtrim_no_ws v : forallb (fun b => negb (is_ws b)) v = true -> rtrim v = v.
Proof.
  induction v as [|b v IH]; [reflexivity|]. cbn [forallb rtrim]. intros H. apply andb_prop in H. destruct H as [Hb Hv].
  rewrite (IH Hv). apply negb_true_iff in Hb. destruct v; [rewrite Hb|]; reflexivity.
Qed.

Lemma trim_ows_no_ws v : forallb (fun b => negb (is_ws b)) v = true -> trim_ows v = v.
Proof.
  intros H. unfold trim_ows. rewrite ltrim_id; [apply rtrim_no_ws; exact H|].
  destruct v as [|b v]; [reflexivity|]. cbn [forallb] in H. apply andb_prop in H. apply H.
Qed.

Lemma digits_no_ws v : forallb is_digit v = true -> forallb (fun b => negb (is_ws b)) v = true.
Proof.
  apply forallb_impl. intros b H. unfold is_digit in H. apply andb_prop in H. destruct H as [H1 _]. apply N.leb_le in H1.
  unfold is_ws. apply negb_true_iff. apply orb_false_intro; apply N.eqb_neq; lia.
Qed.

Lemma target_no_ws v : forallb (fun b => (33 <=? b) && negb (b =? 127)) v = true -> forallb (fun b => negb (is_ws b)) v = true.
Proof.
  apply forallb_impl. intros b H. apply andb_prop in H. destruct H as [H _]. apply N.leb_le in H.
  unfold is_ws. apply negb_true_iff. apply orb_false_intro; apply N.eqb_neq; lia.
Qed.

(** ** [values_of] *)
Lemma values_of_app n l1 l2 : values_of n (l1 ++ l2) = values_of n l1 ++ values_of n l2.
Proof. unfold values_of. rewrite filter_app, map_app. reflexivity. Qed.

Lemma values_of_trim n l :
  values_of n (map (fun h => (fst h, trim_ows (snd h))) l) = map trim_ows (values_of n l).
Proof.
  unfold values_of. induction l as [|h t IH]; [reflexivity|]. cbn [map filter fst].
  destruct (eq_nc (fst h) n); cbn [map snd]; rewrite IH; reflexivity.
Qed.

(** ** invariant of the decode loop about framing-relevant fields *)
Definition n_host := B "host"%string.
Definition n_te := B "transfer-encoding"%string.
Definition n_cl := B "content-length"%string.

Definition cl_invb (len : option N) (l : list (list N)) : bool :=
  match len, l with
  | None, [] => true
  | Some n, [v] => negb (is_nil v) && forallb is_digit v && (dec_value 0 v =? n)
  | _, _ => false
  end.

Definition hinv_of (items : list item) (len : option N) : bool :=
  let hd := headers_of items in
  forallb field_ok hd && is_nil (values_of n_host hd) && is_nil (values_of n_te hd) &&
  cl_invb len (values_of n_cl hd).

Definition hinv (s : hstate) : bool := hinv_of (h_items s) (h_len s).

Lemma hinv_cookies items len : hinv_of (items ++ [ICookies]) len = hinv_of items len.
Proof. unfold hinv_of. rewrite headers_of_app'. cbn [headers_of]. rewrite app_nil_r. reflexivity. Qed.

Lemma conn_specific_false_te k : conn_specific k = false -> eq_nc k n_te = false.
Proof.
  unfold conn_specific. intros H. apply orb_false_elim in H. destruct H as [H _]. apply orb_false_elim in H.
  destruct H as [H _]. apply orb_false_elim in H. destruct H as [_ H]. exact H.
Qed.

Lemma invalid_false_not_te k v : invalid_h2_header k v = false -> eq_nc k n_te = false.
Proof.
  unfold invalid_h2_header. destruct k as [|b0 k]; [discriminate|]. intros H.
  apply orb_false_elim in H. destruct H as [H _]. apply orb_false_elim in H. destruct H as [H _].
  apply orb_false_elim in H. destruct H as [_ H]. apply conn_specific_false_te. exact H.
Qed.

Lemma hinv_push_other items len k v :
  hinv_of items len = true -> field_ok (k, v) = true ->
  eq_nc k n_host = false -> eq_nc k n_te = false -> eq_nc k n_cl = false ->
  hinv_of (items ++ [IH (k, v)]) len = true.
Proof.
  unfold hinv_of. intros H Hf Hh Ht Hc. rewrite headers_of_app'. cbn [headers_of].
  rewrite forallb_app', !values_of_app. unfold values_of at 2 4 6. cbn [filter fst map]. rewrite Hh, Ht, Hc.
  cbn [map]. rewrite !app_nil_r. cbn [forallb]. rewrite Hf.
  apply andb_prop in H. destruct H as [H H4]. apply andb_prop in H. destruct H as [H H3].
  apply andb_prop in H. destruct H as [H1 H2]. rewrite H1, H2, H3, H4. reflexivity.
Qed.

Lemma hinv_push_cl items k v :
  hinv_of items None = true -> field_ok (k, v) = true ->
  eq_nc k n_cl = true -> is_nil v = false -> forallb is_digit v = true ->
  hinv_of (items ++ [IH (k, v)]) (Some (dec_value 0 v)) = true.
Proof.
  unfold hinv_of. intros H Hf Hc Hn Hd. rewrite headers_of_app'. cbn [headers_of].
  assert (Hh : eq_nc k n_host = false).
  { destruct (eq_nc k n_host) eqn:E; [|reflexivity].
    rewrite (C13.Proofs.eq_nc_congr k n_host _ E) in Hc. discriminate Hc. }
  assert (Ht : eq_nc k n_te = false).
  { destruct (eq_nc k n_te) eqn:E; [|reflexivity].
    rewrite (C13.Proofs.eq_nc_congr k n_te _ E) in Hc. discriminate Hc. }
  rewrite forallb_app', !values_of_app. unfold values_of at 2 4 6. cbn [filter fst map snd]. rewrite Hh, Ht, Hc.
  cbn [map snd]. rewrite !app_nil_r. cbn [forallb]. rewrite Hf.
  apply andb_prop in H. destruct H as [H H4]. apply andb_prop in H. destruct H as [H H3].
  apply andb_prop in H. destruct H as [H1 H2]. rewrite H1, H2, H3. cbn [andb].
  unfold cl_invb in H4. destruct (values_of n_cl (headers_of items)); [|discriminate].
  cbn [app cl_invb]. rewrite Hn, Hd, N.eqb_refl. reflexivity.
Qed.

Lemma step_hinv s kv : hinv s = true -> hinv (step s kv) = true.
Proof.
  intros H. unfold step. destruct (h_invalid s); [exact H|]. destruct kv as [k v].
  destruct (invalid_h2_header k v) eqn:Ev; [exact H|].
  unfold hinv in *.
  repeat (case_if; cbn [h_items h_len set_invalid]; try exact H);
    try (destruct (store_pseudo _ _ _); cbn [h_items h_len set_invalid]; exact H);
    try (destruct (h_host s); cbn [h_items h_len]; exact H);
    try (rewrite hinv_cookies; exact H).
  - (* content-length *)
    apply orb_false_elim in Heqb7. destruct Heqb7 as [Hn Hd]. apply negb_false_iff in Hd.
    destruct (h_len s) as [m|] eqn:El.
    + destruct (negb (m =? dec_value 0 v)) eqn:Em; cbn [h_items h_len set_invalid]; [rewrite El; exact H|].
      apply negb_false_iff in Em. apply N.eqb_eq in Em. subst m. exact H.
    + cbn [h_items h_len]. apply hinv_push_cl; try assumption.
      apply valid_regular_field_ok; assumption.
  - apply hinv_push_other; try assumption.
    + apply valid_regular_field_ok; assumption.
    + apply (invalid_false_not_te k v Ev).
Qed.

Lemma fold_hinv hs s : hinv s = true -> hinv (fold_left step hs s) = true.
Proof.
  revert s. induction hs as [|kv t IH]; intros s H; [exact H|]. cbn [fold_left]. apply IH. apply step_hinv. exact H.
Qed.

(** ** the Cookie line rebuilt from the crumbs *)
Definition crumb_ok (c : header) : bool := forallb is_vbyte (fst c) && forallb is_vbyte (snd c).

Section Forall.
  Variable P : N -> bool.

  Lemma split_on_forall d s : forallb P s = true -> forallb (forallb P) (split_on d s) = true.
  Proof.
    induction s as [|b s IH]; intros H; [reflexivity|].
    cbn [forallb] in H. apply andb_prop in H. destruct H as [Hb Hs]. specialize (IH Hs).
    cbn [split_on]. destruct (split_on d s) as [|cur rest]; [reflexivity|].
    cbn [forallb] in IH. apply andb_prop in IH. destruct IH as [Hc Hr].
    destruct (b =? d); cbn [forallb]; rewrite ?Hb, ?Hc, ?Hr; reflexivity.
  Qed.

  Lemma ltrim_forall s : forallb P s = true -> forallb P (ltrim s) = true.
  Proof.
    induction s as [|b s IH]; intros H; [reflexivity|]. cbn [ltrim]. destruct (is_ws b); [|exact H].
    cbn [forallb] in H. apply andb_prop in H. apply IH, H.
  Qed.

  Lemma rtrim_forall s : forallb P s = true -> forallb P (rtrim s) = true.
  Proof.
    induction s as [|b s IH]; intros H; [reflexivity|]. cbn [forallb] in H. apply andb_prop in H. destruct H as [Hb Hs].
    cbn [rtrim]. specialize (IH Hs). destruct (rtrim s) as [|x t].
    - destruct (is_ws b); cbn [forallb]; rewrite ?Hb; reflexivity.
    - cbn [forallb] in *. rewrite Hb, IH. reflexivity.
  Qed.

  Lemma span_forall q s :
    forallb P s = true -> forallb P (fst (span q s)) = true /\ forallb P (snd (span q s)) = true.
  Proof.
    induction s as [|b s IH]; intros H; [split; reflexivity|].
    cbn [forallb] in H. apply andb_prop in H. destruct H as [Hb Hs]. destruct (IH Hs) as [H1 H2].
    cbn [span]. destruct (q b).
    - destruct (span q s) as [a r]. cbn [fst snd forallb] in *. rewrite Hb, H1, H2. split; reflexivity.
    - cbn [fst snd forallb]. rewrite Hb, Hs. split; reflexivity.
  Qed.
End Forall.

Lemma crumb_h2_ok s : forallb is_vbyte s = true -> crumb_ok (crumb_h2 s) = true.
Proof.
  intros H. unfold crumb_h2, crumb_ok.
  destruct (span_forall is_vbyte (fun b => negb (b =? 61)) s H) as [H1 H2].
  destruct (span (fun b => negb (b =? 61)) s) as [k r]. cbn [fst snd] in *.
  destruct r as [|x v]; cbn [fst snd].
  - rewrite H. reflexivity.
  - cbn [forallb] in H2. apply andb_prop in H2. destruct H2 as [_ H2]. rewrite H1, H2. reflexivity.
Qed.

Lemma crumbs_h2_ok v : forallb is_vbyte v = true -> forallb crumb_ok (crumbs_h2 v) = true.
Proof.
  intros H. unfold crumbs_h2. pose proof (split_on_forall is_vbyte 59 v H) as Hs.
  induction (split_on 59 v) as [|p ps IH]; [reflexivity|].
  cbn [forallb] in Hs. apply andb_prop in Hs. destruct Hs as [Hp Hps].
  cbn [map filter]. destruct (trim_ows p) eqn:E; [apply IH; exact Hps|].
  cbn [map forallb]. rewrite <- E. rewrite (IH Hps), andb_true_r.
  apply crumb_h2_ok. unfold trim_ows. apply rtrim_forall, ltrim_forall. exact Hp.
Qed.

Lemma join_crumbs_ok jar : forallb crumb_ok jar = true -> forallb is_vbyte (join_crumbs jar) = true.
Proof.
  induction jar as [|[k v] t IH]; intros H; [reflexivity|].
  cbn [forallb] in H. apply andb_prop in H. destruct H as [Hc Ht]. unfold crumb_ok in Hc. cbn [fst snd] in Hc.
  apply andb_prop in Hc. destruct Hc as [Hk Hv]. specialize (IH Ht).
  cbn [join_crumbs]. destruct t as [|c t'].
  - rewrite !forallb_app'. rewrite Hk, Hv. reflexivity.
  - rewrite !forallb_app'. rewrite Hk, Hv, IH. reflexivity.
Qed.

Definition jar_ok (s : hstate) : bool := forallb crumb_ok (h_jar s).

Lemma step_jar_ok s kv : jar_ok s = true -> jar_ok (step s kv) = true.
Proof.
  intros H. unfold step. destruct (h_invalid s); [exact H|]. destruct kv as [k v].
  destruct (invalid_h2_header k v) eqn:Ev; [exact H|]. unfold jar_ok in *.
  repeat (case_if; cbn [h_jar set_invalid]; try exact H);
    try (destruct (store_pseudo _ _ _); cbn [h_jar set_invalid]; exact H);
    try (destruct (h_host s); cbn [h_jar]; exact H);
    try (destruct (h_len s); try case_if; cbn [h_jar set_invalid]; exact H).
  rewrite forallb_app', H. cbn [andb]. apply crumbs_h2_ok. apply bad_value_false_vbytes.
  unfold invalid_h2_header in Ev. destruct k; [discriminate|]. apply orb_false_elim in Ev. apply Ev.
Qed.

Lemma fold_jar_ok hs s : jar_ok s = true -> jar_ok (fold_left step hs s) = true.
Proof.
  revert s. induction hs as [|kv t IH]; intros s H; [exact H|]. cbn [fold_left]. apply IH. apply step_jar_ok. exact H.
Qed.

(** the H1 serialiser's field list: the header blocks plus (at most) one Cookie line *)
Lemma ser_h1_field_ok l b jar :
  forallb field_ok (headers_of l) = true -> forallb crumb_ok jar = true ->
  forallb field_ok (ser_h1 l b jar) = true.
Proof.
  revert b jar. induction l as [|[h|] t IH]; intros b jar Hl Hj; [reflexivity| |].
  - cbn [headers_of forallb] in Hl. apply andb_prop in Hl. destruct Hl as [Hh Ht].
    cbn [ser_h1 forallb]. rewrite Hh. apply IH; assumption.
  - cbn [headers_of] in Hl. cbn [ser_h1]. destruct b; [|apply IH; [exact Hl|reflexivity]].
    cbn [forallb]. rewrite (IH false [] Hl eq_refl), andb_true_r.
    unfold field_ok. cbn [fst snd]. rewrite (join_crumbs_ok jar Hj). reflexivity.
Qed.

Lemma ser_h1_values n l b jar :
  eq_nc (B "Cookie"%string) n = false ->
  values_of n (ser_h1 l b jar) = values_of n (headers_of l).
Proof.
  intros Hn. revert b jar. induction l as [|[h|] t IH]; intros b jar; [reflexivity| |].
  - cbn [ser_h1 headers_of]. unfold values_of in *. cbn [filter]. destruct (eq_nc (fst h) n); cbn [map]; rewrite IH; reflexivity.
  - cbn [ser_h1 headers_of]. destruct b; [|apply IH].
    unfold values_of in *. cbn [filter fst]. rewrite Hn. apply IH.
Qed.

(** ** what [Accept] says about the final state of the decode loop *)
Definition framing_items (len : option N) (es : bool) : list item :=
  match len with
  | Some _ => []
  | None => if es then [IH (B "Content-Length"%string, B "0"%string)]
            else [IH (B "Transfer-Encoding"%string, B "chunked"%string)]
  end.

Lemma accept_inv hs es a :
  accept_h2 hs es = Accept a ->
  let s := fold_left step hs h_init in
  h_method s = Some (a_method a) /\ h_path s = Some (a_path a) /\ h_authority s = Some (a_authority a) /\
  a_jar a = h_jar s /\ a_items a = h_items s ++ framing_items (h_len s) es /\
  (es = true -> match h_len s with Some n => n = 0 | None => True end).
Proof.
  unfold accept_h2. cbn zeta. set (s := fold_left step hs h_init).
  destruct (h_path s) as [p|]; [|discriminate].
  destruct (h_method s) as [m|]; [|discriminate].
  destruct (h_authority s) as [au|]; [|discriminate].
  destruct (h_scheme s); [|discriminate].
  destruct (negb _); [discriminate|].
  destruct (h_invalid s); [discriminate|].
  destruct (h_host_conflict s); [discriminate|].
  destruct (match h_host s with Some h => negb (host_matches_authority h au) | None => false end); [discriminate|].
  destruct (es && match h_len s with Some n => 0 <? n | None => false end) eqn:E; [discriminate|].
  intros H. injection H as <-. cbn [a_method a_path a_authority a_jar a_items].
  repeat split; try reflexivity.
  intros ->. cbn [andb] in E. destruct (h_len s) as [n|]; [|exact I].
  apply N.ltb_ge in E. lia.
Qed.

(** ** the theorem *)
Definition trimv (h : header) : header := (fst h, trim_ows (snd h)).

Definition written_fields (a : accepted) : list header :=
  (B "Host"%string, a_authority a) :: ser_h1 (a_items a) (negb (is_nil (a_jar a))) (a_jar a).

Lemma serialize_h1_shape a rest :
  serialize_h1 a ++ rest =
  (a_method a ++ [32] ++ a_path a ++ B " HTTP/1.1"%string) ++ crlf ++
  flat_map line_of (written_fields a) ++ crlf ++ rest.
Proof.
  unfold serialize_h1, written_fields. cbn [flat_map].
  assert (E : forall x R, B "Host: "%string ++ x ++ crlf ++ R = line_of (B "Host"%string, x) ++ R).
  { intros x R. unfold line_of. cbn [fst snd]. change (B "Host: "%string) with (B "Host"%string ++ B ": "%string).
    rewrite !app_assoc_reverse. reflexivity. }
  destruct (a_jar a); cbn [is_nil negb]; rewrite !app_assoc_reverse; rewrite E; reflexivity.
Qed.

Lemma h2_head_read hs es a fuel rest :
  accept_h2 hs es = Accept a ->
  (List.length (written_fields a) < fuel)%nat ->
  let fr := match h_len (fold_left step hs h_init) with
            | Some n => FLen n
            | None => if es then FLen 0 else FChunked end in
  take_line (serialize_h1 a ++ rest) =
    Some (a_method a ++ [32] ++ a_path a ++ B " HTTP/1.1"%string,
          flat_map line_of (written_fields a) ++ crlf ++ rest) /\
  split_sp (a_method a ++ [32] ++ a_path a ++ B " HTTP/1.1"%string) = [a_method a; a_path a; B "HTTP/1.1"%string] /\
  read_headers fuel (flat_map line_of (written_fields a) ++ crlf ++ rest) =
    Some (map trimv (written_fields a), rest) /\
  values_of n_host (map trimv (written_fields a)) = [a_authority a] /\
  framing_of (map trimv (written_fields a)) = Some fr /\
  (es = true -> fr = FLen 0).
Proof.
  intros Hacc Hfuel. cbn zeta.
  destruct (accepted_line_ok hs es a Hacc) as (Hm & Hmt & Hp & Hau).
  pose proof (pseudo_ok_no_sp _ Hp) as Hp'. pose proof (pseudo_ok_no_sp _ Hau) as Hau'.
  destruct (accept_inv hs es a Hacc) as (_ & _ & _ & Hjar & Hitems & Hes).
  set (s := fold_left step hs h_init) in *.
  pose proof (fold_hinv hs h_init eq_refl) as Hinv. fold s in Hinv.
  pose proof (fold_jar_ok hs h_init eq_refl) as Hjok. fold s in Hjok. unfold jar_ok in Hjok.
  unfold hinv, hinv_of in Hinv.
  apply andb_prop in Hinv. destruct Hinv as [Hinv Hcl]. apply andb_prop in Hinv. destruct Hinv as [Hinv Hte].
  apply andb_prop in Hinv. destruct Hinv as [Hfok Hhost].
  (* every written field is well-formed *)
  assert (Hfr_ok : forallb field_ok (headers_of (framing_items (h_len s) es)) = true).
  { unfold framing_items. destruct (h_len s); [reflexivity|]. destruct es; reflexivity. }
  assert (Hall : forallb field_ok (written_fields a) = true).
  { unfold written_fields. cbn [forallb]. apply andb_true_intro. split.
    - unfold field_ok. cbn [fst snd]. apply andb_true_intro. split; [reflexivity|].
      revert Hau'. apply forallb_impl. intros b Hb. apply andb_prop in Hb. destruct Hb as [H1 H2].
      apply N.leb_le in H1. apply negb_true_iff in H2. apply N.eqb_neq in H2. unfold is_vbyte.
      destruct (b =? 9) eqn:E9; [reflexivity|]. cbn [orb].
      destruct (128 <=? b) eqn:E; [apply orb_true_r|]. apply N.leb_gt in E. rewrite orb_false_r.
      apply andb_true_intro. split; apply N.leb_le; lia.
    - apply ser_h1_field_ok; [|rewrite Hjar; exact Hjok].
      rewrite Hitems, headers_of_app', forallb_app', Hfok, Hfr_ok. reflexivity. }
  split; [|split; [|split; [|split; [|split]]]].
  - rewrite serialize_h1_shape. apply take_line_app.
    rewrite !forallb_app'. rewrite (forallb_impl _ _ _ tchar_line_byte Hmt), (target_line_byte _ Hp'). reflexivity.
  - apply request_line_split; [apply tchar_no_sp; exact Hmt|apply target_no_sp; exact Hp'].
  - apply header_block_roundtrip_fuel; assumption.
  - unfold written_fields. cbn [map]. unfold values_of at 1. cbn [filter fst trimv].
    change (eq_nc (B "Host"%string) n_host) with true. cbn [map snd].
    fold (values_of n_host (map trimv (ser_h1 (a_items a) (negb (is_nil (a_jar a))) (a_jar a)))).
    unfold trimv. rewrite values_of_trim, ser_h1_values by reflexivity.
    rewrite Hitems, headers_of_app', values_of_app.
    destruct (values_of n_host (headers_of (h_items s))); [|discriminate Hhost].
    assert (values_of n_host (headers_of (framing_items (h_len s) es)) = []) as ->.
    { unfold framing_items. destruct (h_len s); [reflexivity|]. destruct es; reflexivity. }
    cbn [app map fst snd]. rewrite (trim_ows_no_ws _ (target_no_ws _ Hau')). reflexivity.
  - unfold framing_of.
    assert (Hv : forall n, eq_nc (B "Host"%string) n = false -> eq_nc (B "Cookie"%string) n = false ->
                 values_of n (map trimv (written_fields a)) =
                 map trim_ows (values_of n (headers_of (h_items s)) ++ values_of n (headers_of (framing_items (h_len s) es)))).
    { intros n H1 H2. unfold written_fields. cbn [map]. unfold values_of at 1. cbn [filter fst trimv]. rewrite H1.
      fold (values_of n (map trimv (ser_h1 (a_items a) (negb (is_nil (a_jar a))) (a_jar a)))).
      unfold trimv. rewrite values_of_trim, ser_h1_values by exact H2.
      rewrite Hitems, headers_of_app', values_of_app. reflexivity. }
    rewrite (Hv (B "content-length"%string) eq_refl eq_refl), (Hv (B "transfer-encoding"%string) eq_refl eq_refl).
    fold n_cl n_te.
    destruct (values_of n_te (headers_of (h_items s))); [|discriminate Hte].
    unfold framing_items. destruct (h_len s) as [n|].
    + cbn [headers_of]. change (values_of n_te []) with (@nil (list N)). change (values_of n_cl []) with (@nil (list N)).
      rewrite !app_nil_r. cbn [app].
      unfold cl_invb in Hcl. destruct (values_of n_cl (headers_of (h_items s))) as [|v [|]]; try discriminate Hcl.
      apply andb_prop in Hcl. destruct Hcl as [Hcl Hn]. apply andb_prop in Hcl. destruct Hcl as [Hne Hd].
      apply N.eqb_eq in Hn. cbn [map]. rewrite (trim_ows_no_ws _ (digits_no_ws _ Hd)).
      cbn [forallb all_same]. rewrite Hd, andb_true_r. destruct v; [discriminate Hne|]. cbn [negb andb]. rewrite Hn. reflexivity.
    + destruct (values_of n_cl (headers_of (h_items s))); [|discriminate Hcl].
      destruct es; reflexivity.
  - intros ->. specialize (Hes eq_refl). destruct (h_len s); [subst; reflexivity|reflexivity].
Qed.

Lemma h2_to_h1_read_request hs es a fuel rest :
  accept_h2 hs es = Accept a ->
  (List.length (written_fields a) < fuel)%nat ->
  exists fr,
    (es = true -> fr = FLen 0) /\
    read_request fuel (serialize_h1 a ++ rest) =
    match fr with
    | FLen n =>
      match (if N.of_nat (List.length rest) <? n then None else take_n (N.to_nat n) rest) with
      | Some (b, r2) => Some (mkreq (a_method a) (a_path a) (a_authority a) (map trimv (written_fields a)) b [], r2)
      | None => None
      end
    | FChunked =>
      match read_chunks fuel rest with
      | Some (b, ts, r2) => Some (mkreq (a_method a) (a_path a) (a_authority a) (map trimv (written_fields a)) b ts, r2)
      | None => None
      end
    end.
Proof.
  intros Hacc Hfuel.
  destruct (h2_head_read hs es a fuel rest Hacc Hfuel) as (H1 & H2 & H3 & H4 & H5 & H6).
  destruct (accepted_line_ok hs es a Hacc) as (Hm & Hmt & Hp & _).
  eexists. split; [exact H6|].
  unfold read_request. rewrite H1, H2.
  assert (Hc : negb (match a_method a with [] => true | _ => false end) && forallb is_tchar (a_method a) &&
               negb (match a_path a with [] => true | _ => false end) && forallb is_target_byte (a_path a) &&
               (beq (B "HTTP/1.1"%string) (B "HTTP/1.1"%string) || beq (B "HTTP/1.1"%string) (B "HTTP/1.0"%string)) = true).
  { unfold pseudo_ok in Hm, Hp. apply andb_prop in Hm. destruct Hm as [Hm1 _].
    pose proof (pseudo_ok_no_sp _ Hp) as Hp2. apply andb_prop in Hp. destruct Hp as [Hp1 _].
    rewrite Hm1, Hmt, Hp1. cbn [andb]. unfold is_target_byte. rewrite Hp2. reflexivity. }
  rewrite Hc. rewrite H3. change (B "host"%string) with n_host. rewrite H4, H5.
  destruct (match h_len (fold_left step hs h_init) with Some n => FLen n | None => if es then FLen 0 else FChunked end);
    reflexivity.
Qed.
