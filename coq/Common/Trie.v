(** Model of [lib/src/router/pattern_trie.rs] ([TrieNode<V>]), generic in the
    value type.  Shared by C04 (values = path-rule lists) and C17 (values =
    certificate fingerprints).

    Representation.  Keys are byte lists.  [children] (a [HashMap] in Rust) is
    an association list with unique keys (iteration order of the map is never
    observable through the functions modelled here); [regexps] keeps the
    [Vec] order.  A compiled regex is represented by its source string (the
    code itself identifies regexes by [as_str()]); whether a source compiles
    and whether it matches a segment are the two oracles [re_ok] / [re_match]
    (Section variables: every theorem is quantified over them).

    Each Rust function recurses on [partial_key], cutting one segment off its
    right end per level.  The model separates the two things a level does:
    [ksteps] cuts the key (same order of tests as the code: empty, "*",
    trailing '/', last '.'), and a walker ([insert_w], [remove_w], [get_w],
    [lookup_w]) does what the code does to the node for that segment.
    [str::from_utf8] on a segment cut at ASCII delimiters out of a valid UTF-8
    key cannot fail and is not modelled. *)
From Coq Require Import List Arith NArith Bool Lia.
Import ListNotations.

Definition bytes := list N.

Definition DOT : N := 46%N.
Definition SLASH : N := 47%N.
Definition STAR : N := 42%N.

Fixpoint beq (a b : bytes) : bool :=
  match a, b with
  | [], [] => true
  | x :: a', y :: b' => N.eqb x y && beq a' b'
  | _, _ => false
  end.

Definition is_nil {A} (l : list A) : bool := match l with [] => true | _ => false end.
Definition is_some {A} (o : option A) : bool := match o with Some _ => true | None => false end.

(** [split_last c l = Some (p, s)]: [l = p ++ s], [s] starts with the last
    occurrence of [c] in [l].  ([find_last_dot] / [find_last_slash] + the two
    slices taken at that position.) *)
Fixpoint split_last (c : N) (l : bytes) : option (bytes * bytes) :=
  match l with
  | [] => None
  | x :: r =>
    match split_last c r with
    | Some (p, s) => Some (x :: p, s)
    | None => if N.eqb x c then Some ([], x :: r) else None
    end
  end.

Definition last_byte (l : bytes) : N := last l 0%N.

(** ["\\A" ++ s ++ "\\z"] *)
Definition anchored (s : bytes) : bytes := [92; 65]%N ++ s ++ [92; 122]%N.

(** association lists keyed by byte strings *)
Section Assoc.
  Context {A : Type}.
  Fixpoint aget (k : bytes) (l : list (bytes * A)) : option A :=
    match l with
    | [] => None
    | (k', a) :: r => if beq k k' then Some a else aget k r
    end.
  (** replace the first binding of [k] (no-op when absent) *)
  Fixpoint aset (k : bytes) (a : A) (l : list (bytes * A)) : list (bytes * A) :=
    match l with
    | [] => []
    | (k', a') :: r => if beq k k' then (k', a) :: r else (k', a') :: aset k a r
    end.
  Fixpoint adel (k : bytes) (l : list (bytes * A)) : list (bytes * A) :=
    match l with
    | [] => []
    | (k', a') :: r => if beq k k' then adel k r else (k', a') :: adel k r
    end.
End Assoc.

(** One level of the key recursion. *)
Inductive kstep :=
| KStar                                (* partial_key == "*" *)
| KBad                                 (* trailing '/' without a well-formed /regex/ segment *)
| KRe (src : bytes) (pos0 : bool)      (* trailing /regex/ segment; [pos0]: it is the leftmost one *)
| KLab (s : bytes) (final : bool).     (* literal segment (with its leading '.'); [final]: no '.' left *)

Fixpoint ksteps_f (fuel : nat) (pk : bytes) : list kstep :=
  match fuel with
  | O => []
  | S f =>
    match pk with
    | [] => []
    | _ =>
      if beq pk [STAR] then [KStar]
      else if N.eqb (last_byte pk) SLASH then
        match split_last SLASH (removelast pk) with
        | None => [KBad]
        | Some (p, s) =>
          if negb (is_nil p) && negb (N.eqb (last_byte p) DOT) then [KBad]
          else KRe (anchored (tl s)) (is_nil p) :: (if is_nil p then [] else ksteps_f f (removelast p))
        end
      else
        match split_last DOT pk with
        | None => [KLab pk true]
        | Some (p, s) => KLab s false :: ksteps_f f p
        end
    end
  end.

Definition ksteps (pk : bytes) : list kstep := ksteps_f (S (length pk)) pk.

(** Segments as the immutable [lookup] cuts them (it knows neither "*" nor
    regex syntax in the probe): suffix from the last '.', right to left. *)
Fixpoint lsegs_f (fuel : nat) (pk : bytes) : list bytes :=
  match fuel with
  | O => []
  | S f =>
    match pk with
    | [] => []
    | _ => match split_last DOT pk with
           | None => [pk]
           | Some (p, s) => s :: lsegs_f f p
           end
    end
  end.
Definition lsegs (pk : bytes) : list bytes := lsegs_f (S (length pk)) pk.

(** the segment handed to a regex: the leading '.' is dropped *)
Definition seg_body (s : bytes) : bytes :=
  match s with c :: r => if N.eqb c DOT then r else s | [] => s end.

Section Trie.
  Variable V : Type.
  Variable re_ok : bytes -> bool.
  Variable re_match : bytes -> bytes -> bool.

  Inductive trie :=
  | Node (kv : option (bytes * V)) (wild : option (bytes * V))
         (children : list (bytes * trie)) (regexps : list (bytes * trie)).

  Definition t_kv (t : trie) := let '(Node kv _ _ _) := t in kv.
  Definition t_wild (t : trie) := let '(Node _ w _ _) := t in w.
  Definition t_children (t : trie) := let '(Node _ _ c _) := t in c.
  Definition t_regexps (t : trie) := let '(Node _ _ _ r) := t in r.

  Definition root : trie := Node None None [] [].
  Definition leaf (key : bytes) (v : V) : trie := Node (Some (key, v)) None [] [].

  (** [TrieNode::is_empty] *)
  Definition t_is_empty (t : trie) : bool :=
    negb (is_some (t_kv t)) && negb (is_some (t_wild t)) && is_nil (t_regexps t) && is_nil (t_children t).

  Inductive ires := IOk | IExisting | IFailed.
  Definition ires_ok (r : ires) : bool := match r with IOk => true | _ => false end.

  (** [insert_recursive]; an empty [partial_key] (empty label) is [Failed]. *)
  Fixpoint insert_w (t : trie) (steps : list kstep) (key : bytes) (v : V) : trie * ires :=
    let '(Node kv w ch rx) := t in
    match steps with
    | [] => (t, IFailed)
    | KBad :: _ => (t, IFailed)
    | KStar :: _ =>
      if is_some (aget [STAR] ch) then (t, IExisting)
      else if is_some w then (t, IExisting)
      else (Node kv (Some (key, v)) ch rx, IOk)
    | KRe src pos0 :: rest =>
      match aget src rx with
      | Some sub =>
        if pos0 then
          (* the node may have been created by a deeper host and hold no value yet *)
          if is_some (t_kv sub) then (t, IExisting)
          else (Node kv w ch (aset src (Node (Some (key, v)) (t_wild sub) (t_children sub) (t_regexps sub)) rx), IOk)
        else let '(sub', r) := insert_w sub rest key v in
             (Node kv w ch (aset src sub' rx), r)
      | None =>
        if re_ok src then
          if pos0 then (Node kv w ch (rx ++ [(src, leaf key v)]), IOk)
          else let '(sub', r) := insert_w root rest key v in
               if ires_ok r then (Node kv w ch (rx ++ [(src, sub')]), IOk) else (t, r)
        else (t, IFailed)
      end
    | KLab s true :: _ =>
      if is_some (aget s ch) then (t, IExisting)
      else (Node kv w (ch ++ [(s, leaf key v)]) rx, IOk)
    | KLab s false :: rest =>
      match aget s ch with
      | Some child =>
        let '(c', r) := insert_w child rest key v in
        (Node kv w (aset s c' ch) rx, r)
      | None =>
        let '(c', r) := insert_w root rest key v in
        if ires_ok r then (Node kv w (ch ++ [(s, c')]) rx, IOk) else (t, r)
      end
    end.

  (** [TrieNode::insert]: the early [Failed] returns, then the recursion; a
      [Failed] recursion has not touched the trie. *)
  Definition insert (t : trie) (key : bytes) (v : V) : trie * ires :=
    if is_nil key then (t, IFailed)
    else if beq key [DOT] then (t, IFailed)
    else match insert_w t (ksteps key) key v with
         | (t', IFailed) => (t, IFailed)
         | r => r
         end.

  (** [remove_recursive]; [true] = [RemoveResult::Ok]. *)
  Fixpoint rx_remove (f : trie -> trie * bool) (src : bytes) (rx : list (bytes * trie))
    : list (bytes * trie) * bool :=
    match rx with
    | [] => ([], false)
    | (s, sub) :: r =>
      let '(r', b) := rx_remove f src r in
      if beq s src then let '(sub', b1) := f sub in ((s, sub') :: r', b1 || b)
      else ((s, sub) :: r', b)
    end.

  Definition clear_kv (t : trie) : trie * bool :=
    let '(Node kv w ch rx) := t in
    if is_some kv then (Node None w ch rx, true) else (t, false).

  (** [regexps.retain(|(r, node)| r != src || !node.is_empty())] *)
  Definition rx_prune (src : bytes) (rx : list (bytes * trie)) : list (bytes * trie) :=
    filter (fun p => negb (beq (fst p) src) || negb (t_is_empty (snd p))) rx.

  Fixpoint remove_w (t : trie) (steps : list kstep) : trie * bool :=
    let '(Node kv w ch rx) := t in
    match steps with
    | [] => if is_some kv then (Node None w ch rx, true) else (t, false)
    | KStar :: _ => if is_some w then (Node kv None ch rx, true) else (t, false)
    | KBad :: _ => (t, false)
    | KRe src pos0 :: rest =>
      (* pos0: drop this host's own value in the regex node; else recurse.
         Either way a regex subtree emptied by the removal is pruned. *)
      let '(rx', b) := rx_remove (fun sub => if pos0 then clear_kv sub else remove_w sub rest) src rx in
      if b then (Node kv w ch (rx_prune src rx'), true) else (t, false)
    | KLab s _ :: rest =>
      match aget s ch with
      | None => (t, false)
      | Some child =>
        let '(c', b) := remove_w child rest in
        if b then
          if t_is_empty c' then (Node kv w (adel s ch) rx, true)
          else (Node kv w (aset s c' ch) rx, true)
        else (t, false)
      end
    end.

  Definition remove (t : trie) (key : bytes) : trie * bool := remove_w t (ksteps key).

  (** [lookup] / [lookup_with_path] (the trace is not modelled): the literal
      child first, then the wild-card, then the regexes in order; a branch that
      yields nothing for the rest of the name falls through to the next one. *)
  Fixpoint lookup_w (t : trie) (segs : list bytes) (aw : bool) : option (bytes * V) :=
    match segs with
    | [] => t_kv t
    | s :: rest =>
      let lit := match aget s (t_children t) with
                 | Some child => lookup_w child rest aw
                 | None => None
                 end in
      match lit with
      | Some x => Some x
      | None =>
        if is_nil rest && is_some (t_wild t) && aw then t_wild t
        else
          (fix try_rx (rx : list (bytes * trie)) : option (bytes * V) :=
             match rx with
             | [] => None
             | (src, sub) :: r =>
               if re_match src (seg_body s) then
                 match lookup_w sub rest aw with
                 | Some x => Some x
                 | None => try_rx r
                 end
               else try_rx r
             end) (t_regexps t)
      end
    end.

  Definition lookup (t : trie) (key : bytes) (aw : bool) : option (bytes * V) :=
    lookup_w t (lsegs key) aw.

  (** [lookup_mut]: returns the binding found and the trie in which the value
      at that place has been replaced by [f] of it (the caller mutates through
      the returned reference). *)
  Fixpoint access_w (t : trie) (steps : list kstep) (aw : bool) (f : V -> V)
    : option (bytes * V) * trie :=
    let '(Node kv w ch rx) := t in
    match steps with
    | [] =>
      match kv with
      | Some (k, v) => (Some (k, v), Node (Some (k, f v)) w ch rx)
      | None => (None, t)
      end
    | KStar :: _ =>
      match w with
      | Some (k, v) => (Some (k, v), Node kv (Some (k, f v)) ch rx)
      | None => (None, t)
      end
    | KBad :: _ => (None, t)
    | KRe src pos0 :: rest =>
      match aget src rx with
      | Some sub =>
        let '(o, sub') := access_w sub rest aw f in
        (o, Node kv w ch (aset src sub' rx))
      | None => (None, t)
      end
    | KLab s _ :: rest =>
      match aget s ch with
      | Some child =>
        let '(o, c') := access_w child rest aw f in
        (o, Node kv w (aset s c' ch) rx)
      | None =>
        if is_nil rest && is_some w && aw then
          match w with
          | Some (k, v) => (Some (k, v), Node kv (Some (k, f v)) ch rx)
          | None => (None, t)
          end
        else
          (* regex fall-back on the literal segment; first match only *)
          (fix go (pre post : list (bytes * trie)) : option (bytes * V) * trie :=
             match post with
             | [] => (None, t)
             | (src, sub) :: r =>
               if re_match src (seg_body s) then
                 let '(o, sub') := access_w sub rest aw f in
                 (o, Node kv w ch (pre ++ (src, sub') :: r))
               else go (pre ++ [(src, sub)]) r
             end) [] rx
      end
    end.

  Definition lookup_mut (t : trie) (key : bytes) (aw : bool) : option (bytes * V) :=
    fst (access_w t (ksteps key) aw (fun v => v)).
  Definition modify_mut (t : trie) (key : bytes) (aw : bool) (f : V -> V) : trie :=
    snd (access_w t (ksteps key) aw f).

End Trie.

Arguments Node {V}.
Arguments root {V}.
Arguments leaf {V}.
Arguments insert {V}.
Arguments remove {V}.
Arguments lookup {V}.
Arguments lookup_mut {V}.
Arguments modify_mut {V}.
Arguments insert_w {V}.
Arguments remove_w {V}.
Arguments lookup_w {V}.
Arguments access_w {V}.
Arguments t_kv {V}.
Arguments t_wild {V}.
Arguments t_children {V}.
Arguments t_regexps {V}.
Arguments t_is_empty {V}.
