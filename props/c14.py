"""C14 — sozu respects every HTTP/2 peer limit and keeps transfers moving."""
import os, re
import vlib
from vlib import Case

ID = "C14"
COQ_DIRS = ["Common", "C14"]
COQ_TARGETS = ["C14/Props.vo", "C14/Run.vo"]
PROPS_MODULES = ["C14.Props"]
RUN_MODULE = "C14.Run"
RUN_FN = "run_case"
HARNESS_BIN = "c14"
HARNESS_BINS = ["c14"]
SHRINK_KEEP = ("cnew",)
CLAIMED = True

MUX = os.path.join(vlib.REPO, "lib/src/protocol/mux")

H2_CONSTS = ["DEFAULT_MAX_CONCURRENT_STREAMS", "DEFAULT_INITIAL_WINDOW_SIZE", "DEFAULT_MAX_FRAME_SIZE",
             "MIN_MAX_FRAME_SIZE", "MAX_MAX_FRAME_SIZE", "FLOW_CONTROL_MAX_WINDOW", "STREAM_ID_MAX"]


def _num(s):
    s = s.split("//")[0].strip().replace("_", "")
    m = re.fullmatch(r"\(?\s*\(?(\d+)\s*<<\s*(\d+)\)?\s*(?:-\s*(\d+))?\s*\)?", s)
    if m:
        return (int(m.group(1)) << int(m.group(2))) - int(m.group(3) or 0)
    return int(s, 0)


# The flow-control facts of h2.rs / converter.rs / stream.rs / mod.rs the model rests on and the in-process
# correspondence cannot reach (they live inside ConnectionH2).  Each is (file, function, [alternative patterns],
# message); patterns are matched on the NORMAL FORM of the function (tools/rsfacts.py: comments and layout gone,
# named constants and constant arithmetic replaced by their value, immutable `let` bindings inlined, logging and
# debug assertions dropped), in the function or one level of same-file helpers it calls.  `$x` stands for any
# identifier (a local, a private field or helper name), `...` for a short run of tokens.
WIN = "* $_ ... . window"          # the stream send window reached through the stream's parts
FACTS = [
    ("h2", "write_streams",
     ["$c . window = min ( * ... . window , self . flow_control . window ) ;",
      "$c . window = min ( self . flow_control . window , * ... . window ) ;",
      "$c . window = ( * ... . window ) . min ( self . flow_control . window ) ;"],
     "write_streams no longer budgets DATA with min(stream window, connection window)"),
    ("h2", "write_streams",
     ["$consumed = min ( ...{60} ) - $c . window ; * ...{30} . window = ...{30} . window . saturating_sub ( $consumed ) ; "
      "self . flow_control . window = self . flow_control . window . saturating_sub ( $consumed ) ;",
      "$consumed = min ( ...{60} ) - $c . window ; self . flow_control . window = self . flow_control . window . saturating_sub ( $consumed ) ; "
      "* ...{30} . window = ...{30} . window . saturating_sub ( $consumed ) ;"],
     "write_streams no longer subtracts the consumed bytes from both the stream and the connection window"),
    ("h2", "write_streams",
     ["max_frame_size : self . peer_settings . settings_max_frame_size as usize"],
     "write_streams no longer hands the peer's SETTINGS_MAX_FRAME_SIZE to the converter"),
    ("h2", "handle_window_update_frame",
     ["if $w . increment == 0 { if $w . stream_id == 0 { return self . goaway ( H2Error :: ProtocolError ) ;",
      "if 0 == $w . increment { if $w . stream_id == 0 { return self . goaway ( H2Error :: ProtocolError ) ;"],
     "handle_window_update_frame: zero increment on stream 0 is no longer GOAWAY(PROTOCOL_ERROR)"),
    ("h2", "handle_window_update_frame",
     ["self . flow_control . window . checked_add ( i32 :: try_from ( $w . increment ) . unwrap_or ( 2147483647 ) )"],
     "handle_window_update_frame no longer uses checked_add on the connection window"),
    ("h2", "handle_window_update_frame",
     ["$sw . checked_add ( i32 :: try_from ( $w . increment ) . unwrap_or ( 2147483647 ) ) ...{40} * $sw =",
      "backend_window ...{30} . checked_add ( i32 :: try_from ( $w . increment ) . unwrap_or ( 2147483647 ) )"],
     "handle_window_update_frame no longer uses checked_add on the stream window"),
    ("h2", "handle_window_update_frame",
     ["self . flow_control . window . checked_add ( ...{20} ) { ...{40} } else { return self . goaway ( H2Error :: FlowControlError ) ; }",
      "self . flow_control . window . checked_add ( ...{20} ) ...{12} None => ...{4} return self . goaway ( H2Error :: FlowControlError )"],
     "handle_window_update_frame: connection window overflow is no longer GOAWAY(FLOW_CONTROL_ERROR)"),
    ("h2", "handle_window_update_frame",
     ["if self . flow_control . window <= 0 && $n > 0 { self . readiness . arm_writable ( ) ; }",
      "if $n > 0 && self . flow_control . window <= 0 { self . readiness . arm_writable ( ) ; }"],
     "handle_window_update_frame no longer arms WRITABLE when the connection window becomes positive"),
    ("h2", "handle_window_update_frame",
     ["if * $sw <= 0 && $n > 0 { self . readiness . arm_writable ( ) ; }",
      "if $n > 0 && * $sw <= 0 { self . readiness . arm_writable ( ) ; }"],
     "handle_window_update_frame no longer arms WRITABLE when a stream window becomes positive"),
    ("h2", "handle_window_update_frame",
     ["$sw = if self . position . is_client ( ) { & mut ...{12} . backend_window } else { & mut ...{12} . window } ;",
      "$sw = match self . position { Position :: Client ( .. ) => & mut ...{12} . backend_window , Position :: Server => & mut ...{12} . window"],
     "handle_window_update_frame no longer picks the window of its own direction"),
    ("h2", "update_initial_window_size",
     ["if $v > 2147483647 { return true ; }", "if 2147483647 < $v { return true ; }", "if $v >= 2147483648 { return true ; }"],
     "update_initial_window_size no longer rejects values above 2^31-1"),
    ("h2", "update_initial_window_size",
     ["match $sw . checked_add ( ...{40} ) { Some ( $nw ) => { $open |= * $sw <= 0 && $nw > 0 ; * $sw = $nw ; }",
      "if let Some ( $nw ) = $sw . checked_add ( ...{40} ) { $open |= * $sw <= 0 && $nw > 0 ; * $sw = $nw ; }"],
     "update_initial_window_size no longer applies the delta with checked_add to every stream"),
    ("h2", "update_initial_window_size",
     ["$sw . checked_add ( ...{40} ) { ...{40} None => return true", "$sw . checked_add ( ...{40} ) { ...{40} } else { return true"],
     "update_initial_window_size no longer reports a stream-window overflow as an error"),
    ("h2", "update_initial_window_size",
     ["if $open { self . readiness . arm_writable ( ) ; }"],
     "update_initial_window_size no longer arms WRITABLE when a SETTINGS change re-opens a stream window"),
    ("h2", "handle_settings_frame",
     ["if self . {update_initial_window_size} ( ...{8} ) { ...{8} return self . goaway ( H2Error :: FlowControlError ) ;"],
     "handle_settings_frame: an invalid SETTINGS_INITIAL_WINDOW_SIZE is no longer GOAWAY(FLOW_CONTROL_ERROR)"),
    ("h2", "handle_settings_frame",
     ["! ( 16384 .. 16777216 ) . contains ( & $s . value )", "! ( 16384 ..= 16777215 ) . contains ( & $s . value )",
      "$s . value < 16384 || $s . value >= 16777216", "$s . value < 16384 || $s . value > 16777215"],
     "handle_settings_frame no longer validates SETTINGS_MAX_FRAME_SIZE against [2^14, 2^24-1]"),
    ("h2", "handle_settings_frame",
     ["SETTINGS_MAX_CONCURRENT_STREAMS => { self . peer_settings . settings_max_concurrent_streams = $s . value ;"],
     "handle_settings_frame no longer stores the peer's MAX_CONCURRENT_STREAMS as announced"),
    ("h2", "start_stream",
     ["if self . streams . len ( ) >= self . peer_settings . settings_max_concurrent_streams as usize {",
      "if self . peer_settings . settings_max_concurrent_streams as usize <= self . streams . len ( ) {"],
     "start_stream no longer tests the peer's MAX_CONCURRENT_STREAMS"),
    ("h2", "start_stream",
     ["* ...{14} . window = i32 :: try_from ( self . peer_settings . settings_initial_window_size ) . unwrap_or ( 2147483647 ) ;"],
     "start_stream no longer initialises the stream's send window from this peer's SETTINGS_INITIAL_WINDOW_SIZE"),
    ("h2", "queue_window_update",
     ["* $e = $e . saturating_add ( $inc ) . min ( 2147483647 ) ;", "* $e = ( * $e ) . saturating_add ( $inc ) . min ( 2147483647 ) ;",
      "* $e = min ( $e . saturating_add ( $inc ) , 2147483647 ) ;"],
     "queue_window_update no longer coalesces with saturation at 2^31-1"),
    ("stream", "split",
     ["Position :: Client ( .. ) => StreamParts { window : & mut self . backend_window ,"],
     "Stream::split no longer gives a backend connection its own send window"),
    ("h2", "handle_data_frame",
     ["if let StreamState :: Linked ( $t ) = ...{14} { ...{4} $ep . readiness_mut ( $t ) . arm_writable ( ) ;"],
     "handle_data_frame no longer arms WRITABLE on the linked endpoint when it queues body bytes for it"),
    ("h2", "handle_data_frame",
     ["self . flow_control . $acc += $wire ; if self . flow_control . $acc >= ...{12} { "
      "self . {queue_window_update} ( 0 , self . flow_control . $acc ) ; self . flow_control . $acc = 0 ;"],
     "handle_data_frame no longer credits the connection window with the whole wire payload (padding included) of every DATA frame "
     "(on both paths: known stream, and stream already gone)", 2),
    ("h2", "handle_data_frame",
     ["if ! $d . end_stream { if ...{30} { self . {queue_window_update} ( $d . stream_id , $wire ) ; } else { "
      "* self . $owedmap . entry ( $d . stream_id ) . or_insert ( 0 ) += $wire ; }"],
     "handle_data_frame no longer owes the stream the whole wire payload (padding included) of a DATA frame (credited at once only when the payload is discarded)"),
    ("h2", "new",
     ["settings_initial_window_size : 65535 . min ( ...{30} . capacity ( ) as u32 )", "settings_initial_window_size : ( ...{30} . capacity ( ) as u32 ) . min ( 65535 )",
      "settings_initial_window_size : min ( 65535 , ...{30} . capacity ( ) as u32 )"],
     "ConnectionH2::new no longer announces a stream window of at most the stream buffer capacity"),
    ("h2", "release_stream_credit",
     ["( ( match self . position { Position :: Client ( .. ) => & ...{8} . back , Position :: Server => & ...{8} . front , } ) . storage . available_space ( ) as u32 ) "
      ". saturating_sub ( self . local_settings . settings_initial_window_size . saturating_sub ( * $owed ) ) . min ( * $owed ) > 0 { * $owed -="],
     "release_stream_credit no longer grants min(owed, free space of the buffer read into - the peer's remaining window)"),
    ("h2", "release_stream_credit",
     ["for & ( $sid , $g ) in & $grants { self . {queue_window_update} ( $sid , $g ) ; }",
      "for ( $sid , $g ) in $grants { self . {queue_window_update} ( $sid , $g ) ; }"],
     "release_stream_credit no longer queues the WINDOW_UPDATE of what it grants"),
    ("h2", "try_resume_reading",
     ["self . {release_stream_credit} ( $ctx )"],
     "try_resume_reading (run after the other side of the session wrote) no longer releases stream credit"),
    ("h2", "write_streams",
     ["if self . $wo . len ( ) >= ( self . peer_settings . settings_max_concurrent_streams as usize ) || ...{40} != Some ( ...{8} ) { continue ; }",
      "if self . $wo . len ( ) >= self . peer_settings . settings_max_concurrent_streams as usize || ...{40} != Some ( ...{8} ) { continue ; }"],
     "write_streams no longer holds back a backend stream that would exceed the peer's MAX_CONCURRENT_STREAMS"),
    ("h2", "end_stream",
     ["self . $q . push ( ( $id , H2Error :: Cancel ) ) ;"],
     "end_stream on a backend connection no longer queues the RST_STREAM(CANCEL) of a cancelled request"),
    ("mod", "ready",
     ["self . frontend . try_resume_reading ("],
     "Mux::ready no longer lets the frontend resume reading / release credit after a backend wrote"),
    ("mod", "ready",
     ["for ( $_ , $b ) in self . router . backends . iter_mut ( ) { ...{60} $b . try_resume_reading ( ...{8} ) ...{30} { $empty = false ;",
      "for $b in self . router . backends . values_mut ( ) { ...{60} $b . try_resume_reading ( ...{8} ) ...{30} { $empty = false ;"],
     "Mux::ready no longer lets the backends resume reading / release credit after the frontend wrote"),
    ("mod", "ready",
     ["if ...{30} { $r . remove ( Ready :: HUP ) ; $r . remove ( Ready :: ERROR ) ; } if ! $r . is_empty ( ) { $empty = false ;"],
     "Mux::ready counts the HUP/ERROR bits of a hung-up backend as pending work again (spins until MAX_LOOP_ITERATIONS closes the session)"),
    # the connection-level receive window (model crecv_step): enlarged once by icw - 65535 at both enlargement points,
    # icw clamped to [65535, 2^31-1], credit returned at icw / 2 (both DATA paths)
    ("h2", "writable",
     ["if self . connection_config . initial_connection_window . saturating_sub ( 65535 ) > 0 && ! self . $once { "
      "self . {queue_window_update} ( 0 , self . connection_config . initial_connection_window . saturating_sub ( 65535 ) ) ; } self . $once = true ;",
      "if ! self . $once && self . connection_config . initial_connection_window . saturating_sub ( 65535 ) > 0 { "
      "self . {queue_window_update} ( 0 , self . connection_config . initial_connection_window . saturating_sub ( 65535 ) ) ; } self . $once = true ;"],
     "writable (frontend, after the preface) no longer enlarges the connection receive window once by initial_connection_window - 65535"),
    ("h2", "handle_settings_frame",
     ["if self . position . is_client ( ) && ! self . $once { self . $once = true ; "
      "if self . connection_config . initial_connection_window . saturating_sub ( 65535 ) > 0 { "
      "self . {queue_window_update} ( 0 , self . connection_config . initial_connection_window . saturating_sub ( 65535 ) ) ; } }"],
     "handle_settings_frame (backend connection) no longer enlarges the connection receive window ONCE (every SETTINGS frame of the backend "
     "would credit it initial_connection_window - 65535 bytes again)"),
    ("h2", "handle_data_frame",
     ["self . flow_control . $acc >= ( self . connection_config . initial_connection_window / 2 ) {",
      "self . flow_control . $acc >= self . connection_config . initial_connection_window / 2 {"],
     "handle_data_frame no longer returns connection credit once half of initial_connection_window was received (both paths)", 2),
    ("h2", "new",
     ["$icw . clamp ( 65535 , 2147483647 )", "$icw . max ( 65535 ) . min ( 2147483647 )"],
     "H2ConnectionConfig::new no longer clamps initial_connection_window to [65535, 2^31-1]"),
    # a stream slot, fresh or recycled, starts with the peer's current initial window (model slotw_step, SwCreate): both sites
    ("mod", "create_stream",
     ["...{8} . window = i32 :: try_from ( $w ) . unwrap_or ( 2147483647 ) ; ...{8} . backend_window = 65535 ;",
      "...{8} . backend_window = 65535 ; ...{8} . window = i32 :: try_from ( $w ) . unwrap_or ( 2147483647 ) ;"],
     "Context::create_stream no longer resets the send windows of a recycled stream slot (the next stream would start with what its predecessor left)"),
    ("stream", "new",
     ["window : i32 :: try_from ( $w ) . unwrap_or ( 2147483647 ) , backend_window : 65535 ,"],
     "Stream::new no longer starts a fresh stream with the peer's initial window (and the default toward a backend)"),
    # RFC 7541 4.2 (model tsz_step / tsz_emit): the smallest table size since the last header block is kept next to the last
    # one, and the block starts with it when it is below the final size
    ("h2", "handle_settings_frame",
     ["self . $low = Some ( self . $low . or ( self . $last ) . map_or ( ...{20} , | $l | $l . min ( ...{20} ) ) , ) ; self . $last = Some (",
      "self . $low = Some ( self . $low . or ( self . $last ) . map_or ( ...{20} , | $l | $l . min ( ...{20} ) ) ) ; self . $last = Some ("],
     "handle_settings_frame no longer keeps the smallest SETTINGS_HEADER_TABLE_SIZE seen since the last header block next to the last one"),
    ("converter", "emit_pending_size_update_if_new_block",
     ["if let Some ( $n ) = self . $last . take ( ) { if let Some ( $l ) = self . $low . take ( ) . filter ( | $x | * $x < $n ) { "
      "if ...{6} encode_integer_into ( $l as usize , 5 , 32 , & mut self . out ) ...{60} encode_integer_into ( $n as usize , 5 , 32 , & mut self . out )"],
     "the converter no longer starts a header block with the smallest pending table size (when below the final one) and then the final one"),
    ("h2", "write_streams",
     ["if ...{6} { self . pending_table_size_update = None ; self . pending_table_size_min = None ; }",
      "if ...{6} { self . pending_table_size_min = None ; self . pending_table_size_update = None ; }"],
     "write_streams no longer clears both pending table sizes once the converter emitted them"),
    ("converter", "call",
     ["self . window -= i32 :: try_from ( $n ) . unwrap_or ( 2147483647 ) ;"],
     "converter DATA arm no longer subtracts the payload from its window"),
]

# named constants of h2.rs, and where the same value can be read by meaning when the name changed
CONST_BY_MEANING = {
    "DEFAULT_MAX_CONCURRENT_STREAMS": ("default", "settings_max_concurrent_streams : $v ,"),
    "DEFAULT_INITIAL_WINDOW_SIZE": ("default", "settings_initial_window_size : $v ,"),
    "DEFAULT_MAX_FRAME_SIZE": ("default", "settings_max_frame_size : $v ,"),
    "MIN_MAX_FRAME_SIZE": ("handle_settings_frame", "! ( $v .. $_ ) . contains ("),
    "MAX_MAX_FRAME_SIZE": ("handle_settings_frame", "! ( $_ .. $v ) . contains ("),
    "FLOW_CONTROL_MAX_WINDOW": ("update_initial_window_size", "if $_ > $v { return true ; }"),
}


def translate():
    """T-const (every H2 limit the model uses) + the flow-control facts of FACTS."""
    import rsfacts
    fails = []
    srcs = {}
    for k, f in (("h2", "h2.rs"), ("converter", "converter.rs"), ("stream", "stream.rs"), ("mod", "mod.rs")):
        try:
            srcs[k] = rsfacts.Source(os.path.join(MUX, f))
        except Exception as ex:  # unreadable file: nothing below can be established
            return ["%s cannot be read: %r" % (f, ex)]
    h2 = srcs["h2"]
    consts = {}
    for n in H2_CONSTS:
        if n in h2.consts:
            consts[n] = int(h2.consts[n])
            continue
        where = CONST_BY_MEANING.get(n)
        try:
            m = h2.find(where[0], where[1]) if where else None
        except rsfacts.Unreadable:
            m = None
        if m and m.group("v").isdigit():
            consts[n] = int(m.group("v"))
        else:
            fails.append("h2.rs: constant %s found neither by name nor by its use" % n)
    # current names of the private functions other facts call: the function that holds the defining code
    names = {}
    for key, pat in (("queue_window_update", "* $e = $e . saturating_add ( $inc ) . min ( 2147483647 ) ;"),
                     ("release_stream_credit", ". saturating_sub ( self . local_settings . settings_initial_window_size . saturating_sub ( * $owed ) ) . min ( * $owed )"),
                     ("update_initial_window_size", "$open |= * $sw <= 0 && $nw > 0 ;")):
        names[key] = key
        if not h2.has_fn(key) and rsfacts.find_anywhere(h2, pat):
            names[key] = rsfacts.m_name[0]
    for fact in FACTS:
        (k, fn, pats, msg), times = fact[:4], (fact[4] if len(fact) > 4 else 1)
        fn = names.get(fn, fn)
        pats = [re.sub(r"\{([a-z_]+)\}", lambda m: names.get(m.group(1), m.group(1)), p) for p in pats]
        try:
            if times == 1:
                found = any(srcs[k].find(fn, p) for p in pats)
            else:
                nf = " " + srcs[k].body(fn) + " "
                found = max(len(rsfacts.compile_pattern(p).findall(nf)) for p in pats) >= times
            if not found:
                fails.append(msg)
        except rsfacts.Unreadable as ex:
            # the function is not there under that name (a private function renamed): the same code anywhere in the file
            if not any(rsfacts.find_anywhere(srcs[k], p) for p in pats):
                fails.append("%s (%s)" % (msg, ex))
        except Exception as ex:
            fails.append("%s (translator error %r)" % (msg, ex))
    if len(consts) == len(H2_CONSTS):
        lines = ["(* GENERATED by props/c14.py:translate from /repo/lib/src/protocol/mux/h2.rs — do not edit. *)",
                 "From Coq Require Import ZArith.", "Open Scope Z_scope.", ""]
        for k in H2_CONSTS:
            lines.append("Definition %s : Z := %d." % (k, consts[k]))
        vlib.write_if_changed(os.path.join(vlib.COQ, "C14", "Gen.v"), "\n".join(lines) + "\n")
    return fails


# ---------------------------------------------------------------------------

GRID = [0, 1, 2, 16383, 16384, 16385, 32768, 65535, 65536, 2 ** 31 - 1]
WGRID = GRID + [-1, -100, -65535, 3, 100, 1000]
MF = [16384, 16384, 16385, 20000, 65535, 2 ** 24 - 1, 1, 7, 100]


def conv_case(rng, cid):
    ops = []
    for _ in range(rng.randint(1, 5)):
        w = rng.choice(WGRID) if rng.random() < 0.8 else rng.randint(-70000, 70000)
        mf = rng.choice(MF)
        n = rng.randint(1, 4)
        chunks = []
        for _ in range(n):
            c = rng.choice([0, 1, 2, 100, 16383, 16384, 16385, 32769, 65535, 65536, 70000, w, w + 1, w - 1, mf, mf + 1])
            chunks.append(max(0, min(c, 200000)))
        if mf < 100:
            chunks = [min(c, 400) for c in chunks]
        inc = rng.random() < 0.25
        ops.append(["conv", w, mf, rng.choice([1, 3, 5, 2 ** 31 - 1]), int(inc),
                    rng.choice([0, 1, 2, 3]) if inc else 0] + chunks)
    return Case(cid, ops, dict(kind="conv"))


def id_case(rng, cid):
    ops = []
    for _ in range(rng.randint(1, 8)):
        last = rng.choice([0, 2, 4, 100, 2 ** 31 - 4, 2 ** 31 - 3, 2 ** 31 - 2, 2 ** 31 - 1, 2 ** 31, 2 ** 31 + 1,
                           2 ** 32 - 3, 2 ** 32 - 2, 2 ** 32 - 1, 1, 3, rng.getrandbits(32)])
        ops.append(["nextid", last, rng.choice([0, 1])])
    return Case(cid, ops, dict(kind="id"))


def ledger_case(rng, cid):
    """the connection model driven like ConnectionH2 is (no real counterpart in-process: model-only ops are
    checked against the driver's own replica of the ledger, which is what the black-box peer runs)"""
    ops = [["cnew", 1]]
    nstreams = 0
    for _ in range(rng.randint(3, 25)):
        r = rng.random()
        if r < 0.25:
            chunks = [rng.choice([0, 1, 100, 16384, 16385, 40000, 65535, 70000]) for _ in range(rng.randint(1, 3))]
            ops.append(["start", rng.choice([65535, 65536, 1000, 0, 16384, 2 ** 31 - 1])] + chunks)
            nstreams += 1
        elif r < 0.5:
            ops.append(["wu", rng.choice([0, 0, 1, 3, 5, 7]), rng.choice([0, 1, 100, 16384, 65535, 2 ** 31 - 1, 2 ** 31 - 65535, 70000])])
        elif r < 0.62:
            ops.append(["siw", rng.choice([0, 1, 100, 16384, 65535, 65536, 2 ** 31 - 1, 2 ** 31, 200000])])
        elif r < 0.7:
            ops.append(["smf", rng.choice([16384, 16385, 65535, 2 ** 24 - 1, 2 ** 24, 16383, 20000])])
        elif r < 0.75:
            ops.append(["smc", rng.choice([0, 1, 2, 3, 100])])
        else:
            ops.append(["write"])
    ops.append(["write"])
    return Case(cid, ops, dict(kind="ledger"))


def qwu_case(rng, cid):
    ops = [["qnew", rng.choice([1, 2, 3, 5])]]
    for _ in range(rng.randint(2, 15)):
        ops.append(["qwu", rng.choice([0, 1, 3, 5, 7, 9]), rng.choice([1, 100, 65535, 2 ** 31 - 1, 2 ** 31 - 2, 2 ** 32 - 1, 2 ** 31])])
    return Case(cid, ops, dict(kind="qwu"))


def gen_cases(rng, tier):
    n = {"quick": 3000, "thorough": 60000, "search": 20000}.get(tier, 3000)
    out = []
    for i in range(n):
        r = i % 10
        if r < 5:
            out.append(conv_case(rng, "c%d" % i))
        elif r < 6:
            out.append(id_case(rng, "i%d" % i))
        elif r < 9:
            out.append(ledger_case(rng, "l%d" % i))
        else:
            out.append(qwu_case(rng, "q%d" % i))
    return out


def corpus_cases():
    d = os.path.join(vlib.ROOT, "corpus", ID)
    out = []
    if os.path.isdir(d):
        for f in sorted(os.listdir(d)):
            if f.endswith(".case"):
                for c in vlib.parse_cases(open(os.path.join(d, f)).read()):
                    c.id = "k" + c.id
                    out.append(c)
    return out


def nontrivial(case, o):
    toks = [t for ob in o["obs"] for t in ob]
    kinds = set(op[0] for op in case.ops)
    if "conv" in kinds:
        return "split" in toks or "stall" in toks
    if "nextid" in kinds:
        return "none" in toks and "id" in toks
    if "cnew" in kinds:
        return "data" in toks and ("goaway" in toks or "rst" in toks or "siw" in kinds)
    return "coalesced" in toks


RULE = ("cases: converter cases (`conv` window max_frame stream end_stream incremental peers chunk...: the real "
        "H2BlockConverter run by kawa.prepare over DATA chunks, window/max_frame/chunk grid around 0, 1, 16384, 16385, "
        "65535, 2^31-1 and negative windows), stream-id cases (`nextid` around 2^31-1 and 2^32-1, both roles), ledger "
        "cases (start / WINDOW_UPDATE / SETTINGS / write-pass schedules over the connection model, checked against "
        "the driver's independent peer-side ledger), WINDOW_UPDATE coalescing cases. Non-trivial and distinct: a "
        "converter case that splits or stalls, an id case with both an issued id and exhaustion, a ledger case that "
        "sends DATA and meets an error or a SETTINGS change, a coalescing case that merges; distinct by op text.")
ASSUMPTIONS = [
    "kawa.prepare pops blocks front to back and stops when the converter returns false (kawa 0.6.8); Store::split is exact",
    "the windows live in ConnectionH2 / Stream (private, need a live socket): handle_window_update_frame, update_initial_window_size, start_stream, queue_window_update and the write_streams budget are tied to the model by the source-shape translator and by the black-box ledger peer, not in-process",
    "liveness is stated for the model's write pass with WRITABLE armed on every <=0 -> >0 transition; the delivery of the armed event by epoll is runtime (C01)",
]
TRUSTED = ["translator props/c14.py:translate regenerates the H2 constants (Gen.v) and checks the shape of the window arithmetic in h2.rs/converter.rs"]
LEVEL_TEXT = ("Machine-checked proof (Coq 8.16) over an executable model of sozu's H2 sender ledger (converter DATA split, "
              "write-pass budget, WINDOW_UPDATE / SETTINGS handling with the i32 bounds, stream ids, MAX_CONCURRENT_STREAMS, "
              "WINDOW_UPDATE coalescing): never over the peer's windows or max frame size along every schedule, overflow "
              "and zero increments are errors, legal identifiers, progress and complete transfer under any eventually "
              "sufficient schedule; tied to /repo by a constant/shape translator, an in-process correspondence of the real "
              "H2BlockConverter and next_stream_id, and a black-box byte-accounting H2 peer against a real worker.")
LEVEL_NOTE = ("ConnectionH2's window handlers are reached only through the black-box tier and the shape translator; "
              "end-to-end liveness depends on edge-triggered wake-ups (runtime).")
TECHNIQUE = "Rocq/Coq proof over an executable Gallina model + source translators + differential correspondence + black-box ledger peer"

HARNESS_BINS = ["c14", "c14bb", "c14bb2"]


def extra_stage(tier, rng, work):
    """Black-box tier: a real worker, a byte-accounting scripted h2c backend that announces its own
    SETTINGS_INITIAL_WINDOW_SIZE, opens the connection window wide and grants stream credit only after
    silence (race-free ledger), and a client uploading bodies on one connection: HTTP/1.1 keep-alive on a
    plain listener, or a raw H2 client over TLS announcing its own (large) initial window.  Any DATA beyond
    what the backend granted, any DATA above its max frame size, a failed second keep-alive request are
    violations with the run as replay."""
    res = dict(failures=[], viols=[], coverage={})
    runs = [("h1", 1000, 5000, 2, 65535), ("h1", 65535, 70000, 2, 65535), ("h2", 65535, 200000, 1, 6291456), ("h2", 1000, 5000, 2, 65535)]
    if tier == "thorough":
        runs += [("h1", 1, 40, 2, 65535), ("h1", 16384, 70000, 3, 65535), ("h1", 70000, 200000, 2, 65535), ("h2", 16384, 100000, 2, 1 << 20),
                 ("h2", 100000, 300000, 1, 2 ** 31 - 1), ("h2", 65535, 70000, 2, 100)]
    n, data_frames = 0, 0
    for (mode, w, body, nreq, cw) in runs:
        rc, o, e, dt = vlib.sh([vlib.harness_path("c14bb"), mode, str(w), str(body), str(nreq), str(cw)], timeout=150, cwd=work)
        if rc != 0:
            res["failures"].append("c14bb %s %d %d: exit %d %s" % (mode, w, body, rc, (o + e)[-300:]))
            continue
        n += 1
        lines = o.splitlines()
        data_frames += sum(1 for l in lines if l.startswith("obs data"))
        c = Case("bb_%s_w%d_b%d" % (mode, w, body), [["blackbox", mode, w, body, nreq, cw]], dict(kind="blackbox"))
        for l in lines:
            if l.startswith("viol "):
                p = l.split(" ", 2)
                res["viols"].append((c, p[1], p[2] if len(p) > 2 else ""))
        if not any(l.startswith("obs headers") for l in lines):
            res["failures"].append("c14bb %s %d %d: the backend saw no request (worker or mock did not start)" % (mode, w, body))
    # part 2: receiver-side credit (padded DATA, exact client ledger of both windows) and the backend's
    # MAX_CONCURRENT_STREAMS (cancelled request, limit lowered to 0 on an idle connection, burst of requests
    # attached while the backend was still connecting); the scripted backend keeps the RFC 9113 5.1 stream states
    runs2 = [["pad", "600", "10", "255"], ["tiny", "6000", "10", "255"], ["shrink"], ["cancel"], ["mcs0"], ["burst", "4"], ["resettings"], ["refused"], ["leftover"], ["hpack2"]]
    if tier == "thorough":
        runs2 += [["pad", "300", "1", "255"], ["pad", "200", "16000", "100"], ["burst", "8"]]
    for a in runs2:
        rc, o, e, dt = vlib.sh([vlib.harness_path("c14bb2")] + a, timeout=120, cwd=work)
        if rc != 0 or "obs done" not in o:
            res["failures"].append("c14bb2 %s: exit %d %s" % (" ".join(a), rc, (o + e)[-300:]))
            continue
        n += 1
        c = Case("bb2_" + "_".join(a), [["blackbox2"] + [int(x) if x.isdigit() else x for x in a]], dict(kind="blackbox"))
        for l in o.splitlines():
            if l.startswith("viol "):
                p = l.split(" ", 2)
                res["viols"].append((c, p[1], p[2] if len(p) > 2 else ""))
    res["coverage"] = dict(blackbox_runs=n, blackbox_data_frames_accounted=data_frames,
                           blackbox_rule="harness/src/bin/c14bb.rs: real worker, HTTP/1 keep-alive or raw H2/TLS client -> h2c backend announcing INITIAL_WINDOW_SIZE=w; backend ledger (grants only after silence): DATA received <= granted per stream and per connection, every DATA <= 16384; sequential uploads all answered; harness/src/bin/c14bb2.rs: padded upload with an exact client ledger of both windows must complete and never be over-credited; the backend's acknowledged MAX_CONCURRENT_STREAMS is never exceeded (cancel, limit lowered to 0, burst)")
    return res
