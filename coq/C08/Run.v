(** C08 — token interface of the model for the correspondence check. *)
From Coq Require Import List Arith ZArith String Bool.
From SV Require Import Common.Tok C08.Base C08.Gen C08.Model.
Import ListNotations.
Open Scope string_scope.
Open Scope list_scope.

Definition step (alive : bool) (op : list tok) : bool * list tok :=
  match op with
  | TS name :: args =>
    if name =? "worker" then (true, [])
    else if name =? "send" then
      match args with
      | TS v :: _ => if alive then (alive, [tn_nat (answers_of v); TN 0]) else (alive, [TS "gone"])
      | _ => (alive, [TS "badop"])
      end
    else if name =? "view" then (alive, if alive then [TN 1] else [TS "gone"])
    else if name =? "stop" then
      match args with
      | [TS h] => if alive then (false, [TS "stopped"]) else (alive, [TS "gone"])
      | _ => (alive, [TS "badop"])
      end
    else if name =? "end" then (alive, [TS "end"])
    else (alive, [TS "badop"])
  | _ => (alive, [TS "badop"])
  end.

Fixpoint run_from (alive : bool) (ops : list (list tok)) : list (list tok) :=
  match ops with
  | [] => []
  | op :: ops' => let '(a, o) := step alive op in o :: run_from a ops'
  end.

Definition run_case (ops : list (list tok)) : list (list tok) := run_from false ops.
