(** C19 — the shell sends a flow's datagrams on that flow's own socket.
    Extra invariant on top of [GQ] (ShellProofs.v): flows without a socket are
    the ones being set up in the current event, and a socket's shadow key is its
    flow's own admission key. *)
From Coq Require Import List NArith Bool Arith Lia.
From SV Require Import Common.Slab C19.Model C19.Proofs C19.Shell C19.ShellProofs.
Import ListNotations.

Definition is_cfg (i : input) : bool :=
  match i with ISetCluster _ | ISetMaxFlows _ | ISetMaxRx _ | IDrain => true | _ => false end.

(* ---------------------------------------------------------------- A *)
Lemma cl_reschedule m : m_cluster (fst (reschedule m)) = m_cluster m.
Proof. unfold reschedule. destruct (opt_N_eqb _ _); reflexivity. Qed.

Lemma cl_close_flow m id : m_cluster (fst (close_flow m id)) = m_cluster m.
Proof.
  unfold close_flow. destruct (sget (m_flows m) id) as [f|]; [|reflexivity].
  destruct (phase_eqb (f_phase f) Closing); [reflexivity|].
  match goal with |- context [reschedule ?x] => pose proof (cl_reschedule x) as H; destruct (reschedule x) as [m2 o] end.
  cbn in *. exact H.
Qed.

Lemma cl_finish m id td : m_cluster (fst (finish m id td)) = m_cluster m.
Proof. unfold finish. destruct td; [apply cl_close_flow | apply cl_reschedule]. Qed.

Section Sticky.
Variable hash : bool -> addr -> N.

Lemma cl_step m now i : is_cfg i = false -> m_cluster (fst (step hash m now i)) = m_cluster m.
Proof.
  intros Hc. destruct i as [src p|id p|id bid a|c|n|n| | |id| ]; try discriminate; cbn [step].
  - unfold on_client_datagram. case_if; [reflexivity|].
    destruct (c_cluster (m_cluster m)); [reflexivity|]. destruct p as [|p0 p']; [reflexivity|].
    destruct (tget (m_table m) _) as [id|].
    + unfold forward_on_existing_flow. destruct (sget (m_flows m) id) as [f|]; [|reflexivity].
      destruct (f_phase f); [| |reflexivity].
      * match goal with |- context [reschedule ?x] => pose proof (cl_reschedule x) as H end. exact H.
      * destruct (f_backend_addr (flow_on_client f now)); [|reflexivity].
        destruct (take_pp _) as [pp f2].
        match goal with |- context [finish ?x ?y ?z] => pose proof (cl_finish x y z) as H; destruct (finish x y z) end.
        exact H.
    + destruct (m_draining m); [reflexivity|]. case_if; [reflexivity|].
      destruct (sinsert _ _) as [s' id].
      match goal with |- context [reschedule ?x] => pose proof (cl_reschedule x) as H; destruct (reschedule x) end.
      exact H.
  - unfold on_backend_datagram. case_if; [reflexivity|].
    destruct (sget (m_flows m) id) as [f|]; [|reflexivity].
    destruct (negb _); [reflexivity|].
    match goal with |- context [finish ?x ?y ?z] => pose proof (cl_finish x y z) as H; destruct (finish x y z) end.
    exact H.
  - unfold on_backend_resolved. destruct (sget (m_flows m) id) as [f|]; [|reflexivity].
    destruct (negb _); [reflexivity|]. cbn [set_flow_live f_pending]. destruct (f_pending f).
    + destruct (take_pp _) as [pp f4].
      match goal with |- context [finish ?x ?y ?z] => pose proof (cl_finish x y z) as H; destruct (finish x y z) end.
      exact H.
    + match goal with |- context [reschedule ?x] => pose proof (cl_reschedule x) as H; destruct (reschedule x) end.
      exact H.
  - unfold handle_timeout.
    assert (forall ids acc, m_cluster (fst acc) = m_cluster m ->
              m_cluster (fst (fold_left (timeout_one now) ids acc)) = m_cluster m) as Hf.
    { induction ids as [|x ids IH]; intros acc Ha; [exact Ha|]. cbn [fold_left]. apply IH.
      unfold timeout_one. destruct acc as [m0 o0]. destruct (sget (m_flows m0) x) as [f|]; [|exact Ha].
      destruct (_ && _); [|exact Ha].
      pose proof (cl_close_flow m0 x) as H. destruct (close_flow m0 x). cbn in *. congruence. }
    specialize (Hf (map fst (filter (fun kf => N.leb (f_deadline (snd kf)) now) (sitems (m_flows m)))) (m, []) eq_refl).
    destruct (fold_left _ _ _) as [m1 o1].
    pose proof (cl_reschedule (set_armed m1 None)) as H. destruct (reschedule (set_armed m1 None)). cbn in *. congruence.
  - apply cl_close_flow.
  - unfold close_all.
    assert (forall ids acc, m_cluster (fst acc) = m_cluster m ->
              m_cluster (fst (fold_left close_one ids acc)) = m_cluster m) as Hf.
    { induction ids as [|x ids IH]; intros acc Ha; [exact Ha|]. cbn [fold_left]. apply IH.
      unfold close_one. destruct acc as [m0 o0].
      pose proof (cl_close_flow m0 x) as H. destruct (close_flow m0 x). cbn in *. congruence. }
    apply (Hf _ (m, []) eq_refl).
Qed.

(* ---------------------------------------------------------------- B *)
Lemma step_forward_key m now i id f f' :
  Inv m -> sget (m_flows m) id = Some f -> sget (m_flows (fst (step hash m now i))) id = Some f' ->
  f_inc f' = f_inc f -> own_key f' = own_key f.
Proof.
  intros HI Hf Hf' Hi.
  pose proof (shape_SF hash _ _ _ _ _ HI (step_shape hash m now i HI)) as S.
  destruct (sf_flows _ _ _ _ S _ _ Hf') as [(f0 & Hf0 & (Hc & Hcfg & _) & _)|(Hn & _)].
  - rewrite Hf in Hf0. inv Hf0. unfold own_key. rewrite Hc, Hcfg. reflexivity.
  - pose proof (inv_inc _ HI _ _ Hf). lia.
Qed.

(* ---------------------------------------------------------------- C *)
Lemma step_new_flow m now i id f' :
  Inv m -> sget (m_flows m) id = None -> sget (m_flows (fst (step hash m now i))) id = Some f' ->
  exists src p, i = IClient src p /\ own_key f' = key_of src (c_with_port (m_cluster m)) /\
                f_backend_addr f' = None /\
                exists l cl k, In (l, SelectBackend id cl k) (snd (step hash m now i)).
Proof.
  intros HI Hn Hf'. pose proof (step_shape hash m now i HI) as Hs.
  destruct Hs as [o Ho Ho2|m' E1 E2 E3 E4 H5 H6|id0 f f2 pre o Hg Hs Hp Ht Hpre Ho Hmono Hpend'
                 |id0 f f2 pre o Hg Hs Hpre Ho|m' o Hr|src p o m' cl Ei Ht Hd Hc Ho Em Ecl Hne Hpne].
  - congruence.
  - rewrite E1 in Hf'. congruence.
  - unfold updated in Hf'. cbn in Hf'. rewrite sget_sset in Hf'. destruct (Nat.eqb id id0) eqn:E.
    + apply Nat.eqb_eq in E. subst. congruence.
    + congruence.
  - unfold removed in Hf'. cbn in Hf'. rewrite sget_sremove in Hf'. destruct (Nat.eqb id id0); congruence.
  - pose proof (rems_mono _ _ _ Hr _ _ Hf'). congruence.
  - subst m'. unfold admitted in Hf'. cbn in Hf'. rewrite (sget_sinsert _ _ (inv_wf _ HI)) in Hf'.
    destruct (Nat.eqb id (s_next (m_flows m))) eqn:E; [|congruence]. apply Nat.eqb_eq in E. subst id. inv Hf'.
    exists src, p. split; [first [exact Ei | reflexivity]|]. split; [reflexivity|]. split; [reflexivity|].
    eexists _, _, _. right. left. reflexivity.
Qed.

(* ---------------------------------------------------------------- G *)
(** a flow's backend goes from unset to set only with an OpenUpstream *)
Lemma step_backend_set m now i id f f' :
  Inv m -> sget (m_flows m) id = Some f -> f_backend_addr f = None ->
  sget (m_flows (fst (step hash m now i))) id = Some f' -> f_inc f' = f_inc f -> f_backend_addr f' <> None ->
  exists l a, In (l, OpenUpstream id a) (snd (step hash m now i)).
Proof.
  intros HI Hf Hb Hf' Hi Hb'. pose proof (step_shape hash m now i HI) as Hs.
  destruct Hs as [o Ho Ho2|m' E1 E2 E3 E4 H5 H6|id0 f0 f2 pre o Hg Hs Hp Ht Hpre Ho Hmono Hpend'
                 |id0 f0 f2 pre o Hg Hs Hpre Ho|m' o Hr|src p o m' cl Ei Ht Hd Hc Ho Em Ecl Hne Hpne].
  - congruence.
  - rewrite E1 in Hf'. congruence.
  - unfold updated in Hf'. cbn in Hf'. rewrite sget_sset in Hf'. destruct (Nat.eqb id id0) eqn:E; [|congruence].
    apply Nat.eqb_eq in E. subst id0. rewrite Hg in Hf'. inv Hf'. rewrite Hf in Hg. inv Hg.
    destruct Hpre as [Hsame|src p b hdr Ei Hb1 Hb2 Hh|bid a0 p hdr Ei Hb1 Hpe Hb2 Hh|bid a0 Ei Hb1 Hb2|p Ei Hb2 Hb1].
    + congruence.
    + congruence.
    + eexists _, _. apply in_or_app. left. left. reflexivity.
    + eexists _, _. apply in_or_app. left. left. reflexivity.
    + congruence.
  - unfold removed in Hf'. cbn in Hf'. rewrite sget_sremove in Hf'. destruct (Nat.eqb id id0) eqn:E; [discriminate|].
    congruence.
  - pose proof (rems_mono _ _ _ Hr _ _ Hf') as H. congruence.
  - subst m'. unfold admitted in Hf'. cbn in Hf'. rewrite (sget_sinsert _ _ (inv_wf _ HI)) in Hf'.
    destruct (Nat.eqb id (s_next (m_flows m))) eqn:E.
    + apply Nat.eqb_eq in E. subst id. rewrite (sinsert_fresh (inv_wf _ HI)) in Hf. discriminate.
    + congruence.
Qed.

(* ---------------------------------------------------------------- E, D *)
Lemma abort_gone m now id : Inv m -> sget (m_flows (fst (step hash m now (IAbort id)))) id = None.
Proof.
  intros HI. cbn [step]. destruct (sget (m_flows m) id) as [f|] eqn:Hf.
  - destruct (close_flow_live _ _ _ HI Hf) as (o & -> & _). unfold removed. cbn. rewrite sget_sremove, Nat.eqb_refl. reflexivity.
  - rewrite close_flow_dead by assumption. exact Hf.
Qed.

(** after a resolution, the flow is gone or has a backend *)
Lemma resolved_settles m now id bid a :
  Inv m ->
  match sget (m_flows (fst (step hash m now (IResolved id bid a)))) id with
  | None => True
  | Some f' => f_backend_addr f' <> None
  end.
Proof.
  intros HI. destruct (sget (m_flows m) id) as [f|] eqn:Hf.
  - pose proof (inv_phase _ HI _ _ Hf) as Hp. unfold phase_ok in Hp.
    destruct (f_phase f) eqn:Ep.
    + (* awaiting: established now, or closed by its requests cap *)
      destruct Hp as (Hb & Hpend). cbn [step]. unfold on_backend_resolved. rewrite Hf, Ep. cbn [phase_eqb negb].
      cbn [set_flow_live f_pending]. destruct (f_pending f) as [payload|] eqn:Epe; [|congruence].
      match goal with |- context [take_pp ?x] => set (f3 := x) end.
      destruct (take_pp f3) as [pp f4] eqn:Etp.
      destruct (take_pp_spec _ _ _ Etp) as (Hs4 & Hph4 & Hb4 & Hpe4 & _).
      assert (same_id f f4) as Hs by (eapply same_id_trans; [|exact Hs4]; repeat split).
      assert (phase_ok f4) as Hp4 by (unfold phase_ok; rewrite Hph4, Hb4, Hpe4; cbn; split; [discriminate|reflexivity]).
      destruct (finish_spec m id f f4 HI Hf Hs Hp4) as (o & Harm & Hfin). rewrite Hfin.
      destruct (teardown_due f4); cbn [fst].
      * unfold removed. cbn. rewrite sget_sremove, Nat.eqb_refl. exact I.
      * unfold updated. cbn. rewrite sget_sset, Nat.eqb_refl, Hf. rewrite Hb4. cbn. discriminate.
    + (* established: a duplicate resolution changes nothing *)
      destruct (stale_resolution_noop hash m now id bid a) as (-> & _).
      * intros g Hg. rewrite Hf in Hg. inv Hg. congruence.
      * rewrite Hf. apply Hp.
    + destruct Hp.
  - destruct (stale_resolution_noop hash m now id bid a) as (-> & _).
    + intros g Hg. congruence.
    + rewrite Hf. exact I.
Qed.

(* ---------------------------------------------------------------- the extra invariant *)

Definition pend (id : nat) (f : flow) (pq : list lout) : Prop :=
  (f_backend_addr f = None /\ exists l cl k, In (l, SelectBackend id cl k) pq) \/
  (exists l a, In (l, OpenUpstream id a) pq).

(** every live flow without a socket is being set up in the current event *)
Definition Ncl (m : mgr) (socks : list sock) (ifc : option addr) (pq : list lout) : Prop :=
  forall id f, sget (m_flows m) id = Some f -> ~ In id (flows_of socks) ->
    (exists src, ifc = Some src /\ own_key f = key_of src (c_with_port (m_cluster m))) /\ pend id f pq.

(** a socket's shadow key is its flow's own admission key *)
Definition Ocl (m : mgr) (socks : list sock) : Prop :=
  forall s f, In s socks -> sget (m_flows m) (s_flow s) = Some f -> f_inc f = s_inc s ->
    s_key s = Some (own_key f).

Lemma pend_mono id f pq pq' : (forall x, In x pq -> In x pq') -> pend id f pq -> pend id f pq'.
Proof.
  intros Hs [(Hb & l & cl & k & Hin)|(l & a & Hin)]; [left|right]; eauto 10.
Qed.

(** a call into the manager, seen by the two clauses *)
Lemma Ncl_call m socks ifc pq now i :
  Inv m -> Ncl m socks ifc pq -> is_cfg i = false ->
  (forall src p, i = IClient src p -> ifc = Some src) ->
  Ncl (fst (step hash m now i)) socks ifc (pq ++ snd (step hash m now i)).
Proof.
  intros HI HN Hc Hifc id f' Hf' Hns.
  destruct (step_forward hash m now i HI) as (F1 & _ & _).
  rewrite (cl_step m now i Hc).
  destruct (sget (m_flows m) id) as [f|] eqn:Hf.
  - destruct (F1 _ _ Hf) as [(f'' & Hf'' & Hi' & Hmono)|(Hn & _)]; [|congruence].
    rewrite Hf' in Hf''. inv Hf''.
    destruct (HN _ _ Hf Hns) as ((src & Es & Hk) & Hp). split.
    + exists src. split; [exact Es|]. rewrite <- Hk. eapply step_forward_key; eauto.
    + destruct (f_backend_addr f'') eqn:Eb'.
      * destruct (f_backend_addr f) eqn:Eb.
        -- destruct Hp as [(Hb & _)|Hp]; [congruence|]. eapply pend_mono; [|right; exact Hp].
           intros x Hx. apply in_or_app. left. exact Hx.
        -- destruct (step_backend_set m now i id f f'' HI Hf Eb Hf' Hi') as (l & a0 & Hin); [congruence|].
           right. exists l, a0. apply in_or_app. right. exact Hin.
      * destruct (f_backend_addr f) eqn:Eb; [discriminate (Hmono _ eq_refl)|].
        destruct Hp as [(_ & l & cl & k & Hin)|(l & a0 & Hin)].
        -- left. split; [exact Eb'|]. exists l, cl, k. apply in_or_app. left. exact Hin.
        -- right. exists l, a0. apply in_or_app. left. exact Hin.
  - destruct (step_new_flow m now i id f' HI Hf Hf') as (src & p & -> & Hk & Hb & l & cl & k & Hin). split.
    + exists src. split; [eapply Hifc; reflexivity | exact Hk].
    + left. split; [exact Hb|]. exists l, cl, k. apply in_or_app. right. exact Hin.
Qed.

Lemma Ocl_call m socks now i :
  Inv m -> Ocl m socks ->
  (forall s, In s socks -> sget (m_flows m) (s_flow s) = None ->
             sget (m_flows (fst (step hash m now i))) (s_flow s) = None) ->
  Ocl (fst (step hash m now i)) socks.
Proof.
  intros HI HO Hna s f' Hs Hf' Hi.
  destruct (step_forward hash m now i HI) as (F1 & _ & _).
  destruct (sget (m_flows m) (s_flow s)) as [f|] eqn:Hf.
  - destruct (F1 _ _ Hf) as [(f'' & Hf'' & Hi' & _)|(Hn & _)]; [|congruence].
    rewrite Hf' in Hf''. inv Hf''.
    rewrite (step_forward_key m now i _ f f'' HI Hf Hf' Hi'). apply (HO s f Hs Hf). congruence.
  - rewrite (Hna s Hs Hf) in Hf'. discriminate.
Qed.

(** dropping the head of the pending list *)
Lemma Ncl_drop m socks ifc x r :
  Ncl m socks ifc (x :: r) ->
  (forall id cl k, snd x = SelectBackend id cl k ->
     match sget (m_flows m) id with Some f => f_backend_addr f <> None \/ In id (flows_of socks) | None => True end) ->
  (forall id a, snd x = OpenUpstream id a ->
     match sget (m_flows m) id with Some f => In id (flows_of socks) | None => True end) ->
  Ncl m socks ifc r.
Proof.
  intros HN Hsel Hop id f Hf Hns. destruct (HN _ _ Hf Hns) as (A & Hp). split; [exact A|].
  destruct Hp as [(Hb & l & cl & k & [E|Hin])|(l & a & [E|Hin])].
  - exfalso. specialize (Hsel id cl k). rewrite E in Hsel. specialize (Hsel eq_refl). rewrite Hf in Hsel.
    destruct Hsel; [congruence | contradiction].
  - left. eauto 10.
  - exfalso. specialize (Hop id a). rewrite E in Hop. specialize (Hop eq_refl). rewrite Hf in Hop. contradiction.
  - right. eauto.
Qed.


(* ---------------------------------------------------------------- through the drain *)

Record GQ2 (sh : shell) : Prop := {
  q_gq : GQ sh;
  q_n : Ncl (sh_mgr sh) (sh_socks sh) (sh_ifc sh) (sh_q sh);
  q_o : Ocl (sh_mgr sh) (sh_socks sh);
}.

Lemma Ncl_socks m socks socks' ifc pq :
  (forall id, In id (flows_of socks) -> In id (flows_of socks')) -> Ncl m socks ifc pq -> Ncl m socks' ifc pq.
Proof. intros Hs HN id f Hf Hns. apply HN; auto. Qed.

(** handlers that leave the manager alone and keep every socket's flow, incarnation and key *)
Lemma GQ2_same sh sh' x :
  GQ2 sh -> GQ sh' -> sh_q sh = x :: sh_q sh' ->
  (forall id cl k, snd x <> SelectBackend id cl k) -> (forall id a, snd x <> OpenUpstream id a) ->
  sh_mgr sh' = sh_mgr sh -> sh_ifc sh' = sh_ifc sh ->
  (forall id, In id (flows_of (sh_socks sh)) -> In id (flows_of (sh_socks sh'))) ->
  (forall s', In s' (sh_socks sh') -> exists s, In s (sh_socks sh) /\ s_flow s = s_flow s' /\ s_inc s = s_inc s' /\ s_key s = s_key s') ->
  GQ2 sh'.
Proof.
  intros [HG HN HO] HG' Eq Hns Hno Em Ei Hfl Hso. constructor; auto.
  - rewrite Em, Ei. rewrite Eq in HN. eapply Ncl_socks; [exact Hfl|].
    eapply Ncl_drop; [exact HN| |].
    + intros id cl k E. exfalso. eapply Hns; eauto.
    + intros id a E. exfalso. eapply Hno; eauto.
  - rewrite Em. intros s' f Hs' Hf Hi. destruct (Hso s' Hs') as (s & Hs & A & B & C).
    rewrite <- C. apply (HO s f Hs); congruence.
Qed.

Lemma GQ2_call_drop sh now i x q' :
  GQ2 sh -> sh_q sh = x :: q' -> is_cfg i = false -> is_client i = false ->
  (forall id cl k, snd x = SelectBackend id cl k ->
     match sget (m_flows (fst (step hash (sh_mgr sh) now i))) id with Some f => f_backend_addr f <> None | None => True end) ->
  (forall id a, snd x = OpenUpstream id a -> sget (m_flows (fst (step hash (sh_mgr sh) now i))) id = None) ->
  GQ (call_mgr hash (with_mgr_q sh (sh_mgr sh) q') now i) ->
  GQ2 (call_mgr hash (with_mgr_q sh (sh_mgr sh) q') now i).
Proof.
  intros [HG HN HO] Eq Hc Hcl Hsel Hop HG'. pose proof (g_inv _ HG) as HI.
  pose proof (Ncl_call (sh_mgr sh) (sh_socks sh) (sh_ifc sh) (sh_q sh) now i HI HN Hc) as HN'.
  pose proof (Ocl_call (sh_mgr sh) (sh_socks sh) now i HI HO) as HO'.
  destruct (step_forward hash (sh_mgr sh) now i HI) as (_ & _ & F3).
  unfold call_mgr in *. cbn [sh_mgr with_mgr_q sh_q] in *.
  destruct (step hash (sh_mgr sh) now i) as [m' o] eqn:Es. cbn [fst snd] in *.
  constructor; cbn [sh_mgr sh_q sh_socks sh_ifc with_mgr_q].
  - exact HG'.
  - rewrite Eq in HN'. cbn [app] in HN'. eapply Ncl_drop; [apply HN'; intros src p E; subst i; discriminate| |].
    + intros id cl k E. specialize (Hsel id cl k E). destruct (sget (m_flows m') id); auto.
    + intros id a E. rewrite (Hop id a E). exact I.
  - apply HO'. intros s Hs Hn. apply F3; auto.
Qed.

Lemma close_socks tk sh id x :
  NoDup (map s_tok (sh_socks sh)) -> NoDup (flows_of (sh_socks sh)) ->
  In x (sh_socks (fst (on_close_flow tk sh id))) -> In x (sh_socks sh).
Proof.
  intros _ _. unfold on_close_flow. destruct (sock_of_flow (sh_socks sh) id) as [s|]; cbn [fst sh_socks]; auto.
  intros H. apply In_remove_tok in H. apply H.
Qed.

Lemma close_keeps_others tk sh id x :
  NoDup (map s_tok (sh_socks sh)) -> NoDup (flows_of (sh_socks sh)) ->
  In x (sh_socks sh) -> s_flow x <> id -> In x (sh_socks (fst (on_close_flow tk sh id))).
Proof.
  intros Hnd Hfl Hx Hne. unfold on_close_flow. destruct (sock_of_flow (sh_socks sh) id) as [s|] eqn:Es; cbn [fst sh_socks]; auto.
  destruct (sock_of_flow_In _ _ _ Es) as (Hs & Hf). apply In_remove_tok. split; [exact Hx|].
  intros E. apply Hne. rewrite <- Hf. f_equal. apply (nodup_map_inj s_tok _ _ _ Hnd Hx Hs E).
Qed.

Lemma GQ2_process sh sched now e lo q' :
  GQ2 sh -> sh_q sh = lo :: q' ->
  GQ2 (fst (fst (process hash true (with_mgr_q sh (sh_mgr sh) q') sched now e lo))).
Proof.
  intros H2 Eq. pose proof (q_gq _ H2) as HG. pose proof (GQ_process hash sh sched now e lo q' HG Eq) as HG'.
  pose proof (g_inv _ HG) as HI. destruct lo as [l x]. unfold process in *. cbn [snd fst] in *.
  assert (forall sh1, GQ sh1 -> sh_q sh1 = q' -> sh_mgr sh1 = sh_mgr sh -> sh_ifc sh1 = sh_ifc sh ->
            (forall id cl k, x <> SelectBackend id cl k) -> (forall id a, x <> OpenUpstream id a) ->
            (forall id, In id (flows_of (sh_socks sh)) -> In id (flows_of (sh_socks sh1))) ->
            (forall s', In s' (sh_socks sh1) -> exists s, In s (sh_socks sh) /\ s_flow s = s_flow s' /\ s_inc s = s_inc s' /\ s_key s = s_key s') ->
            GQ2 sh1) as Hsame.
  { intros sh1 G1 E1 E2 E3 A B C D. apply (GQ2_same sh sh1 (l, x)); auto. rewrite Eq, E1. reflexivity. }
  assert (forall sh1, sh_socks sh1 = sh_socks sh ->
            (forall id, In id (flows_of (sh_socks sh)) -> In id (flows_of (sh_socks sh1))) /\
            (forall s', In s' (sh_socks sh1) -> exists s, In s (sh_socks sh) /\ s_flow s = s_flow s' /\ s_inc s = s_inc s' /\ s_key s = s_key s')) as Hid.
  { intros sh1 E. rewrite E. split; auto. intros s' Hs'. exists s'. auto. }
  destruct x as [id cl key|id b|d p|d p|d|mm|id|r]; cbn [fst] in *.
  - (* SelectBackend: resolve or abort, at once *)
    destruct (e_resolve e) as [[bid a]|]; cbn [fst] in *.
    + apply (GQ2_call_drop sh now _ (l, SelectBackend id cl key) q'); auto.
      * intros id0 cl0 k0 E. inv E. apply (resolved_settles (sh_mgr sh) now id0 bid a HI).
      * intros id0 a0 E. discriminate.
    + apply (GQ2_call_drop sh now _ (l, SelectBackend id cl key) q'); auto.
      * intros id0 cl0 k0 E. inv E. rewrite (abort_gone (sh_mgr sh) now id0 HI). exact I.
      * intros id0 a0 E. discriminate.
  - (* OpenUpstream *)
    unfold on_open_upstream in *. destruct (negb (e_connect e)); cbn [fst] in *.
    + apply (GQ2_call_drop sh now _ (l, OpenUpstream id b) q'); auto.
      * intros id0 cl0 k0 E. discriminate.
      * intros id0 a0 E. inv E. apply (abort_gone (sh_mgr sh) now id0 HI).
    + destruct H2 as [_ HN HO]. pose proof (g_po _ HG) as go. rewrite Eq in go. cbn in go.
      destruct go as ((Hnf & (i & El & Hlive) & Hno) & _). cbn in El. subst l.
      cbn [sh_slab with_mgr_q sh_socks sh_mgr sh_q sh_ifc sh_endp sh_key2f client_key] in *.
      destruct (sinsert (sh_slab sh) tt) as [slab' tok]. cbn [fst] in *.
      constructor; cbn [sh_mgr sh_q sh_socks sh_ifc]; auto.
      * rewrite Eq in HN. eapply Ncl_drop.
        -- eapply Ncl_socks; [|exact HN]. intros id0 Hin. right. exact Hin.
        -- intros id0 cl0 k0 E. discriminate.
        -- intros id0 a0 E. inv E. destruct (sget (m_flows (sh_mgr sh)) id0); auto. left. reflexivity.
      * intros s f [<-|Hs] Hf Hi; cbn [s_flow s_inc s_key] in *; [|apply (HO s f Hs Hf Hi)].
        destruct (HN _ _ Hf Hnf) as ((src & Es & Hk) & _). rewrite Es. rewrite Hk. reflexivity.
  - (* SendToBackend *)
    unfold on_send_to_backend in *.
    set (sh0 := with_mgr_q sh (sh_mgr sh) q') in *.
    destruct (match sh_iff sh0 with Some f => Some f | None => _ end) as [f|];
      [|destruct (Hid sh0 eq_refl); apply Hsame; auto; discriminate].
    destruct (sock_of_flow (sh_socks sh0) f) as [s0|]; [|destruct (Hid sh0 eq_refl); apply Hsame; auto; discriminate].
    destruct (sock_of_tok (sh_socks sh0) (s_tok s0)) as [s|] eqn:Es; [|destruct (Hid sh0 eq_refl); apply Hsame; auto; discriminate].
    assert (forall q2, GQ (with_socks sh0 (set_sock (sh_socks sh0) (mksock (s_tok s) (s_flow s) (s_backend s) q2 (s_inc s) (s_key s)))) ->
              GQ2 (with_socks sh0 (set_sock (sh_socks sh0) (mksock (s_tok s) (s_flow s) (s_backend s) q2 (s_inc s) (s_key s))))) as Hset.
    { intros q2 G1. set (s2 := mksock (s_tok s) (s_flow s) (s_backend s) q2 (s_inc s) (s_key s)) in *.
      apply Hsame; auto; try discriminate.
      - intros id0 Hin. cbn [with_socks sh_socks].
        rewrite (set_sock_flows (sh_socks sh0) (s_tok s0) s s2 Es eq_refl eq_refl). exact Hin.
      - intros s' Hs'. cbn [with_socks sh_socks] in Hs'.
        destruct (set_sock_in (sh_socks sh0) (s_tok s0) s s2 s' Es eq_refl Hs') as [->|Hin].
        + exists s. destruct (sock_of_tok_In _ _ _ Es). auto.
        + exists s'. auto. }
    destruct (match s_q s with Some q => negb (wq_is_empty q) | None => false end).
    + destruct (s_q s) as [q|]; [|destruct (Hid sh0 eq_refl); apply Hsame; auto; discriminate].
      destruct (wq_push q d p) as [q2 ok]. cbn [fst] in *. apply Hset. exact HG'.
    + destruct (next_outcome sched) as [o sched']. destruct o; cbn [fst] in *;
        try (destruct (Hid sh0 eq_refl); apply Hsame; auto; discriminate).
      destruct (wq_push _ d p) as [q2 ok]. cbn [fst] in *. apply Hset. exact HG'.
  - (* SendToClient *)
    unfold on_send_to_client in *. destruct (negb (wq_is_empty _)).
    + destruct (wq_push _ d p) as [q2 ok]. cbn [fst] in *.
      match goal with |- GQ2 ?s1 => destruct (Hid s1 eq_refl) end. apply Hsame; auto; discriminate.
    + destruct (next_outcome sched) as [o s']. destruct o; cbn [fst] in *.
      * match goal with |- GQ2 ?s1 => destruct (Hid s1 eq_refl) end. apply Hsame; auto; discriminate.
      * destruct (wq_push _ d p) as [q2 ok]. cbn [fst] in *.
        match goal with |- GQ2 ?s1 => destruct (Hid s1 eq_refl) end. apply Hsame; auto; discriminate.
      * match goal with |- GQ2 ?s1 => destruct (Hid s1 eq_refl) end. apply Hsame; auto; discriminate.
  - match goal with |- GQ2 ?s1 => destruct (Hid s1 eq_refl) end. apply Hsame; auto; discriminate.
  - match goal with |- GQ2 ?s1 => destruct (Hid s1 eq_refl) end. apply Hsame; auto; discriminate.
  - (* CloseFlow: only the socket of a dead flow goes away *)
    destruct (g_bi _ HG) as (_ & Hnd & _ & _). pose proof (g_flows _ HG) as Hfl.
    assert (sget (m_flows (sh_mgr sh)) id = None) as Hdead.
    { destruct l as [i|]; [apply (g_pc _ HG i id); rewrite Eq; left; reflexivity|].
      exfalso. apply (g_lbl _ HG id). rewrite Eq. left. reflexivity. }
    set (sh0 := with_mgr_q sh (sh_mgr sh) q') in *.
    pose proof (close_socks true sh0 id) as Hsub. pose proof (close_keeps_others true sh0 id) as Hkeep.
    destruct (on_close_flow true sh0 id) as [sh1 w] eqn:Ec. cbn [fst] in *.
    assert (sh_mgr sh1 = sh_mgr sh /\ sh_q sh1 = q' /\ sh_ifc sh1 = sh_ifc sh) as (E1 & E2 & E3).
    { unfold on_close_flow in Ec. destruct (sock_of_flow (sh_socks sh0) id); inv Ec; auto. }
    destruct H2 as [_ HN HO]. constructor; auto.
    + rewrite E1, E2, E3. rewrite Eq in HN. intros id0 f Hf Hns.
      assert (id0 <> id) as Hne by (intros ->; congruence).
      assert (~ In id0 (flows_of (sh_socks sh))) as Hns0.
      { intros Hin. apply Hns. unfold flows_of in *. apply in_map_iff in Hin. destruct Hin as (y & Ey & Hy).
        rewrite <- Ey. apply in_map. apply Hkeep; auto. congruence. }
      destruct (HN _ _ Hf Hns0) as (A & Hp). split; [exact A|].
      destruct Hp as [(Hb & l0 & cl & k & [E|Hin])|(l0 & a & [E|Hin])]; try discriminate; [left|right]; eauto 10.
    + rewrite E1. intros s f Hs Hf Hi. apply (HO s f); auto.
  - match goal with |- GQ2 ?s1 => destruct (Hid s1 eq_refl) end. apply Hsame; auto; discriminate.
Qed.


Lemma GQ2_drain fuel : forall sh sched now e,
  GQ2 sh -> GQ2 (fst (fst (drain hash true fuel sh sched now e))).
Proof.
  induction fuel as [|fuel IH]; intros sh sched now e HG; cbn; [exact HG|].
  destruct (sh_q sh) as [|lo q'] eqn:Eq; [exact HG|].
  pose proof (GQ2_process sh sched now e lo q' HG Eq) as H1.
  destruct (process hash true (with_mgr_q sh (sh_mgr sh) q') sched now e lo) as [[sh1 sched1] w1].
  specialize (IH sh1 sched1 now e H1).
  destruct (drain hash true fuel sh1 sched1 now e) as [[sh2 sched2] w2]. exact IH.
Qed.

Lemma Ncl_nil_any m socks ifc ifc' : Ncl m socks ifc [] -> Ncl m socks ifc' [].
Proof.
  intros HN id f Hf Hns. destruct (HN _ _ Hf Hns) as (_ & [(_ & l & cl & k & [])|(l & a & [])]).
Qed.

(** the first call of an event, from a state at rest *)
Lemma GQ2_call0 sh now i :
  GQ2 sh -> sh_q sh = [] -> (forall src p, i = IClient src p -> sh_ifc sh = Some src) ->
  GQ2 (call_mgr hash sh now i).
Proof.
  intros [HG HN HO] Hq Hifc. pose proof (g_inv _ HG) as HI.
  assert (GQ (call_mgr hash sh now i)) as HG' by (apply GQ_call; auto).
  assert (forall s, In s (sh_socks sh) -> sget (m_flows (sh_mgr sh)) (s_flow s) <> None) as Hlive.
  { intros s Hs. destruct (g_sock _ HG s Hs) as [(f & Hf & _)|H]; [congruence|]. rewrite Hq in H. destruct H. }
  destruct (is_cfg i) eqn:Hc.
  - (* a configuration push: flows untouched, nothing queued *)
    assert (m_flows (fst (step hash (sh_mgr sh) now i)) = m_flows (sh_mgr sh) /\ snd (step hash (sh_mgr sh) now i) = []) as (Ef & Eo).
    { destruct i; try discriminate; cbn; auto. }
    unfold call_mgr in *. destruct (step hash (sh_mgr sh) now i) as [m' o]. cbn [fst snd] in *. subst o.
    constructor; cbn [sh_mgr sh_q sh_socks sh_ifc with_mgr_q]; auto.
    + rewrite Hq in *. cbn. intros id f Hf Hns. rewrite Ef in Hf.
      destruct (HN _ _ Hf Hns) as (_ & [(_ & l & cl & k & [])|(l & a & [])]).
    + intros s f Hs Hf Hi. rewrite Ef in Hf. apply (HO s f); auto.
  - pose proof (Ncl_call (sh_mgr sh) (sh_socks sh) (sh_ifc sh) (sh_q sh) now i HI HN Hc Hifc) as HN'.
    pose proof (Ocl_call (sh_mgr sh) (sh_socks sh) now i HI HO) as HO'.
    unfold call_mgr in *. destruct (step hash (sh_mgr sh) now i) as [m' o]. cbn [fst snd] in *.
    constructor; cbn [sh_mgr sh_q sh_socks sh_ifc with_mgr_q]; auto.
    apply HO'. intros s Hs Hn. exfalso. apply (Hlive s Hs Hn).
Qed.

Lemma GQ2_fields sh sh' :
  GQ2 sh -> GQ sh' -> sh_mgr sh' = sh_mgr sh -> sh_q sh' = sh_q sh -> sh_socks sh' = sh_socks sh ->
  sh_ifc sh' = sh_ifc sh \/ sh_q sh = [] -> GQ2 sh'.
Proof.
  intros [HG HN HO] HG' E1 E2 E3 Ei. constructor; auto.
  - rewrite E1, E2, E3. destruct Ei as [->|Hq]; [exact HN|]. rewrite Hq in *. eapply Ncl_nil_any; eauto.
  - rewrite E1, E3. exact HO.
Qed.

Lemma GQ2_step sh now e sched ev :
  GQ2 sh -> sh_q sh = [] -> GQ2 (fst (shell_step hash true sh now e sched ev)).
Proof.
  intros H2 Hq. pose proof (q_gq _ H2) as HG.
  pose proof (GQ_step hash sh now e sched ev HG Hq) as HGs.
  pose proof (shell_step_at_rest hash true sh now e sched ev Hq) as Hrest.
  destruct ev as [src p|tok p|tok| | | |i]; cbn [shell_step] in *.
  - set (sha := with_inflight sh (Some src) None) in *.
    assert (GQ2 sha) as H2a.
    { apply (GQ2_fields sh); auto. eapply GQ_fields; [exact HG| | | | | | | |]; reflexivity. }
    assert (GQ2 (call_mgr hash sha now (IClient src p))) as H2c.
    { apply GQ2_call0; auto. intros s0 p0 E. inv E. reflexivity. }
    unfold full_drain in *.
    match goal with |- context [drain hash true ?f ?s sched now e] =>
      pose proof (GQ2_drain f s sched now e H2c) as H; destruct (drain hash true f s sched now e) as [[sh2 s2] w] end.
    cbn [fst] in *. apply (GQ2_fields sh2); auto.
  - destruct (sock_of_tok (sh_socks sh) tok) as [s|]; [|exact H2]. unfold full_drain in *.
    assert (GQ2 (call_mgr hash sh now (IBackend (s_flow s) p))) as H2c by (apply GQ2_call0; auto; intros; discriminate).
    match goal with |- context [drain hash true ?f ?s0 sched now e] =>
      pose proof (GQ2_drain f s0 sched now e H2c) as H; destruct (drain hash true f s0 sched now e) as [[sh2 s2] w] end.
    exact H.
  - destruct (sock_of_tok (sh_socks sh) tok) as [s|] eqn:Es; [|exact H2].
    destruct (s_q s) as [q|]; [|exact H2].
    destruct (wq_drain_items (wq_items q) sched) as [[rest sent] s']. cbn [fst] in *.
    match goal with |- GQ2 (with_socks sh (set_sock _ ?s2)) => set (sx := s2) in * end.
    destruct H2 as [_ HN HO]. constructor; auto; cbn [with_socks sh_mgr sh_q sh_socks sh_ifc].
    + eapply Ncl_socks; [|exact HN]. intros id0 Hin.
      rewrite (set_sock_flows (sh_socks sh) tok s sx Es eq_refl eq_refl). exact Hin.
    + intros s1 f Hs1 Hf Hi.
      destruct (set_sock_in (sh_socks sh) tok s sx s1 Es eq_refl Hs1) as [->|Hin].
      * destruct (sock_of_tok_In _ _ _ Es) as (Hs & _). apply (HO s f Hs Hf Hi).
      * apply (HO s1 f Hin Hf Hi).
  - destruct (wq_drain_items (wq_items (sh_clq sh)) sched) as [[rest sent] s']. cbn [fst] in *.
    apply (GQ2_fields sh); auto.
  - set (sha := with_timer sh None) in *.
    assert (GQ2 sha) as H2a.
    { apply (GQ2_fields sh); auto. eapply GQ_fields; [exact HG| | | | | | | |]; reflexivity. }
    assert (GQ2 (call_mgr hash sha now ITimeout)) as H2c by (apply GQ2_call0; auto; intros; discriminate).
    unfold full_drain in *.
    match goal with |- context [drain hash true ?f ?s0 sched now e] =>
      pose proof (GQ2_drain f s0 sched now e H2c) as H; destruct (drain hash true f s0 sched now e) as [[sh2 s2] w] end.
    exact H.
  - assert (GQ2 (call_mgr hash sh now ICloseAll)) as H2c by (apply GQ2_call0; auto; intros; discriminate).
    unfold full_drain in *.
    match goal with |- context [drain hash true ?f ?s0 sched now e] =>
      pose proof (GQ2_drain f s0 sched now e H2c) as H; destruct (drain hash true f s0 sched now e) as [[sh2 s2] w] end.
    cbn [fst] in *. apply (GQ2_fields sh2); auto.
  - destruct i; try exact H2;
    match goal with |- context [call_mgr hash sh now ?ii] =>
      assert (GQ2 (call_mgr hash sh now ii)) as H2c by (apply GQ2_call0; auto; intros; discriminate) end;
    unfold full_drain in *;
    match goal with |- context [drain hash true ?f ?s0 sched now e] =>
      pose proof (GQ2_drain f s0 sched now e H2c) as H; destruct (drain hash true f s0 sched now e) as [[sh2 s2] w] end;
    exact H.
Qed.

Lemma GQ2_new c mf mrx a : GQ2 (shell_new (mgr_new c mf mrx) a).
Proof.
  constructor.
  - apply GQ_new.
  - intros id f H. unfold sget in H. cbn in H. destruct id; discriminate.
  - intros s f [].
Qed.

End Sticky.
