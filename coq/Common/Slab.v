(** Exact model of the [slab] crate (0.4.x) as used by
    [lib/src/protocol/udp/manager.rs]: a vector of entries, each [Occupied v]
    or [Vacant next], and the head [next] of the free list.  [insert] takes the
    head of the free list (or pushes when the list is empty), [remove] pushes
    the freed slot on the free list, so the keys handed out coincide with the
    implementation's [FlowId]s.

    slab-0.4.12/src/lib.rs: [insert] (l.1029), [insert_at] (l.1091),
    [try_remove] (l.1123), [get], [iter] (ascending index, occupied only). *)
From Coq Require Import List Arith Lia Bool.
Import ListNotations.

Set Implicit Arguments.

Section Slab.
Variable T : Type.

Inductive entry := Occ (v : T) | Vac (next : nat).

Record slab := mkslab { s_entries : list entry; s_next : nat }.

Definition sempty : slab := mkslab [] 0.

Fixpoint upd (l : list entry) (k : nat) (e : entry) : list entry :=
  match l, k with
  | [], _ => []
  | _ :: l', O => e :: l'
  | x :: l', S k' => x :: upd l' k' e
  end.

Definition sget (s : slab) (k : nat) : option T :=
  match nth_error (s_entries s) k with
  | Some (Occ v) => Some v
  | _ => None
  end.

Definition scontains (s : slab) (k : nat) : bool :=
  match sget s k with Some _ => true | None => false end.

(** [Slab::insert]: returns the new slab and the key. The last arm is the
    crate's [unreachable!()]; [slab_wf] excludes it. *)
Definition sinsert (s : slab) (v : T) : slab * nat :=
  let key := s_next s in
  if Nat.eqb key (length (s_entries s)) then
    (mkslab (s_entries s ++ [Occ v]) (S key), key)
  else
    match nth_error (s_entries s) key with
    | Some (Vac n) => (mkslab (upd (s_entries s) key (Occ v)) n, key)
    | _ => (s, key)
    end.

(** [Slab::try_remove] (the manager only removes keys it has just looked up). *)
Definition sremove (s : slab) (k : nat) : slab :=
  match nth_error (s_entries s) k with
  | Some (Occ _) => mkslab (upd (s_entries s) k (Vac (s_next s))) k
  | _ => s
  end.

(** [get_mut] followed by an in-place update. *)
Definition sset (s : slab) (k : nat) (v : T) : slab :=
  match nth_error (s_entries s) k with
  | Some (Occ _) => mkslab (upd (s_entries s) k (Occ v)) (s_next s)
  | _ => s
  end.

(** [Slab::iter]: occupied entries in ascending key order. *)
Fixpoint items_from (l : list entry) (k : nat) : list (nat * T) :=
  match l with
  | [] => []
  | Occ v :: l' => (k, v) :: items_from l' (S k)
  | Vac _ :: l' => items_from l' (S k)
  end.

Definition sitems (s : slab) : list (nat * T) := items_from (s_entries s) 0.

Definition slen (s : slab) : nat := length (sitems s).

(* ------------------------------------------------------------------ *)
(** Well-formedness: the free list starting at [s_next] is a duplicate-free
    chain of vacant entries that ends at [length entries]. *)

Inductive free_chain (es : list entry) : nat -> list nat -> Prop :=
| fc_nil : free_chain es (length es) []
| fc_cons k n l : nth_error es k = Some (Vac n) -> free_chain es n l -> free_chain es k (k :: l).

Definition slab_wf (s : slab) : Prop :=
  exists l, NoDup l /\ free_chain (s_entries s) (s_next s) l.

Lemma sempty_wf : slab_wf sempty.
Proof. exists []. split; [constructor|]. apply (fc_nil []). Qed.

Lemma upd_length l k e : length (upd l k e) = length l.
Proof. revert k; induction l as [|x l IH]; intros [|k]; cbn; auto. Qed.

Lemma nth_upd_same l k e : k < length l -> nth_error (upd l k e) k = Some e.
Proof.
  revert k; induction l as [|x l IH]; intros [|k] H; cbn in *; try lia; auto.
  apply IH; lia.
Qed.

Lemma nth_upd_other l k j e : j <> k -> nth_error (upd l k e) j = nth_error l j.
Proof.
  revert k j; induction l as [|x l IH]; intros [|k] [|j] H; cbn; auto; try congruence.
Qed.

Lemma nth_app_same (l : list entry) e : nth_error (l ++ [e]) (length l) = Some e.
Proof. rewrite nth_error_app2 by lia. rewrite Nat.sub_diag. reflexivity. Qed.

Lemma nth_app_other (l : list entry) e j : j <> length l -> nth_error (l ++ [e]) j = nth_error l j.
Proof.
  intros H. destruct (Nat.lt_ge_cases j (length l)) as [Hl|Hl].
  - apply nth_error_app1; auto.
  - rewrite nth_error_app2 by lia.
    assert (nth_error l j = None) as -> by (apply nth_error_None; lia).
    destruct (j - length l) as [|d] eqn:E; [lia|]. cbn. destruct d; reflexivity.
Qed.

Lemma free_chain_vac es k l : free_chain es k l -> forall j, In j l -> exists n, nth_error es j = Some (Vac n).
Proof.
  induction 1 as [|k n l Hk Hc IH]; intros j Hj; [destruct Hj|].
  destruct Hj as [<-|Hj]; eauto.
Qed.

Lemma free_chain_upd es k l j e :
  free_chain es k l -> ~ In j l -> free_chain (upd es j e) k l.
Proof.
  intros Hc. induction Hc as [|k n l Hk Hc IH]; intros Hj.
  - rewrite <- (upd_length es j e). constructor.
  - econstructor.
    + rewrite nth_upd_other; [exact Hk|]. intros ->. apply Hj. left; reflexivity.
    + apply IH. intros H; apply Hj; right; exact H.
Qed.

Lemma free_chain_inv es k l :
  free_chain es k l ->
  (k = length es /\ l = []) \/
  (exists n l', l = k :: l' /\ nth_error es k = Some (Vac n) /\ free_chain es n l').
Proof. destruct 1; [left; auto | right; eauto]. Qed.

(** Specification of the operations under [slab_wf]. *)

Lemma sget_lt s k v : sget s k = Some v -> k < length (s_entries s).
Proof.
  unfold sget. destruct (nth_error (s_entries s) k) eqn:E; [|discriminate].
  intros _. apply nth_error_Some. congruence.
Qed.

Lemma sinsert_key s v : snd (sinsert s v) = s_next s.
Proof.
  unfold sinsert. destruct (Nat.eqb _ _); [reflexivity|].
  destruct (nth_error _ _) as [[|]|]; reflexivity.
Qed.

Lemma sinsert_fresh s : slab_wf s -> sget s (s_next s) = None.
Proof.
  intros (l & _ & Hc). unfold sget.
  destruct (free_chain_inv Hc) as [[Hl _]|(n & l' & _ & Hk & _)].
  - assert (nth_error (s_entries s) (s_next s) = None) as E by (apply nth_error_None; lia).
    rewrite E. reflexivity.
  - rewrite Hk. reflexivity.
Qed.

Lemma sinsert_wf s v : slab_wf s -> slab_wf (fst (sinsert s v)).
Proof.
  intros (l & Hnd & Hc). unfold sinsert.
  destruct (Nat.eqb (s_next s) (length (s_entries s))) eqn:E.
  - apply Nat.eqb_eq in E. cbn. exists []. split; [constructor|].
    cbn. rewrite E.
    replace (S (length (s_entries s))) with (length (s_entries s ++ [Occ v]))
      by (rewrite app_length; cbn; lia).
    constructor.
  - apply Nat.eqb_neq in E.
    destruct (free_chain_inv Hc) as [[Hl _]|(n & l' & -> & Hk & Hc')]; [congruence|].
    rewrite Hk. cbn. exists l'. inversion Hnd; subst. split; [assumption|].
    apply free_chain_upd; auto.
Qed.

Lemma sget_sinsert s v k :
  slab_wf s ->
  sget (fst (sinsert s v)) k = if Nat.eqb k (s_next s) then Some v else sget s k.
Proof.
  intros (l & Hnd & Hc). unfold sinsert, sget.
  destruct (Nat.eqb (s_next s) (length (s_entries s))) eqn:E.
  - apply Nat.eqb_eq in E. cbn. destruct (Nat.eqb k (s_next s)) eqn:Ek.
    + apply Nat.eqb_eq in Ek. subst k. rewrite E, nth_app_same. reflexivity.
    + apply Nat.eqb_neq in Ek. rewrite nth_app_other by lia. reflexivity.
  - apply Nat.eqb_neq in E.
    destruct (free_chain_inv Hc) as [[Hl _]|(n & l' & -> & Hk & Hc')]; [congruence|].
    rewrite Hk. cbn.
    assert (s_next s < length (s_entries s)) as Hlt by (apply nth_error_Some; congruence).
    destruct (Nat.eqb k (s_next s)) eqn:Ek.
    + apply Nat.eqb_eq in Ek. subst k. rewrite nth_upd_same by assumption. reflexivity.
    + apply Nat.eqb_neq in Ek. rewrite nth_upd_other by assumption. reflexivity.
Qed.

Lemma sremove_wf s k : slab_wf s -> slab_wf (sremove s k).
Proof.
  intros Hwf. unfold sremove.
  destruct (nth_error (s_entries s) k) as [[v|n]|] eqn:Ek; auto.
  destruct Hwf as (l & Hnd & Hc).
  assert (k < length (s_entries s)) as Hlt by (apply nth_error_Some; congruence).
  assert (~ In k l) as Hnin.
  { intros Hin. destruct (free_chain_vac Hc _ Hin) as (n & Hn). congruence. }
  exists (k :: l). split; [constructor; assumption|]. cbn.
  econstructor.
  - apply nth_upd_same. assumption.
  - apply free_chain_upd; auto.
Qed.

Lemma sget_sremove s k j :
  sget (sremove s k) j = if Nat.eqb j k then None else sget s j.
Proof.
  unfold sremove, sget.
  destruct (nth_error (s_entries s) k) as [[v|n]|] eqn:Ek.
  - cbn. assert (k < length (s_entries s)) as Hlt by (apply nth_error_Some; congruence).
    destruct (Nat.eqb j k) eqn:Ej.
    + apply Nat.eqb_eq in Ej. subst j. rewrite nth_upd_same by assumption. reflexivity.
    + apply Nat.eqb_neq in Ej. rewrite nth_upd_other by assumption. reflexivity.
  - destruct (Nat.eqb j k) eqn:Ej; [|reflexivity].
    apply Nat.eqb_eq in Ej. subst j. rewrite Ek. reflexivity.
  - destruct (Nat.eqb j k) eqn:Ej; [|reflexivity].
    apply Nat.eqb_eq in Ej. subst j. rewrite Ek. reflexivity.
Qed.

Lemma sset_wf s k v : slab_wf s -> slab_wf (sset s k v).
Proof.
  intros Hwf. unfold sset.
  destruct (nth_error (s_entries s) k) as [[v0|n]|] eqn:Ek; auto.
  destruct Hwf as (l & Hnd & Hc).
  assert (k < length (s_entries s)) as Hlt by (apply nth_error_Some; congruence).
  assert (~ In k l) as Hnin.
  { intros Hin. destruct (free_chain_vac Hc _ Hin) as (n & Hn). congruence. }
  exists l. split; [assumption|]. cbn.
  apply free_chain_upd; auto.
Qed.

Lemma sget_sset s k v j :
  sget (sset s k v) j =
  if Nat.eqb j k then (match sget s k with Some _ => Some v | None => None end) else sget s j.
Proof.
  unfold sset, sget.
  destruct (nth_error (s_entries s) k) as [[v0|n]|] eqn:Ek.
  - cbn. assert (k < length (s_entries s)) as Hlt by (apply nth_error_Some; congruence).
    destruct (Nat.eqb j k) eqn:Ej.
    + apply Nat.eqb_eq in Ej. subst j. rewrite nth_upd_same by assumption. reflexivity.
    + apply Nat.eqb_neq in Ej. rewrite nth_upd_other by assumption. reflexivity.
  - destruct (Nat.eqb j k) eqn:Ej; [|reflexivity].
    apply Nat.eqb_eq in Ej. subst j. rewrite Ek. reflexivity.
  - destruct (Nat.eqb j k) eqn:Ej; [|reflexivity].
    apply Nat.eqb_eq in Ej. subst j. rewrite Ek. reflexivity.
Qed.

(** [sitems] lists exactly the occupied keys, ascending. *)
Lemma items_from_spec l k0 j v :
  In (j, v) (items_from l k0) <-> (k0 <= j /\ nth_error l (j - k0) = Some (Occ v)).
Proof.
  revert k0. induction l as [|e l IH]; intros k0; cbn.
  - split; [intros []|]. intros [_ H]. destruct (j - k0); discriminate.
  - destruct e as [v0|n]; cbn; rewrite ?IH.
    + split.
      * intros [H|[H1 H2]].
        -- inversion H; subst. rewrite Nat.sub_diag. split; [lia|reflexivity].
        -- split; [lia|]. replace (j - k0) with (S (j - S k0)) by lia. exact H2.
      * intros [H1 H2]. destruct (j - k0) as [|d] eqn:E.
        -- left. cbn in H2. inversion H2; subst. f_equal. lia.
        -- right. split; [lia|]. cbn in H2. replace (j - S k0) with d by lia. exact H2.
    + split.
      * intros [H1 H2]. split; [lia|]. replace (j - k0) with (S (j - S k0)) by lia. exact H2.
      * intros [H1 H2]. destruct (j - k0) as [|d] eqn:E; [discriminate|].
        split; [lia|]. cbn in H2. replace (j - S k0) with d by lia. exact H2.
Qed.

Lemma sitems_spec s j v : In (j, v) (sitems s) <-> sget s j = Some v.
Proof.
  unfold sitems, sget. rewrite items_from_spec. rewrite Nat.sub_0_r.
  split.
  - intros [_ H]. rewrite H. reflexivity.
  - intros H. split; [lia|]. destruct (nth_error (s_entries s) j) as [[v0|n]|]; congruence.
Qed.

Lemma items_from_sorted l k0 :
  forall i j, i < j -> forall a b, nth_error (items_from l k0) i = Some a ->
    nth_error (items_from l k0) j = Some b -> fst a < fst b.
Proof.
  revert k0. induction l as [|e l IH]; intros k0 i j Hij a b Ha Hb.
  - destruct i; discriminate.
  - destruct e as [v0|n]; cbn in *.
    + destruct j as [|j]; [lia|]. destruct i as [|i].
      * inversion Ha; subst. cbn in Hb. apply nth_error_In in Hb.
        destruct b as [jb vb]. apply items_from_spec in Hb. cbn. lia.
      * cbn in *. eapply (IH (S k0) i j); eauto; lia.
    + eapply IH; eauto.
Qed.

Lemma items_from_nodup l k0 : NoDup (map fst (items_from l k0)).
Proof.
  revert k0. induction l as [|e l IH]; intros k0; cbn; [constructor|].
  destruct e as [v0|n]; cbn; auto.
  constructor; auto. intros Hin. apply in_map_iff in Hin.
  destruct Hin as ((j, v) & Hj & Hin). cbn in Hj. subst j.
  apply items_from_spec in Hin. lia.
Qed.

Lemma sitems_nodup s : NoDup (map fst (sitems s)).
Proof. apply items_from_nodup. Qed.

End Slab.

Arguments Occ {T}.
Arguments Vac {T}.
Arguments sempty {T}.

(** Population count under the three mutators. *)
Section SlabLen.
Variable T : Type.

Lemma items_from_length (l : list (entry T)) k0 k1 :
  length (items_from l k0) = length (items_from l k1).
Proof.
  revert k0 k1. induction l as [|e l IH]; intros k0 k1; cbn; auto.
  destruct e; cbn; auto.
Qed.

Definition occ_n (e : option (entry T)) : nat :=
  match e with Some (Occ _) => 1 | _ => 0 end.

Lemma items_from_upd_length (l : list (entry T)) k e k0 :
  k < length l ->
  length (items_from (upd l k e) k0) + occ_n (nth_error l k) =
  length (items_from l k0) + occ_n (Some e).
Proof.
  revert k k0. induction l as [|x l IH]; intros [|k] k0 H; cbn in *; try lia.
  - destruct x, e; cbn; lia.
  - specialize (IH k (S k0) ltac:(lia)). destruct x; cbn; lia.
Qed.

Lemma items_from_app_length (l : list (entry T)) e k0 :
  length (items_from (l ++ [e]) k0) = length (items_from l k0) + occ_n (Some e).
Proof.
  revert k0. induction l as [|x l IH]; intros k0; cbn.
  - destruct e; reflexivity.
  - destruct x; cbn; rewrite IH; reflexivity.
Qed.

Lemma slen_sinsert (s : slab T) v : slab_wf s -> slen (fst (sinsert s v)) = S (slen s).
Proof.
  intros (l & Hnd & Hc). unfold sinsert, slen, sitems.
  destruct (Nat.eqb (s_next s) (length (s_entries s))) eqn:E.
  - cbn. rewrite items_from_app_length. cbn. lia.
  - apply Nat.eqb_neq in E.
    destruct (free_chain_inv Hc) as [[Hl _]|(n & l' & -> & Hk & Hc')]; [congruence|].
    rewrite Hk. cbn.
    assert (s_next s < length (s_entries s)) as Hlt by (apply nth_error_Some; congruence).
    pose proof (items_from_upd_length (s_entries s) (Occ v) 0 Hlt) as H.
    rewrite Hk in H. cbn in H. lia.
Qed.

Lemma slen_sremove (s : slab T) k v : sget s k = Some v -> S (slen (sremove s k)) = slen s.
Proof.
  unfold sget, sremove, slen, sitems.
  destruct (nth_error (s_entries s) k) as [[v0|n]|] eqn:Ek; try discriminate.
  intros _. cbn.
  assert (k < length (s_entries s)) as Hlt by (apply nth_error_Some; congruence).
  pose proof (items_from_upd_length (s_entries s) (Vac (s_next s)) 0 Hlt) as H.
  rewrite Ek in H. cbn in H. lia.
Qed.

Lemma slen_sset (s : slab T) k v : slen (sset s k v) = slen s.
Proof.
  unfold sset, slen, sitems.
  destruct (nth_error (s_entries s) k) as [[v0|n]|] eqn:Ek; auto.
  cbn.
  assert (k < length (s_entries s)) as Hlt by (apply nth_error_Some; congruence).
  pose proof (items_from_upd_length (s_entries s) (Occ v) 0 Hlt) as H.
  rewrite Ek in H. cbn in H. lia.
Qed.

Lemma upd_upd (l : list (entry T)) k a b : upd (upd l k a) k b = upd l k b.
Proof. revert k; induction l as [|x l IH]; intros [|k]; cbn; auto. rewrite IH. reflexivity. Qed.

Lemma sremove_sset (s : slab T) k v : sremove (sset s k v) k = sremove s k.
Proof.
  unfold sremove, sset.
  destruct (nth_error (s_entries s) k) as [[v0|n]|] eqn:Ek; cbn; rewrite ?Ek; auto.
  assert (k < length (s_entries s)) as Hlt by (apply nth_error_Some; congruence).
  rewrite nth_upd_same by assumption. rewrite upd_upd. reflexivity.
Qed.

Lemma slen_zero (s : slab T) : (forall k, sget s k = None) -> sitems s = [].
Proof.
  intros H. destruct (sitems s) as [|[k v] l] eqn:E; auto.
  assert (In (k, v) (sitems s)) as Hin by (rewrite E; left; reflexivity).
  apply sitems_spec in Hin. rewrite H in Hin. discriminate.
Qed.

End SlabLen.
