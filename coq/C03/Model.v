(** C03 — request boundaries.

    (a) [strict_h1]: a STRICT reference reader for RFC 9112 messages, written
        for clarity (it mirrors no code): request-line, token field names, no
        obs-fold, no bare CR/LF, exactly one Host, Content-Length xor
        Transfer-Encoding: chunked, chunked framing without extensions.
    (b) [accept_h2]: mirrors [lib/src/protocol/mux/pkawa.rs] [handle_header] for
        a request: [classify_invalid_h2_header], the pseudo-header state
        machine ([store_pseudo_header]), [:path] forms, host vs [:authority],
        content-length syntax/duplicates ([write_regular_header],
        [set_content_length]), END_STREAM reconciliation, injected framing.
    (c) [serialize_h1]: kawa's H1 block converter on what (b) produced.
    (d) [data_agree]: the Content-Length / DATA ledger of
        [mux/h2.rs::handle_data_frame] and the trailer path.
    (e) [accept_trailers] / [serialize_trailers]: [pkawa::handle_trailer] on a
        request trailer block and what kawa's H1 converter writes for it.
    (f) [park]: the rule of [mux/h1.rs::ConnectionH1::end_stream] deciding
        whether an HTTP/1.1 backend connection is kept for the next request.
    No proofs in this file. *)
From Coq Require Import List NArith Bool String Ascii.
From SV Require Import C13.Model.
Import ListNotations.
Open Scope string_scope.
Open Scope list_scope.
Open Scope N_scope.

Definition crlf : list N := [13; 10].

(* ------------------------------------------------------------------ *)
(** * (a) strict reader *)

(** RFC 9110 tchar (same table as pkawa's [is_tchar]) *)
Definition is_digit (b : N) : bool := (48 <=? b) && (b <=? 57).
Definition is_alpha (b : N) : bool := ((65 <=? b) && (b <=? 90)) || ((97 <=? b) && (b <=? 122)).
Definition is_tchar (b : N) : bool :=
  is_digit b || is_alpha b || existsb (N.eqb b) (B "!#$%&'*+-.^_`|~").

(** field-value bytes: HTAB, SP, VCHAR, obs-text *)
Definition is_vbyte (b : N) : bool := (b =? 9) || ((32 <=? b) && (b <=? 126)) || (128 <=? b).
(** request-target bytes: no CTL, no SP (bytes >= 0x80 tolerated: they delimit nothing) *)
Definition is_target_byte (b : N) : bool := (33 <=? b) && negb (b =? 127).

(** the bytes up to the first CR LF; a bare CR or LF is an error *)
Fixpoint take_line (s : list N) : option (list N * list N) :=
  match s with
  | [] => None
  | b :: r =>
    if b =? 13 then match r with 10 :: r' => Some ([], r') | _ => None end
    else if b =? 10 then None
    else match take_line r with Some (l, r') => Some (b :: l, r') | None => None end
  end.

Definition parse_field (line : list N) : option header :=
  let '(name, r) := span is_tchar line in
  match name, r with
  | _ :: _, 58 :: v => if forallb is_vbyte v then Some (name, trim_ows v) else None
  | _, _ => None
  end.

Fixpoint read_headers (fuel : nat) (s : list N) : option (list header * list N) :=
  match fuel with
  | O => None
  | S f =>
    match take_line s with
    | None => None
    | Some ([], r) => Some ([], r)
    | Some (line, r) =>
      match parse_field line with
      | None => None
      | Some h => match read_headers f r with Some (hs, r') => Some (h :: hs, r') | None => None end
      end
    end
  end.

Definition values_of (n : list N) (hs : list header) : list (list N) :=
  map snd (filter (fun h => eq_nc (fst h) n) hs).

Fixpoint dec_value (acc : N) (s : list N) : N :=
  match s with [] => acc | b :: t => dec_value (acc * 10 + (b - 48)) t end.

Inductive framing := FLen (n : N) | FChunked.

Definition all_same (l : list (list N)) : bool :=
  match l with [] => true | x :: t => forallb (beq x) t end.

Definition framing_of (hs : list header) : option framing :=
  let cls := values_of (B "content-length") hs in
  let tes := values_of (B "transfer-encoding") hs in
  match tes, cls with
  | [], [] => Some (FLen 0)
  | [], c :: _ =>
    if forallb (fun v => negb (match v with [] => true | _ => false end) && forallb is_digit v) cls && all_same cls
    then Some (FLen (dec_value 0 c)) else None
  | [t], [] => if eq_nc t (B "chunked") then Some FChunked else None
  | _, _ => None
  end.

Definition hex_val (b : N) : option N :=
  if is_digit b then Some (b - 48)
  else if (97 <=? b) && (b <=? 102) then Some (b - 87)
  else if (65 <=? b) && (b <=? 70) then Some (b - 55) else None.

Fixpoint hex_value (acc : N) (s : list N) : option N :=
  match s with
  | [] => Some acc
  | b :: t => match hex_val b with Some d => hex_value (acc * 16 + d) t | None => None end
  end.

Fixpoint take_n (n : nat) (s : list N) : option (list N * list N) :=
  match n, s with
  | O, _ => Some ([], s)
  | S k, b :: t => match take_n k t with Some (a, r) => Some (b :: a, r) | None => None end
  | S _, [] => None
  end.

(** chunked body: size lines are 1*HEXDIG, no extensions *)
Fixpoint read_chunks (fuel : nat) (s : list N) : option (list N * list header * list N) :=
  match fuel with
  | O => None
  | S f =>
    match take_line s with
    | Some ((_ :: _) as l, r) =>
      match hex_value 0 l with
      | None => None
      | Some 0 =>
        match read_headers f r with Some (ts, r') => Some ([], ts, r') | None => None end
      | Some n =>
        match (if N.of_nat (List.length r) <? n then None else take_n (N.to_nat n) r) with
        | Some (d, 13 :: 10 :: r') =>
          match read_chunks f r' with Some (b, ts, r'') => Some (d ++ b, ts, r'') | None => None end
        | _ => None
        end
      end
    | _ => None
    end
  end.

Record request := mkreq {
  rq_method : list N; rq_target : list N; rq_host : list N;
  rq_headers : list header; rq_body : list N; rq_trailers : list header }.

Definition split_sp (s : list N) : list (list N) := split_on 32 s.

Definition read_request (fuel : nat) (s : list N) : option (request * list N) :=
  match take_line s with
  | None => None
  | Some (line, r) =>
    match split_sp line with
    | [m; t; v] =>
      if negb (match m with [] => true | _ => false end) && forallb is_tchar m &&
         negb (match t with [] => true | _ => false end) && forallb is_target_byte t &&
         (beq v (B "HTTP/1.1") || beq v (B "HTTP/1.0")) then
        match read_headers fuel r with
        | None => None
        | Some (hs, r1) =>
          match values_of (B "host") hs, framing_of hs with
          | [host], Some (FLen n) =>
            match (if N.of_nat (List.length r1) <? n then None else take_n (N.to_nat n) r1) with
            | Some (b, r2) => Some (mkreq m t host hs b [], r2)
            | None => None
            end
          | [host], Some FChunked =>
            match read_chunks fuel r1 with
            | Some (b, ts, r2) => Some (mkreq m t host hs b ts, r2)
            | None => None
            end
          | _, _ => None
          end
        end
      else None
    | _ => None
    end
  end.

Fixpoint strict_loop (fuel : nat) (s : list N) : option (list request) :=
  match s with
  | [] => Some []
  | _ =>
    match fuel with
    | O => None
    | S f =>
      match read_request (S (List.length s)) s with
      | None => None
      | Some (rq, r) => match strict_loop f r with Some l => Some (rq :: l) | None => None end
      end
    end
  end.

(** every byte is consumed or the whole input is refused *)
Definition strict_h1 (s : list N) : option (list request) := strict_loop (S (List.length s)) s.

(* ------------------------------------------------------------------ *)
(** * (a') what sozu's own callback refuses on the HTTP/1 frontend

    [editor.rs] [h1_framing_violation] + the method check of
    [on_request_headers]: run on the header blocks kawa's H1 parser hands over,
    before anything is forwarded; a violation is answered 400. *)

Definition is_nil {A} (l : list A) : bool := match l with [] => true | _ => false end.

Fixpoint guard_fields (te_seen : bool) (hs : list header) : bool :=
  match hs with
  | [] => true
  | (k, v) :: t =>
    if is_nil k || negb (forallb is_tchar k) then false
    else if eq_nc k (B "transfer-encoding") then
      if te_seen || negb (eq_nc v (B "chunked")) then false else guard_fields true t
    else if eq_nc k (B "content-length") then
      if is_nil v || negb (forallb is_digit v) then false else guard_fields te_seen t
    else guard_fields te_seen t
  end.

Definition h1_guard (method : list N) (hs : list header) : bool :=
  negb (is_nil method) && forallb is_tchar method && guard_fields false hs.

(* ------------------------------------------------------------------ *)
(** * (b) pkawa::handle_header, request side *)

Definition has_invalid_name_byte (n : list N) : bool :=
  existsb (fun b => is_upper b || negb (is_tchar b)) n.

Definition bad_value (v : list N) : bool := existsb bad_value_byte v.   (* 0x00-0x08, 0x0A-0x1F, 0x7F *)
Definition bad_pseudo_value (v : list N) : bool := existsb (fun b => (b <=? 32) || (b =? 127)) v.

(** [classify_invalid_h2_header] as a boolean *)
Definition invalid_h2_header (n v : list N) : bool :=
  match n with
  | [] => true
  | b0 :: _ =>
    (negb (b0 =? 58) && has_invalid_name_byte n) || conn_specific n ||
    (eq_nc n (B "te") && negb (eq_nc v (B "trailers"))) || bad_value v
  end.

Record hstate := mkh {
  h_method : option (list N); h_authority : option (list N);
  h_path : option (list N); h_scheme : option (list N);
  h_regular : bool; h_items : list item; h_jar : list header; h_cookies_added : bool;
  h_host : option (list N); h_host_conflict : bool;
  h_len : option N;                    (* BodySize::Length *)
  h_invalid : bool }.

Definition set_invalid (s : hstate) : hstate :=
  mkh (h_method s) (h_authority s) (h_path s) (h_scheme s) (h_regular s) (h_items s) (h_jar s)
      (h_cookies_added s) (h_host s) (h_host_conflict s) (h_len s) true.

(** [store_pseudo_header]: [None] = rejected *)
Definition store_pseudo (dest : option (list N)) (regular : bool) (v : list N) : option (list N) :=
  match dest with
  | Some _ => None
  | None => if regular then None
            else match v with [] => None | _ => if bad_pseudo_value v then None else Some v end
  end.

Definition usize_max : N := 18446744073709551615.

Definition step (s : hstate) (kv : header) : hstate :=
  if h_invalid s then s else
  let '(k, v) := kv in
  if invalid_h2_header k v then set_invalid s
  else if eq_nc k (B ":method") then
    if negb (forallb is_tchar v) then set_invalid s
    else match store_pseudo (h_method s) (h_regular s) v with
         | Some x => mkh (Some x) (h_authority s) (h_path s) (h_scheme s) (h_regular s) (h_items s) (h_jar s) (h_cookies_added s) (h_host s) (h_host_conflict s) (h_len s) false
         | None => set_invalid s end
  else if eq_nc k (B ":scheme") then
    if negb (beq v (B "http") || beq v (B "https")) then set_invalid s
    else match store_pseudo (h_scheme s) (h_regular s) v with
         | Some x => mkh (h_method s) (h_authority s) (h_path s) (Some x) (h_regular s) (h_items s) (h_jar s) (h_cookies_added s) (h_host s) (h_host_conflict s) (h_len s) false
         | None => set_invalid s end
  else if eq_nc k (B ":path") then
    if existsb (N.eqb 35) v then set_invalid s
    else match store_pseudo (h_path s) (h_regular s) v with
         | Some x => mkh (h_method s) (h_authority s) (Some x) (h_scheme s) (h_regular s) (h_items s) (h_jar s) (h_cookies_added s) (h_host s) (h_host_conflict s) (h_len s) false
         | None => set_invalid s end
  else if eq_nc k (B ":authority") then
    match store_pseudo (h_authority s) (h_regular s) v with
    | Some x => mkh (h_method s) (Some x) (h_path s) (h_scheme s) (h_regular s) (h_items s) (h_jar s) (h_cookies_added s) (h_host s) (h_host_conflict s) (h_len s) false
    | None => set_invalid s end
  else if match k with 58 :: _ => true | _ => false end then set_invalid s
  else if eq_nc k (B "cookie") then
    let cr := crumbs_h2 v in
    let push := negb (h_cookies_added s) && negb (match cr with [] => true | _ => false end) in
    mkh (h_method s) (h_authority s) (h_path s) (h_scheme s) true
        (if push then h_items s ++ [ICookies] else h_items s) (h_jar s ++ cr)
        (h_cookies_added s || push) (h_host s) (h_host_conflict s) (h_len s) false
  else if eq_nc k (B "host") then
    match h_host s with
    | Some _ => mkh (h_method s) (h_authority s) (h_path s) (h_scheme s) true (h_items s) (h_jar s) (h_cookies_added s) (h_host s) true (h_len s) false
    | None => mkh (h_method s) (h_authority s) (h_path s) (h_scheme s) true (h_items s) (h_jar s) (h_cookies_added s) (Some v) (h_host_conflict s) (h_len s) false
    end
  else
    (* write_regular_header *)
    if eq_nc k (B "content-length") then
      if (match v with [] => true | _ => false end) || negb (forallb is_digit v) then set_invalid s
      else let n := dec_value 0 v in
           if usize_max <? n then set_invalid s
           else match h_len s with
                | Some m => if negb (m =? n) then set_invalid s
                            else (* same value again: one field line is enough *)
                              mkh (h_method s) (h_authority s) (h_path s) (h_scheme s) true (h_items s) (h_jar s) (h_cookies_added s) (h_host s) (h_host_conflict s) (Some n) false
                | None => mkh (h_method s) (h_authority s) (h_path s) (h_scheme s) true (h_items s ++ [IH (k, v)]) (h_jar s) (h_cookies_added s) (h_host s) (h_host_conflict s) (Some n) false
                end
    else mkh (h_method s) (h_authority s) (h_path s) (h_scheme s) true (h_items s ++ [IH (k, v)]) (h_jar s) (h_cookies_added s) (h_host s) (h_host_conflict s) (h_len s) false.

Definition h_init : hstate := mkh None None None None false [] [] false None false None false.

(** [strip_port] / [host_matches_authority] *)
Fixpoint rposition (p : N -> bool) (s : list N) : option nat :=
  match s with
  | [] => None
  | b :: t => match rposition p t with Some i => Some (S i) | None => if p b then Some O else None end
  end.

Definition strip_port (v : list N) : list N :=
  if existsb (N.eqb 91) v then
    match rposition (N.eqb 93) v with
    | Some i =>
      let after := skipn (S i) v in
      match after with
      | 58 :: ((_ :: _) as ds) => if forallb is_digit ds then firstn (S i) v else v
      | _ => v
      end
    | None => v
    end
  else
    match rposition (N.eqb 58) v with
    | Some i => let ds := skipn (S i) v in
                match ds with _ :: _ => if forallb is_digit ds then firstn i v else v | [] => v end
    | None => v
    end.

Definition host_matches_authority (host auth : list N) : bool :=
  if eq_nc host auth then true
  else let hs := strip_port host in let au := strip_port auth in
       let hp := negb (Nat.eqb (List.length hs) (List.length host)) in
       let ap := negb (Nat.eqb (List.length au) (List.length auth)) in
       if hp && ap then false else eq_nc hs au.

Record accepted := mkacc {
  a_method : list N; a_path : list N; a_authority : list N;
  a_items : list item; a_jar : list header }.

Inductive verdict := Reject | Accept (a : accepted).

Definition accept_h2 (hs : list header) (end_stream : bool) : verdict :=
  let s := fold_left step hs h_init in
  match h_path s, h_method s, h_authority s, h_scheme s with
  | Some p, Some m, Some a, Some _ =>
    let path_ok := match p with 47 :: _ => true | _ => beq p (B "*") && beq m (B "OPTIONS") end in
    if negb path_ok then Reject
    else if h_invalid s then Reject
    else if h_host_conflict s then Reject
    else if match h_host s with Some h => negb (host_matches_authority h a) | None => false end then Reject
    else if end_stream && match h_len s with Some n => 0 <? n | None => false end then Reject
    else
      let framing :=
        match h_len s with
        | Some _ => []
        | None => if end_stream then [IH (B "Content-Length", B "0")]
                  else [IH (B "Transfer-Encoding", B "chunked")]
        end in
      Accept (mkacc m p a (h_items s ++ framing) (h_jar s))
  | p, _, _, _ =>
    (* the :path form check runs before the presence check *)
    Reject
  end.

(* ------------------------------------------------------------------ *)
(** * (c) kawa's H1 block converter *)

Definition line_of (h : header) : list N := fst h ++ B ": " ++ snd h ++ crlf.

Definition serialize_h1 (a : accepted) : list N :=
  a_method a ++ [32] ++ a_path a ++ B " HTTP/1.1" ++ crlf ++ B "Host: " ++ a_authority a ++ crlf ++
  flat_map line_of (ser_h1 (a_items a) (match a_jar a with [] => false | _ => true end) (a_jar a)) ++ crlf.

(* ------------------------------------------------------------------ *)
(** * (d) Content-Length vs DATA ([handle_data_frame], trailers path) *)

Inductive ev := Data (len : N) (end_stream : bool) | Trailers | Cancel.   (* Cancel: RST_STREAM from the client *)
Inductive outcome := Open (received : N) | Complete (received : N) | Reset.

Fixpoint data_agree (declared : option N) (received : N) (evs : list ev) : outcome :=
  match evs with
  | [] => Open received
  | Data len es :: t =>
    let total := received + len in
    match declared with
    | Some n =>
      if n <? total then Reset
      else if es then (if negb (total =? n) then Reset else Complete total)
      else data_agree declared total t
    | None => if es then Complete total else data_agree declared total t
    end
  | Trailers :: _ =>
    match declared with
    | Some n => if negb (received =? n) then Reset else Complete received
    | None => Complete received
    end
  | Cancel :: _ => Reset
  end.

(** the end of a stream on an HTTP/2 BACKEND connection ([ConnectionH2::end_stream], client side):
    unless the stream is closed in both directions (the response ended, the request was sent to its
    end) or was reset already, RST_STREAM is queued for it: the backend never keeps a half-open
    request on a connection that goes on carrying other streams. *)
Definition h2_rst_on_end (response_ended request_ended already_reset : bool) : bool :=
  negb (response_ended && request_ended) && negb already_reset.

(* ------------------------------------------------------------------ *)
(** * (e) [pkawa::handle_trailer] on a request trailer block

    Every field of the block goes through the callback in order: a name that
    starts with ':' (ANY such name, registered pseudo-header or not) and a
    field [classify_invalid_h2_header] refuses make the whole block invalid
    (the stream is reset, nothing of the block is written); the four
    attribution names are dropped; on a Content-Length framed message the
    fields cannot be represented and are all dropped. *)

Definition starts_colon (n : list N) : bool := match n with 58 :: _ => true | _ => false end.

Definition trailer_refused (h : header) : bool :=
  starts_colon (fst h) || invalid_h2_header (fst h) (snd h).

Definition accept_trailers (length_framed : bool) (ts : list header) : option (list header) :=
  if existsb trailer_refused ts then None
  else Some (if length_framed then [] else trailers_h2 ts).

(** what the H1 converter writes after the last-chunk line for the accepted fields *)
Definition serialize_trailers (ts : list header) : list N := flat_map line_of ts ++ crlf.

(* ------------------------------------------------------------------ *)
(** * (f) keeping an HTTP/1.1 backend connection ([ConnectionH1::end_stream], client side)

    When the stream attached to a backend connection ends, the connection is
    parked for the next request ([BackendStatus::KeepAlive]) or closed. *)

Record exchange := mkx {
  x_keep_alive : bool;        (* context.keep_alive_backend *)
  x_response_done : bool;     (* back.is_terminated() *)
  x_interim : bool;           (* the response buffer holds a 1xx *)
  x_request_parsed : bool;    (* front.is_terminated(): the request was received to its end *)
  x_request_flushed : bool    (* front.is_completed(): every block of it was written to the backend *)
}.

Definition park (x : exchange) : bool :=
  x_keep_alive x && x_response_done x && negb (x_interim x) && (x_request_parsed x && x_request_flushed x).

(** bytes the backend is still waiting for on the connection *)
Definition request_unfinished (x : exchange) : bool := negb (x_request_parsed x && x_request_flushed x).
