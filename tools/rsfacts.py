"""Read facts out of Rust source by meaning rather than by spelling (used by props/c14.py, props/c15.py).

A function body is turned into a NORMAL FORM, a space-joined token string in which
  * comments are gone, string literals are emptied (rustmini.strip), layout does not matter;
  * numeric literals are canonical decimals and constant arithmetic is folded
    (`0x7FFF_FFFF`, `(1 << 31) - 1`, `i32::MAX as u32` all read `2147483647`);
  * a module / impl level `const NAME: T = <numeric expr>;` is replaced by its value;
  * every immutable `let name = <expr>;` is inlined at its uses (so binding a sub-expression to a
    local, or removing such a binding, does not change the normal form), redundant parentheses go.
Patterns are written in the same token language with `$x` = any identifier (consistently bound
inside one pattern), `$_` = any identifier (unbound), `...` = any short run of tokens.
`Source.find(fn, pattern)` looks in the body of `fn`, then in the bodies of the same-file functions
that body calls (one level: a few lines moved to a private helper), then in body + helpers together.
"""
import re

import rustmini

TOKEN = re.compile(
    r"[A-Za-z_]\w*|0[xX][0-9a-fA-F_]+\w*|\d[\d_]*(?:\.\d+)?\w*|'[A-Za-z_]\w*(?!')|\"\"|'c'|"
    r"::|->|=>|==|!=|<=|>=|&&|\|\||<<=|>>=|<<|\+=|-=|\*=|/=|\|=|&=|\^=|\.\.=|\.\.|[^\s\w]")

INT_SUFFIX = re.compile(r"(?:[ui](?:8|16|32|64|128|size))$")


class Unreadable(Exception):
    pass


def tokens(text):
    return TOKEN.findall(text)


def _canon_number(tok):
    t = tok.replace("_", "")
    t = INT_SUFFIX.sub("", t)
    try:
        return str(int(t, 0))
    except ValueError:
        return tok


_MAXES = {"i32": 2 ** 31 - 1, "u32": 2 ** 32 - 1, "i64": 2 ** 63 - 1, "u64": 2 ** 64 - 1, "u16": 65535, "u8": 255,
          "usize": 2 ** 64 - 1, "i16": 32767}

_FOLDS = [
    (re.compile(r"(?<![\w.]) (i32|u32|i64|u64|u16|u8|usize|i16) :: MAX(?= )"), lambda m: " %d" % _MAXES[m.group(1)]),
    (re.compile(r"(?<![\w.)\]]) (\d+) as (?:[ui](?:8|16|32|64|128|size))(?= )"), lambda m: " " + m.group(1)),
    (re.compile(r"(?<![\w.)\]]) \( (\d+) \)(?= )"), lambda m: " " + m.group(1)),
    (re.compile(r"(?<![\w.)\]*/]) (\d+) << (\d+)(?= (?:[^*/<]|$))"), lambda m: " %d" % (int(m.group(1)) << int(m.group(2)))),
    (re.compile(r"(?<![\w.)\]*/]) (\d+) \* (\d+)(?= (?:[^*/<]|$))"), lambda m: " %d" % (int(m.group(1)) * int(m.group(2)))),
    (re.compile(r"(?<![\w.)\]*/+-]) (\d+) ([+-]) (\d+)(?= (?:[^*/<\d]|$))"),
     lambda m: " %d" % (int(m.group(1)) + int(m.group(3)) if m.group(2) == "+" else int(m.group(1)) - int(m.group(3)))),
]


def fold(s):
    """constant folding on a space-joined token string (leading and trailing space kept)"""
    s = " " + s.strip() + " "
    for _ in range(12):
        before = s
        for rx, fn in _FOLDS:
            s = rx.sub(fn, s)
        if s == before:
            break
    return s.strip()


def _match_close(toks, i):
    """toks[i] is an opening bracket: index of its partner"""
    pairs = {"(": ")", "[": "]", "{": "}"}
    depth = 0
    for j in range(i, len(toks)):
        if toks[j] in pairs:
            depth += 1
        elif toks[j] in pairs.values():
            depth -= 1
            if depth == 0:
                return j
    raise Unreadable("unbalanced brackets")


def _is_chain(expr):
    """a single postfix chain (path, calls, fields, indexing, `?`): needs no parentheses when inlined"""
    depth = 0
    for k, t in enumerate(expr):
        if t in "([{":
            depth += 1
        elif t in ")]}":
            depth -= 1
        elif depth == 0:
            if t in ("+", "-", "*", "/", "%", "<<", ">>", "&&", "||", "==", "!=", "<", ">", "<=", ">=", "as", "|", "^",
                     "..", "..=", "=", "if", "match", "&", "!"):
                return False
    return True


def _inline_lets(toks):
    out = list(toks)
    i = 0
    guard = 0
    while i < len(out) and guard < 5000:
        guard += 1
        if out[i] != "let" or i + 2 >= len(out):
            i += 1
            continue
        name = out[i + 1]
        if name in ("mut", "_") or not re.fullmatch(r"[a-z_]\w*", name) or out[i + 2] not in ("=", ":"):
            i += 1
            continue
        # find `=` (skip a type annotation) and the terminating `;` at depth 0
        j = i + 2
        depth = 0
        eq = None
        while j < len(out):
            t = out[j]
            if t in "([{":
                depth += 1
            elif t in ")]}":
                depth -= 1
                if depth < 0:
                    break
            elif t == "=" and depth == 0 and eq is None:
                eq = j
            elif t == ";" and depth == 0:
                break
            elif t == "<" and eq is None:
                pass
            j += 1
        if eq is None or j >= len(out) or out[j] != ";":
            i += 1
            continue
        expr = out[eq + 1:j]
        # let-else, or an expression holding a block with statements (closures, match with side effects): keep
        if "else" in expr and "if" not in expr or not expr:
            i += 1
            continue
        if expr.count(";") > 0:
            i += 1
            continue
        # scope: up to the end of the enclosing block, or a rebinding of the same name
        end = j + 1
        depth = 0
        while end < len(out):
            t = out[end]
            if t in "([{":
                depth += 1
            elif t in ")]}":
                depth -= 1
                if depth < 0:
                    break
            elif t == "let" and end + 1 < len(out) and out[end + 1] == name:
                # the new binding's initialiser may still use the old one: substitute up to its `;`
                k = end
                while k < len(out) and out[k] != ";":
                    k += 1
                end = k
                break
            end += 1
        ref = None
        core = expr
        if expr[0] == "&":
            ref = ["&", "mut"] if len(expr) > 1 and expr[1] == "mut" else ["&"]
            core = expr[len(ref):]
        chain = _is_chain(core)
        body = out[j + 1:end]
        new = []
        k = 0
        assigned = False
        while k < len(body):
            t = body[k]
            prev = body[k - 1] if k else ";"
            nxt = body[k + 1] if k + 1 < len(body) else ";"
            if t == name and prev not in (".", "::", "let", "fn", "|") and nxt not in (":", "!", "=>") and not (nxt == "=" ):
                if ref is not None:
                    if nxt in (".", "[") and chain:
                        new.extend(core)
                    elif prev == "*" and chain:
                        new.pop()
                        new.extend(core)
                    else:
                        new.extend(["("] + ref + core + [")"])
                elif chain:
                    new.extend(expr)
                else:
                    new.extend(["("] + expr + [")"])
            else:
                if t == name and nxt in ("=", "+=", "-=", "*=", "|=", "&=") and prev not in ("let", ".", "::"):
                    assigned = True
                new.append(t)
            k += 1
        if assigned:
            i += 1
            continue
        out[i:end] = new
        # do not advance: the next token may be another let
    return out


_REDUNDANT = re.compile(r"(?<= )([(,=;{]|return|=>) \( ((?:[^(),]|\((?:[^()]|\([^()]*\))*\))*?) \) (?=[),;}])")
_REDUNDANT_IF = re.compile(r"(?<= )(if|while) \( ((?:[^()]|\((?:[^()]|\([^()]*\))*\))*?) \) (?=\{)")


def _drop_parens(s):
    s = " " + s + " "
    for _ in range(8):
        t = _REDUNDANT.sub(lambda m: "%s %s " % (m.group(1), m.group(2)), s)
        t = _REDUNDANT_IF.sub(lambda m: "%s %s " % (m.group(1), m.group(2)), t)
        if t == s:
            break
        s = t
    return s.strip()


_NOISE = {"debug_assert", "debug_assert_eq", "debug_assert_ne", "trace", "debug", "info", "warn", "error", "incr", "count",
          "gauge", "gauge_add", "time", "println", "eprintln"}


def _drop_macros(toks):
    """logging / metrics / debug assertions say nothing the model reads"""
    out = []
    i = 0
    while i < len(toks):
        if toks[i] in _NOISE and i + 2 < len(toks) and toks[i + 1] == "!" and toks[i + 2] in "([{":
            j = _match_close(toks, i + 2)
            i = j + 1
            if i < len(toks) and toks[i] == ";":
                i += 1
            continue
        out.append(toks[i])
        i += 1
    return out


class Source:
    def __init__(self, path, text=None):
        raw = text if text is not None else open(path).read()
        raw = raw.split("\n#[cfg(test)]\nmod tests")[0]
        self.path = path
        self.text = rustmini.strip(raw)
        self.consts = {}
        for m in re.finditer(r"\bconst\s+([A-Z][A-Z0-9_]*)\s*:\s*[\w:<>]+\s*=\s*([^;]+);", self.text):
            v = fold(" ".join(_canon_number(t) for t in tokens(m.group(2))))
            if re.fullmatch(r"\d+", v):
                self.consts[m.group(1)] = v
        for _ in range(3):  # constants defined from constants
            for m in re.finditer(r"\bconst\s+([A-Z][A-Z0-9_]*)\s*:\s*[\w:<>]+\s*=\s*([^;]+);", self.text):
                if m.group(1) in self.consts:
                    continue
                v = fold(" ".join(self.consts.get(t, _canon_number(t)) for t in tokens(m.group(2))))
                if re.fullmatch(r"\d+", v):
                    self.consts[m.group(1)] = v
        self._norm = {}

    def has_fn(self, name):
        return re.search(r"\bfn\s+%s\b" % re.escape(name), self.text) is not None

    def raw_bodies(self, name):
        """bodies of every `fn name` of the file (several impls may define one)"""
        res = []
        pos = 0
        while True:
            try:
                body, at = rustmini.fn_body(self.text, name, pos)
            except rustmini.Unrecognised:
                break
            res.append(body)
            pos = at
        if not res:
            raise Unreadable("fn %s not found in %s" % (name, self.path))
        return res

    def raw_body(self, name):
        return "\n".join(self.raw_bodies(name))

    def normalise(self, text, keep_consts=()):
        toks = _drop_macros([_canon_number(t) for t in tokens(text)])
        toks = [t if t in keep_consts else self.consts.get(t, t) for t in toks]
        toks = _inline_lets(toks)
        return _drop_parens(fold(" ".join(toks)))

    def body(self, name):
        """normal form of the body of `fn name`"""
        if name not in self._norm:
            self._norm[name] = self.normalise(self.raw_body(name))
        return self._norm[name]

    def callees(self, name):
        """same-file functions called from `fn name` (one level), in order of first call"""
        raw = self.raw_body(name)
        seen = []
        for m in re.finditer(r"\b([a-z_]\w*)\s*(?:::<[^>]*>)?\s*\(", raw):
            f = m.group(1)
            if f != name and f not in seen and self.has_fn(f):
                seen.append(f)
        return seen

    def scopes(self, name):
        texts = [self.body(name)]
        helpers = []
        for f in self.callees(name):
            try:
                helpers.append(self.body(f))
            except Unreadable:
                pass
        texts.extend(helpers)
        if helpers:
            texts.append(" ".join([self.body(name)] + helpers))
        return texts

    def find(self, name, pattern, helpers=True):
        """re.Match of `pattern` in `fn name` (or one level of helpers), else None; Unreadable when `fn name` is gone"""
        rx = compile_pattern(pattern)
        for t in (self.scopes(name) if helpers else [self.body(name)]):
            m = rx.search(" " + t + " ")
            if m:
                return m
        return None


def find_anywhere(src, pattern):
    """the pattern in ANY function of the file (a private function was renamed): first match or None"""
    rx = compile_pattern(pattern)
    for name in dict.fromkeys(re.findall(r"\bfn\s+([a-z_]\w*)", src.text)):
        try:
            m = rx.search(" " + src.body(name) + " ")
        except Exception:
            continue
        if m:
            m_name[0] = name
            return m
    return None


m_name = [None]   # name of the function in which the last find_anywhere matched


_PAT_CACHE = {}


def compile_pattern(pattern, gap=40):
    if pattern in _PAT_CACHE:
        return _PAT_CACHE[pattern]
    parts = []
    seen = set()
    # `...` must be its own token in the pattern text
    for t in re.findall(r"\.\.\.(?:\{\d+\})?|\$\w+|" + TOKEN.pattern, pattern):
        if t.startswith("..."):
            n = int(t[4:-1]) if len(t) > 3 else gap
            parts.append(r"(?:\S+ ){0,%d}?" % n)
        elif t == "$_":
            parts.append(r"\w+ ")
        elif t.startswith("$"):
            nm = t[1:]
            if nm in seen:
                parts.append(r"(?P=%s) " % nm)
            else:
                seen.add(nm)
                parts.append(r"(?P<%s>\w+) " % nm)
        else:
            parts.append(re.escape(_canon_number(t)) + " ")
    rx = re.compile(r"(?<= )" + "".join(parts))
    _PAT_CACHE[pattern] = rx
    return rx
