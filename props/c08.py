"""C08 — workers answer each command exactly once and converge on the master's view."""
import os, re
import vlib
from vlib import Case

ID = "C08"
COQ_DIRS = ["Common", "C08"]
COQ_TARGETS = ["C08/Props.vo", "C08/Run.vo"]
PROPS_MODULES = ["C08.Props"]
RUN_MODULE = "C08.Run"
RUN_FN = "run_case"
HARNESS_BIN = "c08"
HARNESS_BINS = ["c08"]
SHRINK_KEEP = ("worker", "end")
RULE = ("cases: a real worker thread (sozu_lib::server::Server::run) driven over its command channel; every RequestType "
        "variant (worker verbs, proxy verbs, listener verbs, and the verbs a worker has no handler for, including a request "
        "without request_type) x a selector k that picks the target from colliding pools of 3 clusters / 3 addresses / 3 "
        "hostnames and, for k>=6, an invalid value (empty hostname, unparsable certificate, unknown listener type, bad "
        "health-check uri, out-of-range enum); sequences are fresh, after a bootstrap of listeners+clusters, with duplicates; "
        "each request is followed by a Status barrier and the responses carrying its id are counted; behaviour probes: "
        "after every listener verb a TCP connect on each listener address (activated <=> accepts, else refused), after "
        "frontend/backend/cluster verbs on an activated HTTP listener one GET per known hostname through the worker to "
        "scripted backends (the backend that answers, or 404/503, must be allowed by the main process' ConfigState); "
        "listener life cycles Add/Activate/Deactivate/Activate/Remove/Add per listener type; cluster-hash comparisons "
        "against the main process' ConfigState; soft/hard and overlapping stops. Non-trivial and distinct: >=10 "
        "requests over >=6 distinct verbs including at least one listener verb and one invalid or unknown-target request.")
ASSUMPTIONS = [
    "each proxy's notify returns exactly one WorkerResponse (its Rust return type); it is a final status (OK or failure) except for SoftStop/HardStop, where the proxies answer Processing — observed by the black-box run, an oracle in the model",
    "the worker handles its queue FIFO on one thread, so every response to request k precedes the answer to the Status barrier sent after it",
    "view_tracks_master is relative to one abstract ConfigState::dispatch shared by main process and worker; the only fact used about it is that the variants of the generated list state_noop (arms `=> Ok(())` of ConfigState::dispatch) leave the state untouched",
    "the session table is abstracted: 'only listen/system slots remain' is the event EDrained; the translator checks that shut_down_sessions tests against the slots counted from the slab",
]
TRUSTED = ["translator props/c08.py:translate: a control-flow path analysis (if / if let / match / let-else / return / closures passed to .with) of every arm of read_channel_messages_and_notify, Server::notify and the two matches of Server::notify_proxys, counting push_queue per path; Request::get_destinations; the no-op arms of ConfigState::dispatch"]
LEVEL_TEXT = ("Machine-checked proof (Coq 8.16) over an executable model of the worker's command handling (read_channel_messages_and_notify "
              "-> notify -> notify_proxys, stop handling, listener bookkeeping) that is generic in the configuration view, in "
              "ConfigState::dispatch and in everything the proxies decide (an oracle per request), and driven by an arms table regenerated "
              "from lib/src/server.rs, command/src/request.rs and command/src/state.rs on every run with push_queue counted per control-flow "
              "path: exactly one final answer per request for every variant, state, oracle and sequence; the view is the fold of dispatch over "
              "the served requests; answers independent of base_sessions_count. Tied to the code by that translator and by a black-box "
              "correspondence run (real worker thread, every variant x target/validity selector, Status barrier, responses counted per id) with "
              "the property's oracle (one final answer, worker alive, cluster hashes equal to the main process' state, stops complete).")
LEVEL_NOTE = ("Partial: what is proved is the control flow around the proxies. The status of each answer, each proxy's own notify "
              "(one response by its return type; Processing only for the stop verbs is an assumption checked by the black-box run) and the "
              "live routing/listening behaviour are observed only: cluster hashes of QueryClustersHashes vs ConfigState::hash_state of the "
              "same sequence, TCP connect probes on every listener address after every listener verb, HTTP GET probes through an "
              "activated HTTP listener to scripted backends (prediction: longest matching prefix frontend of the main process' state, "
              "its cluster's backends); the other data paths get a few probes each: a TLS handshake + GET through an activated HTTPS listener (a certificate of the pool is served only while the main process' view holds it, a name's own certificate is served when it is held, the routed cluster as for HTTP), a request relayed through an activated TCP listener (the backend that answers), a datagram through an activated UDP listener from a source address of its own (flows are keyed by the client address), also across Deactivate/Activate. Certificate selection itself is C17's subject, UDP flow semantics C19's. Probes stop claiming anything about an address or about "
              "routing once the main process and the worker disagree on a request's acceptance (the main process would not have "
              "forwarded it, or would have told its client about the failure) or after ReturnListenSockets. ConfigState::dispatch itself is C05-C07's subject; here it is "
              "an abstract function shared by both sides. Two SoftStop requests: the second overwrites shutting_down, the first never gets its "
              "final answer (at most one final holds; seen in the model, not driven).")
TECHNIQUE = "Rocq/Coq proof over a generated arms table + black-box differential run against a real worker thread"
CLAIMED = True

SERVER = "lib/src/server.rs"
REQUEST = "command/src/request.rs"



class PathError(Exception):
    pass

def strip_strings(src):
    """remove comments, string and char literals (their contents may hold braces and keywords)"""
    out, i, n = [], 0, len(src)
    while i < n:
        c = src[i]
        if src.startswith("//", i):
            j = src.find("\n", i)
            i = n if j < 0 else j
        elif src.startswith("/*", i):
            j = src.find("*/", i)
            i = n if j < 0 else j + 2
        elif c == '"':
            j = i + 1
            while j < n and src[j] != '"':
                j += 2 if src[j] == "\\" else 1
            out.append('""')
            i = j + 1
        elif c == "'" and i + 2 < n and (src[i + 2] == "'" or (src[i + 1] == "\\" and i + 3 < n and src[i + 3] == "'")):
            j = i + (3 if src[i + 2] == "'" else 4)
            out.append("' '")
            i = j
        else:
            out.append(c)
            i += 1
    return "".join(out)

def match_close(s, i):
    """s[i] is an opening bracket; index of its closing partner"""
    op = s[i]
    cl = {"{": "}", "(": ")", "[": "]"}[op]
    d = 0
    while i < len(s):
        if s[i] == op:
            d += 1
        elif s[i] == cl:
            d -= 1
            if d == 0:
                return i
        i += 1
    raise PathError("unbalanced %s" % op)

def next_brace(s, i):
    """first '{' at paren depth 0 at or after i"""
    d = 0
    while i < len(s):
        c = s[i]
        if c in "([":
            d += 1
        elif c in ")]":
            d -= 1
        elif c == "{" and d == 0:
            return i
        i += 1
    raise PathError("no block found")

def split_arms(body):
    """bodies of the arms of a match block given WITHOUT its braces"""
    arms, i, n, d = [], 0, len(body), 0
    while i < n:
        c = body[i]
        if c in "({[":
            i = match_close(body, i) + 1
            continue
        if body.startswith("=>", i):
            j = i + 2
            while j < n and body[j].isspace():
                j += 1
            if j < n and body[j] == "{":
                k = match_close(body, j)
                arms.append(body[j + 1:k])
                i = k + 1
            else:
                k = j
                while k < n and body[k] != ",":
                    if body[k] in "({[":
                        k = match_close(body, k)
                    k += 1
                arms.append(body[j:k])
                i = k + 1
            continue
        i += 1
    return arms

WORD = re.compile(r"[A-Za-z_][A-Za-z_0-9]*")

def seq(P, D, branches):
    """run alternative branch summaries after the live partial paths P"""
    newP = set()
    for p in P:
        for (k, ret) in branches:
            if ret:
                D.add((p + k, True))
            else:
                newP.add(p + k)
    return newP

def paths(text, in_closure=False):
    """set of (number of push_queue calls, leaves by `return`?) over the control-flow paths of `text`"""
    P, D = {0}, set()
    i, n = 0, len(text)
    while i < n and P:
        c = text[i]
        m = WORD.match(text, i) if (c.isalpha() or c == "_") and (i == 0 or not (text[i - 1].isalnum() or text[i - 1] == "_")) else None
        if m:
            w = m.group(0)
            if w == "return":
                for p in P:
                    D.add((p, True))
                P = set()
                break
            if w == "push_queue":
                j = text.index("(", m.end())
                k = match_close(text, j)
                inner = paths(text[j + 1:k], in_closure)
                if inner != {(0, False)}:
                    raise PathError("push_queue or return inside the argument of push_queue")
                P = {p + 1 for p in P}
                i = k + 1
                continue
            if w in ("for", "while", "loop"):
                j = next_brace(text, m.end())
                k = match_close(text, j)
                if paths(text[j + 1:k], in_closure) != {(0, False)}:
                    raise PathError("push_queue or return inside a loop")
                i = k + 1
                continue
            if w == "if":
                branches, has_else = set(), False
                j = m.end()
                while True:
                    b = next_brace(text, j)
                    e = match_close(text, b)
                    if paths(text[j:b], in_closure) != {(0, False)}:
                        raise PathError("push_queue or return inside an if condition")
                    branches |= paths(text[b + 1:e], in_closure)
                    j = e + 1
                    m2 = re.compile(r"\s*else\b").match(text, j)
                    if not m2:
                        break
                    j = m2.end()
                    m3 = re.compile(r"\s*if\b").match(text, j)
                    if m3:
                        j = m3.end()
                        continue
                    b = next_brace(text, j)
                    e = match_close(text, b)
                    branches |= paths(text[b + 1:e], in_closure)
                    has_else = True
                    j = e + 1
                    break
                if not has_else:
                    branches.add((0, False))
                P = seq(P, D, branches)
                i = j
                continue
            if w == "match":
                b = next_brace(text, m.end())
                e = match_close(text, b)
                if paths(text[m.end():b], in_closure) != {(0, False)}:
                    raise PathError("push_queue or return inside a match scrutinee")
                branches = set()
                for arm in split_arms(text[b + 1:e]):
                    branches |= paths(arm, in_closure)
                if not branches:
                    raise PathError("match without arms")
                P = seq(P, D, branches)
                i = e + 1
                continue
            if w == "else":      # let ... else { diverges }
                b = next_brace(text, m.end())
                e = match_close(text, b)
                P = seq(P, D, paths(text[b + 1:e], in_closure) | {(0, False)})
                i = e + 1
                continue
            i = m.end()
            continue
        if c == "|" and re.compile(r"\|[^|]*\|\s*\{").match(text, i) and (i == 0 or text[i - 1] in "( ,"):
            # a closure with a block body: its `return`s are local; it must run exactly once to matter
            b = text.index("{", i)
            e = match_close(text, b)
            inner = {(k, False) for (k, _r) in paths(text[b + 1:e], True)}
            if inner != {(0, False)}:
                head = text[max(0, i - 40):i]
                if not re.search(r"\.with\(\s*$", head):
                    raise PathError("push_queue inside a closure that is not known to run exactly once")
            P = seq(P, D, inner)
            i = e + 1
            continue
        if c == "?" and not in_closure:
            raise PathError("`?` leaves without an answer")
        i += 1
    return P_and_D(P, D)

def P_and_D(P, D):
    return {(p, False) for p in P} | D



def block_after(src, start_re, what, fails, start=0):
    m = re.compile(start_re).search(src, start)
    if not m:
        fails.append("%s: not found" % what)
        return "", -1
    i = src.find("{", m.end() - 1)
    try:
        j = match_close(src, i)
    except PathError:
        fails.append("%s: unbalanced" % what)
        return "", -1
    return src[i:j + 1], j


def top_arms(body):
    """[(pattern text, arm body text without braces)] of a `match x { ... }` block given with its braces"""
    inner = body[1:-1]
    arms, i, n, start = [], 0, len(inner), 0
    while i < n:
        c = inner[i]
        if c in "({[":
            i = match_close(inner, i) + 1
            continue
        if inner.startswith("=>", i):
            pat = inner[start:i].strip()
            j = i + 2
            while inner[j].isspace():
                j += 1
            if inner[j] == "{":
                k = match_close(inner, j)
                arms.append((pat, inner[j + 1:k]))
                i = k + 1
            else:
                k = j
                while k < n and inner[k] != ",":
                    if inner[k] in "({[":
                        k = match_close(inner, k)
                    k += 1
                arms.append((pat, inner[j:k]))
                i = k + 1
            while i < n and inner[i] in ", \n\t":
                i += 1
            start = i
            continue
        i += 1
    return arms


def coq_paths(ps):
    return "[" + "; ".join("(%d, %s)" % (k, "true" if r else "false") for (k, r) in sorted(ps)) + "]"


def translate():
    fails = []
    srv = strip_strings(open(os.path.join(vlib.REPO, SERVER)).read())
    req = strip_strings(open(os.path.join(vlib.REPO, REQUEST)).read())
    st = strip_strings(open(os.path.join(vlib.REPO, "command/src/state.rs")).read())
    proto = open(os.path.join(vlib.REPO, "command/src/command.proto")).read()
    one, _ = block_after(proto, r"oneof request_type\s*\{", "command.proto request_type", fails)
    variants = ["".join(w[:1].upper() + w[1:] for w in name.split("_")) for name in re.findall(r"\b([A-Za-z_0-9]+)\s*=\s*\d+;", one)]
    if len(variants) < 40:
        fails.append("command.proto: could not list the RequestType variants")
    names = lambda pat: re.findall(r"RequestType::(\w+)", pat)

    def arm_paths(what, body):
        try:
            return paths(body)
        except (PathError, ValueError) as ex:
            fails.append("%s: control flow not understood (%s)" % (what, ex))
            return {(0, False)}

    # read_channel_messages_and_notify: the arms that do not simply call notify
    rb, _ = block_after(srv, r"fn read_channel_messages_and_notify\(&mut self\) -> bool\s*\{", "read_channel_messages_and_notify", fails)
    rm, _ = block_after(rb, r"Ok\(request\) => match request\.content\.request_type\s*\{", "read_channel match", fails)
    s0, seen0 = {}, set()
    flags = {"hard_stop_answers_soft": False, "second_soft_stop_refused": False}
    for pat, body in top_arms(rm):
        vs = names(pat)
        calls_notify = len(re.findall(r"self\.notify\(request\)", body))
        for v in vs:
            seen0.add(v)
            if v == "HardStop":
                answers_soft = bool(re.search(r"if let Some\(soft_stop_id\) = self\.shutting_down\.take\(\) \{\s*if let Err\(e\) = self\.channel\.write_message\(&worker_response_error\(\s*soft_stop_id,", body))
                drains = bool(re.search(r"QUEUE\.with\(\|queue\| \{\s*for response in queue\.borrow_mut\(\)\.drain\(\.\.\) \{\s*if let Err\(e\) = self\.channel\.write_message\(&response\)", body))
                if not (calls_notify == 1 and re.search(r"^\s*let req_id = request\.id\.clone\(\);\s*self\.notify\(request\);", body)
                        and re.search(r"if let Err\(e\) = self\.channel\.write_message\(&WorkerResponse::ok\(req_id\)\)", body)
                        and len(re.findall(r"write_message\(", body)) == 1 + int(answers_soft) + int(drains)
                        and re.search(r"return true;\s*$", body.strip())):
                    fails.append("read_channel: the HardStop arm is no longer notify + (queued answers) + (the soft stop's answer) + one direct Ok + return true")
                if answers_soft and not drains:
                    fails.append("read_channel: the HardStop arm answers the soft stop but drops the queued answers")
                flags["hard_stop_answers_soft"] = answers_soft
            elif v == "SoftStop":
                refused = bool(re.search(r"^\s*if let Some\(first\) = self\.shutting_down\.as_ref\(\) \{\s*push_queue\(worker_response_error\(\s*request\.id,[^;]*\)\);\s*\} else \{\s*self\.shutting_down = Some\(request\.id\.clone\(\)\);\s*self\.last_sessions_len = [^;]*;\s*self\.notify\(request\);\s*\}\s*$", body))
                plain = bool(re.search(r"^\s*self\.shutting_down = Some\(request\.id\.clone\(\)\);\s*self\.last_sessions_len = [^;]*;\s*self\.notify\(request\);\s*$", body))
                if not (calls_notify == 1 and (refused or plain)):
                    fails.append("read_channel: the SoftStop arm no longer records shutting_down and calls notify once (refusing a second soft stop or not)")
                flags["second_soft_stop_refused"] = refused
            else:
                if calls_notify:
                    fails.append("read_channel: arm %s both answers and calls notify" % v)
                s0[v] = arm_paths("read_channel arm " + v, body)
        if pat.startswith("_") and body.strip().rstrip(",") != "self.notify(request)":
            fails.append("read_channel: the default arm is no longer `self.notify(request)`")
    if seen0 != {"HardStop", "SoftStop", "ReturnListenSockets"}:
        fails.append("read_channel: special arms changed: %s" % sorted(seen0))

    # Server::notify
    nb, _ = block_after(srv, r"fn notify\(&mut self, message: WorkerRequest\)\s*\{", "Server::notify", fails)
    mb, _ = block_after(nb, r"match &message\.content\.request_type\s*\{", "Server::notify match", fails)
    s1 = {}
    for pat, body in top_arms(mb):
        for v in names(pat):
            s1[v] = arm_paths("notify arm " + v, body)
    pre = nb[:nb.find("match &message.content.request_type")]
    if "push_queue(" in pre or re.search(r"\breturn;", re.sub(r"\|[^|]*\|\s*\{.*?\}\);", "", pre, flags=re.S)):
        fails.append("Server::notify answers or returns before its match")
    if not re.search(r"\}\s*self\.notify_proxys\(message\);\s*\}\s*$", nb):
        fails.append("Server::notify no longer ends with self.notify_proxys(message)")

    # Server::notify_proxys
    pb, _ = block_after(srv, r"pub fn notify_proxys\(&mut self, request: WorkerRequest\)\s*\{", "Server::notify_proxys", fails)
    if not re.search(r"^\{\s*let applied_to_state = match self\.config_state\.dispatch\(&request\.content\) \{", pb):
        fails.append("notify_proxys no longer starts by applying the request to config_state (view_tracks_master)")
    if len(re.findall(r"config_state\s*\.dispatch\(", nb + pb)) != 1:
        fails.append("notify / notify_proxys: config_state.dispatch is no longer called exactly once")
    m1, e1 = block_after(pb, r"match request\.content\.request_type\s*\{", "notify_proxys first match", fails)
    s2 = {}
    for pat, body in top_arms(m1):
        for v in names(pat):
            s2[v] = arm_paths("notify_proxys first-match arm " + v, body)
    m3, e3 = block_after(pb, r"match request\.content\.request_type\s*\{", "notify_proxys last match", fails, e1)
    stage2 = pb[e1:pb.find("match request.content.request_type", e1)]
    agg = re.findall(r"if proxy_destinations\.to_(http|https|tcp|udp)_proxy \{", stage2)
    if agg != ["http", "https", "tcp", "udp"]:
        fails.append("notify_proxys: the four proxy destinations are no longer consulted in order")
    if len(re.findall(r"\.is_failure\(\) \|\| notify_response\.is_none\(\)", stage2)) != 3:
        fails.append("notify_proxys: the first-or-failure aggregation is no longer recognised")
    if not re.search(r"if let Some\(response\) = notify_response \{\s*push_queue\(response\);\s*\}", stage2) or len(re.findall(r"push_queue\(", stage2)) != 1:
        fails.append("notify_proxys: the aggregated response is no longer pushed exactly once")
    s4, fallback = {}, False
    for pat, body in top_arms(m3):
        if pat.startswith("_"):
            fallback = bool(re.search(r"^\s*if !answered_by_a_proxy \{\s*push_queue\([^;]*\);\s*\}\s*$", body))
            if not fallback and "push_queue(" in body:
                fails.append("notify_proxys: the default arm of the last match answers unconditionally")
        for v in names(pat):
            s4[v] = arm_paths("notify_proxys last-match arm " + v, body)
    if fallback and not re.search(r"let answered_by_a_proxy = notify_response\.is_some\(\);", stage2):
        fails.append("notify_proxys: answered_by_a_proxy is no longer notify_response.is_some()")
    tail = pb[e3 + 1:].strip()
    if tail not in ("; }", ";\n    }", "}") and "push_queue(" in tail:
        fails.append("notify_proxys answers after its last match")
    # listener bookkeeping
    rl = [b for pt, b in top_arms(m3) if "RemoveListener" in pt]
    if not rl or not re.search(r"if applied_to_state \{.*?self\.base_sessions_count -= 1;\s*\}", rl[0], re.S):
        fails.append("notify_proxys: RemoveListener no longer lowers base_sessions_count only when the state knew the listener")
    # the slot a configured listener owns: taken by Add*Listener, kept by Deactivate, freed by RemoveListener
    dl, _ = block_after(srv, r"fn notify_deactivate_listener\(", "notify_deactivate_listener", fails)
    deactivate_frees = bool(re.search(r"slab\s*\.remove\(", dl))
    remove_frees = bool(rl and re.search(r"if applied_to_state \{\s*if let Some\(token\) = self\.listener_slots\.remove\(&slot_key\) \{\s*let mut sessions = self\.sessions\.borrow_mut\(\);\s*if sessions\.slab\.contains\(token\.0\) \{\s*sessions\.slab\.remove\(token\.0\);", rl[0]))
    for fn, kind in (("notify_add_http_listener", "Http"), ("notify_add_https_listener", "Https"), ("notify_add_tcp_listener", "Tcp"), ("notify_add_udp_listener", "Udp")):
        b, _ = block_after(srv, r"fn %s\(" % fn, fn, fails)
        if not re.search(r"entry\.insert\(Rc::new\(RefCell::new\(ListenSession \{", b) or \
           (remove_frees and not re.search(r"self\.listener_slots\s*\.insert\(\(ListenerType::%s as i32, listener_address\), token\);" % kind, b)):
            fails.append("%s: no longer takes one slab slot and records it in listener_slots" % fn)
    al, _ = block_after(srv, r"fn notify_activate_listener\(", "notify_activate_listener", fails)
    if len(re.findall(r"\.activate_listener\(", al)) != 4 or len(re.findall(r"self\.accept\(ListenToken\(token\.0\), Protocol::(?:HTTP|HTTPS|TCP)Listen\);", al)) != 3:
        fails.append("notify_activate_listener: the four protocols no longer activate their listener (and accept on it)")
    sd, _ = block_after(srv, r"fn shut_down_sessions\(&mut self\) -> bool\s*\{", "shut_down_sessions", fails)
    if not re.search(r"if new_sessions_count <= listen_slots \{", sd) or re.search(r"<=\s*self\.base_sessions_count", sd):
        fails.append("shut_down_sessions: completion is no longer tested against the listen slots counted from the slab")

    # get_destinations
    gb, _ = block_after(req, r"pub fn get_destinations\(&self\) -> ProxyDestinations\s*\{", "get_destinations", fails)
    gm, _ = block_after(gb, r"match request_type\s*\{", "get_destinations match", fails)
    dests = {}
    for pat, body in top_arms(gm):
        n = len(set(re.findall(r"to_(http|https|tcp|udp)_proxy = true", body)))
        for v in names(pat):
            dests[v] = n
    # ConfigState::dispatch: the variants it accepts without touching the state
    db, _ = block_after(st, r"pub fn dispatch\(&mut self, request: &Request\) -> Result<\(\), StateError>\s*\{", "ConfigState::dispatch", fails)
    dm, _ = block_after(db, r"match request_type\s*\{", "ConfigState::dispatch match", fails)
    noop = []
    for pat, body in top_arms(dm):
        if body.strip().rstrip(",") == "Ok(())":
            noop += names(pat)
    rows = []
    for v in variants:
        rows.append('  mkRow "%s" %s %s %s %d %s' % (
            v, ("(Some %s)" % coq_paths(s0[v])) if v in s0 else "None",
            coq_paths(s1.get(v, {(0, False)})), coq_paths(s2.get(v, {(0, False)})),
            dests.get(v, 0), ("(Some %s)" % coq_paths(s4[v])) if v in s4 else "None"))
        if v not in dests:
            fails.append("get_destinations has no arm for %s" % v)
    text = ("(* GENERATED by props/c08.py:translate from %s, %s and command/src/state.rs — do not edit *)\n"
            "From Coq Require Import List String Bool Arith.\nFrom SV Require Import C08.Base.\nImport ListNotations.\nOpen Scope string_scope.\n\n"
            "Definition fallback_answers : bool := %s.\n"
            "Definition second_soft_stop_refused : bool := %s.\n"
            "Definition hard_stop_answers_soft : bool := %s.\n"
            "Definition deactivate_frees_slot : bool := %s.\n"
            "Definition remove_frees_slot : bool := %s.\n\n"
            "(* variants ConfigState::dispatch accepts without touching the state *)\n"
            "Definition state_noop : list string := [%s].\n\n"
            "Definition arms_table : list arm_row := [\n%s\n].\n"
            % (SERVER, REQUEST, "true" if fallback else "false", "true" if flags["second_soft_stop_refused"] else "false",
               "true" if flags["hard_stop_answers_soft"] else "false", "true" if deactivate_frees else "false",
               "true" if remove_frees else "false", "; ".join('"%s"' % v for v in noop), ";\n".join(rows)))
    vlib.write_if_changed(os.path.join(vlib.COQ, "C08", "Gen.v"), text)
    return fails


# ---------------------------------------------------------------------------
WORKER_VERBS = ("AddCluster RemoveCluster AddBackend RemoveBackend AddHttpFrontend RemoveHttpFrontend AddHttpsFrontend "
                "RemoveHttpsFrontend AddTcpFrontend RemoveTcpFrontend AddUdpFrontend RemoveUdpFrontend AddCertificate "
                "ReplaceCertificate RemoveCertificate AddHttpListener AddHttpsListener AddTcpListener AddUdpListener "
                "UpdateHttpListener UpdateHttpsListener UpdateTcpListener UpdateUdpListener ActivateListener DeactivateListener "
                "RemoveListener Status QueryMetrics ConfigureMetrics Logging QueryClustersHashes QueryClusterById "
                "QueryClustersByDomain QueryCertificatesFromWorkers SetHealthCheck RemoveHealthCheck SetMaxConnectionsPerIp "
                "QueryMaxConnectionsPerIp SetMetricDetail ReturnListenSockets").split()
UNSERVED = ("None SaveState LoadState ListWorkers ListFrontends ListListeners CountRequests SubscribeEvents UpgradeMain "
            "UpgradeWorker LaunchWorker ReloadConfiguration").split()
BOOT = [("AddHttpListener", 0), ("AddHttpsListener", 0), ("AddTcpListener", 0), ("AddUdpListener", 0),
        ("AddCluster", 0), ("AddCluster", 1), ("AddBackend", 0), ("AddBackend", 1), ("AddHttpFrontend", 0),
        ("AddCertificate", 0), ("AddHttpsFrontend", 1), ("AddTcpFrontend", 0), ("AddUdpFrontend", 1),
        ("ActivateListener", 0), ("ActivateListener", 1), ("ActivateListener", 2)]


def gen_case(rng, cid, i):
    ops = [["worker"]]
    if i % 3:
        for v, k in (BOOT if i % 3 == 1 else rng.sample(BOOT, len(BOOT))):
            ops.append(["send", v, k])
    pool = WORKER_VERBS * 3 + UNSERVED
    # ReturnListenSockets hands the listeners away: keep it rare
    for _ in range(rng.randint(10, 45)):
        v = rng.choice(pool)
        if v == "ReturnListenSockets" and rng.random() < 0.8:
            v = "Status"
        k = rng.choice([0, 1, 2, 3, 4, 5, 6, 7, 8])
        ops.append(["send", v, k])
        if rng.random() < 0.15:
            ops.append(["send", v, k])          # duplicate
        if v in ("SetHealthCheck", "RemoveHealthCheck", "AddCluster", "RemoveCluster") and rng.random() < 0.5:
            ops.append(["view"])
    ops.append(["view"])
    r = rng.random()
    if r < 0.2:
        ops.append(["stop", "soft"])
    elif r < 0.4:
        ops.append(["stop", "hard"])
    elif r < 0.6:
        # overlapping stops, written back-to-back: every request up to the first hard stop is answered once
        ks = [rng.choice(["soft", "soft", "status", "hard"]) for _ in range(rng.randint(2, 5))]
        if "soft" not in ks and "hard" not in ks:
            ks.append(rng.choice(["soft", "hard"]))
        ops.append(["stop"] + ks)
    ops.append(["end"])
    return Case(cid, ops, {})


def lifecycle_cases():
    """Add / Activate / Deactivate / Activate / Remove / Add / Activate on every TCP-based listener type (a
    connect probe follows every listener verb), health checks followed by view comparisons"""
    out = []
    for k, add in ((0, "AddHttpListener"), (1, "AddHttpsListener"), (2, "AddTcpListener")):
        ops = [["worker"], ["send", add, 0], ["send", "ActivateListener", k], ["send", "DeactivateListener", k],
               ["send", "ActivateListener", k], ["send", "DeactivateListener", k], ["send", "ActivateListener", k],
               ["send", "RemoveListener", k], ["send", add, 0], ["send", "ActivateListener", k]]
        if k == 0:
            ops += [["send", "AddCluster", 0], ["send", "AddBackend", 0], ["send", "AddHttpFrontend", 0],
                    ["send", "DeactivateListener", 0], ["send", "ActivateListener", 0], ["send", "AddBackend", 1],
                    ["send", "RemoveBackend", 0], ["send", "RemoveHttpFrontend", 0]]
        ops += [["view"], ["stop", "soft"], ["end"]]
        out.append(Case("life%d" % k, ops, {}))
    ops = [["worker"], ["send", "AddUdpListener", 0], ["send", "AddUdpListener", 0], ["send", "RemoveListener", 3], ["send", "AddUdpListener", 0], ["view"], ["end"]]
    out.append(Case("life3", ops, {}))
    def seq(cid, items):
        out.append(Case(cid, [["worker"]] + [["send", v, k] for v, k in items] + [["view"], ["end"]], {}))
    # the other data paths: TLS (certificate served + routed cluster), TCP relay, UDP datagrams
    seq("data_tls", [("AddHttpsListener", 0), ("ActivateListener", 1), ("AddCertificate", 0), ("AddCluster", 0), ("AddBackend", 0),
                     ("AddHttpsFrontend", 0), ("AddCertificate", 1), ("AddCluster", 1), ("AddBackend", 1), ("AddHttpsFrontend", 1),
                     ("RemoveBackend", 0), ("RemoveHttpsFrontend", 1), ("DeactivateListener", 1), ("ActivateListener", 1)])
    seq("data_tcp", [("AddTcpListener", 0), ("AddCluster", 0), ("AddBackend", 0), ("AddTcpFrontend", 0), ("ActivateListener", 2),
                     ("RemoveBackend", 0), ("AddBackend", 3), ("DeactivateListener", 2), ("ActivateListener", 2), ("RemoveTcpFrontend", 0)])
    seq("data_udp", [("AddUdpListener", 0), ("AddCluster", 1), ("AddBackend", 1), ("AddUdpFrontend", 1), ("ActivateListener", 3),
                     ("DeactivateListener", 3), ("ActivateListener", 3), ("RemoveBackend", 1), ("AddBackend", 4), ("RemoveListener", 3)])
    hc = [["worker"]]
    for k in (0, 3, 6, 1, 4, 7):
        hc += [["send", "AddCluster", k], ["view"]]
    for k in (0, 6, 1):
        hc += [["send", "SetHealthCheck", k], ["view"], ["send", "QueryClusterById", k], ["send", "RemoveHealthCheck", k], ["view"]]
    hc += [["end"]]
    out.append(Case("health", hc, {}))
    return out


def gen_cases(rng, tier):
    n = {"quick": 400, "thorough": 2400, "search": 600}.get(tier, 400)   # every stop-ended case keeps a block of 8 ports until its process exits
    out = lifecycle_cases()
    # every verb x every selector at least once, fresh and after bootstrap
    allv = WORKER_VERBS + UNSERVED
    for b in (0, 1):
        for k in range(9):
            ops = [["worker"]] + ([["send", v, kk] for v, kk in BOOT] if b else [])
            ops += [["send", v, k] for v in allv if v != "ReturnListenSockets"] + [["send", "ReturnListenSockets", k], ["view"], ["end"]]
            out.append(Case("all%d_%d" % (b, k), ops, {}))
    for i in range(n):
        out.append(gen_case(rng, "g%d" % i, i))
    return out


def corpus_cases():
    d = os.path.join(vlib.ROOT, "corpus", ID)
    out = []
    if os.path.isdir(d):
        for f in sorted(os.listdir(d)):
            if f.endswith(".case"):
                for c in vlib.parse_cases(open(os.path.join(d, f)).read()):
                    c.id = "k" + c.id
                    out.append(c)
    return out


def nontrivial(case, o):
    sends = [op for op in case.ops if op[0] == "send"]
    verbs = {op[1] for op in sends}
    return (len(sends) >= 10 and len(verbs) >= 6 and any("Listener" in v for v in verbs)
            and any(op[2] >= 6 or op[1] in UNSERVED for op in sends))
