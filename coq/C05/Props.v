(** C05 — a configuration survives every save / replay path unchanged.
    Property theorems (statements only; proofs are in CfgState/ReplayProofs.v). *)
From stdpp Require Import gmap strings.
From Coq Require Import NArith.
From SV Require Import CfgState.Proofs CfgState.Model CfgState.Spec CfgState.Gen CfgState.GenSteps CfgState.ReplayProofs
  CfgState.ReplayBuckets CfgState.InvRProofs C05.Framing.
Open Scope N_scope.

(** C05 at full strength on the model: for every state reachable by any
    history of commands (every verb, valid or not), whatever the certificate
    parser and the validators answer, and whatever the listener patch handlers
    are, replaying [generate_requests] on an empty instance accepts every
    request and rebuilds the same configuration — all eleven maps, modulo
    empty buckets. *)
Theorem replay_generate :
  forall fingerprint inames hc_valid steps s,
    reachable fingerprint inames hc_valid steps s ->
    exists s', replay fingerprint inames hc_valid steps (generate_requests s) empty_state = (s', 0%nat)
               /\ norm s' = norm s.
Proof.
  intros fp nm hc st s Hr. apply replay_generate_norm. apply (reachable_InvR fp nm hc st). exact Hr.
Qed.

(** the invariant behind it (clusters carry valid health checks, front keys are
    the keys of their values, backend buckets sorted and unique on (id,address),
    frontend buckets duplicate-free, certificates filed under their fingerprint
    with resolved names) holds initially and is kept by every command *)
Theorem replay_invariant_inductive :
  forall fingerprint inames hc_valid steps s r,
    InvR fingerprint inames hc_valid empty_state
    /\ (InvR fingerprint inames hc_valid s ->
        InvR fingerprint inames hc_valid (fst (dispatch fingerprint inames hc_valid steps s r))).
Proof. intros. split; [apply InvR_empty|apply InvR_dispatch]. Qed.

(** exact form of the rebuilt state *)
Theorem replay_generate_exact :
  forall fingerprint inames hc_valid steps s,
    InvR fingerprint inames hc_valid s ->
    replay fingerprint inames hc_valid steps (generate_requests s) empty_state = (rebuilt s, 0%nat).
Proof. intros. apply ReplayBuckets.replay_generate. assumption. Qed.

(** special case kept from the first version: without bucket sections the state is rebuilt exactly *)
Theorem replay_generate_partial :
  forall fingerprint inames hc_valid steps s,
    Inv5 hc_valid s -> no_buckets s ->
    replay fingerprint inames hc_valid steps (generate_requests s) empty_state = (s, 0%nat).
Proof. intros. apply ReplayProofs.replay_generate_partial; assumption. Qed.

(** Replay never depends on map iteration order: each map-backed section,
    replayed as ANY permutation of its entries on an instance where that
    section is empty, is accepted entirely and rebuilds exactly that map. *)
Theorem replay_order_free :
  forall fingerprint inames hc_valid steps s,
    (forall k m l, get_l k s = ∅ -> l ≡ₚ map_to_list m ->
       replay fingerprint inames hc_valid steps
              (flat_map (fun al : N * listener =>
                           RAddListener k (fst al) (snd al) true
                           :: (if l_active (snd al) then [RActivate (proxy_of k) (fst al)] else [])) l) s
       = (set_l k s m, 0%nat))
    /\ (forall m l, clusters s = ∅ -> l ≡ₚ map_to_list m ->
          (forall i c v, m !! i = Some c -> c_hc c = Some v -> hc_valid v = true) ->
          replay fingerprint inames hc_valid steps (map (fun ic : N * cluster => RAddCluster (fst ic) (snd ic)) l) s
          = (set_clusters s m, 0%nat))
    /\ (forall tls m l, get_f tls s = ∅ -> l ≡ₚ map_to_list m ->
          (forall k f, m !! k = Some f -> k = front_key f /\ (f_pos f <? 3) = true) ->
          replay fingerprint inames hc_valid steps (map (fun kf : fkey * front => RAddFront tls (snd kf)) l) s
          = (set_f tls s m, 0%nat)).
Proof. intros. apply section_order_free. Qed.

(** replay distributes over the section order of generate_requests *)
Theorem replay_concat :
  forall fingerprint inames hc_valid steps l1 l2 s,
    replay fingerprint inames hc_valid steps (l1 ++ l2) s =
    let '(s1, n1) := replay fingerprint inames hc_valid steps l1 s in
    let '(s2, n2) := replay fingerprint inames hc_valid steps l2 s1 in (s2, (n1 + n2)%nat).
Proof. intros. apply replay_app. Qed.

(** * The state-file framing (payload codec = parameter) *)

(** what write_requests_to_file writes, parse_several_requests reads back:
    every record, in order, nothing left — for every list of requests, given
    that a JSON payload contains no NUL byte (serde_json escapes control
    characters; named assumption) and decodes to itself when followed by the
    newline *)
Theorem statefile_round_trip :
  forall (R : Type) (encode : R -> list N) (decode : list N -> option R),
    (forall r, ~ In 0 (encode r)) -> (forall r, decode (app (encode r) [10]) = Some r) ->
    forall rs, parse R decode (List.concat (map (frame R encode) rs)) = (rs, []).
Proof. intros. apply parse_written; assumption. Qed.

(** a file cut anywhere inside its last record: all complete records are
    delivered, the cut record stays unparsed (the load loop then reports it) *)
Theorem statefile_truncated :
  forall (R : Type) (encode : R -> list N) (decode : list N -> option R),
    (forall r, ~ In 0 (encode r)) -> (forall r, decode (app (encode r) [10]) = Some r) ->
    forall rs p, ~ In 0 p -> parse R decode (app (List.concat (map (frame R encode) rs)) p) = (rs, p).
Proof. intros. apply parse_truncated; assumption. Qed.

(** an empty or undecodable record stops the parse at that record *)
Theorem statefile_garbage :
  forall (R : Type) (encode : R -> list N) (decode : list N -> option R),
    (forall r, ~ In 0 (encode r)) -> (forall r, decode (app (encode r) [10]) = Some r) ->
    forall rs g more, ~ In 0 g -> (g = [] \/ decode g = None) ->
      parse R decode (app (List.concat (map (frame R encode) rs)) (app g (0 :: more))) = (rs, app g (0 :: more)).
Proof. intros. apply parse_garbage; assumption. Qed.

(** SAVE-<n> ids: a counter of modulus M numbers n requests without repetition
    exactly when n <= M; both save paths count in usize (checked against the
    source on every run), so ids are pairwise distinct for every list that fits
    in memory (the decimal rendering of the counter is injective: assumption) *)
Theorem save_ids_distinct :
  forall M n, (0 < M)%nat -> (List.NoDup (counters M n) <-> (n <= M)%nat).
Proof.
  intros M n HM. split.
  - intros Hnd. destruct (le_lt_dec n M) as [H|H]; [exact H|]. exfalso. exact (counters_dup M n HM H Hnd).
  - apply counters_nodup.
Qed.

(** the key of a stored frontend is the key of its VALUE: in every reachable
    state an http(s) frontend is filed under [front_key] of what is stored — for
    ARBITRARY method / hostname / path (the fields are unconstrained numbers:
    any string, any case) — so the request rebuilt from the stored value
    ([generate_requests] emits [RAddFront tls f] for the stored [f]) lands, when
    accepted by ANY instance, under the key it came from, holding the same
    value.  An implementation that stores a value other than the request's
    (e.g. a case-folded method under the request's own spelling as key) breaks
    exactly this: the replayed request computes another key. *)
Theorem stored_value_replays_to_same_key :
  forall fingerprint inames hc_valid steps s tls k f,
    reachable fingerprint inames hc_valid steps s ->
    get_f tls s !! k = Some f ->
    k = front_key f
    /\ In (RAddFront tls f) (generate_requests s)
    /\ forall t t', dispatch fingerprint inames hc_valid steps t (RAddFront tls f) = (t', Ok) ->
                    get_f tls t' !! k = Some f.
Proof.
  intros fp nm hc st s tls k f Hr Hk.
  pose proof (reachable_InvR fp nm hc st s Hr) as [[_ Hf] _].
  destruct (Hf tls k f Hk) as [-> _]. split; [reflexivity|]. split.
  - unfold generate_requests. rewrite !in_app_iff.
    destruct tls.
    + do 7 right. left. apply in_map_iff. exists (front_key f, f). split; [reflexivity|].
      apply elem_of_list_In, elem_of_map_to_list. exact Hk.
    + do 5 right. left. apply in_map_iff. exists (front_key f, f). split; [reflexivity|].
      apply elem_of_list_In, elem_of_map_to_list. exact Hk.
  - intros t t' Hd. exact (proj1 (ok_add_front fp nm hc st t tls f t' Hd)).
Qed.

(** non-vacuity of the above: a lower-case and an upper-case spelling of a
    method (two different numbers) give two frontends under two keys, each
    replayed to its own key *)
Example stored_value_two_spellings :
  let f1 := Front 0 0 0 0 (Some 1) None 0 0 in
  let f3 := Front 0 0 0 0 (Some 3) None 0 0 in
  front_key f1 <> front_key f3.
Proof. cbv. congruence. Qed.

(** non-vacuity: a state with an active listener, a cluster with a health check
    and a frontend satisfies the hypotheses and is rebuilt *)
Example replay_generate_nonvacuous :
  let fp := fun _ : N => @None N in
  let nm := fun _ : N => @None (list N) in
  let hc := fun v : N => v <? 3 in
  let s := State (<[1 := Cluster (Some 2) 7]> ∅) ∅ (<[0 := Listener true (<["front_timeout"%string := 60]> ∅) 1]> ∅) ∅ ∅ ∅
                 (<[front_key (Front 0 1 0 2 None (Some 1) 2 5) := Front 0 1 0 2 None (Some 1) 2 5]> ∅) ∅ ∅ ∅ ∅ in
  bool_decide (replay fp nm hc steps_of (generate_requests s) empty_state = (s, 0%nat)) = true.
Proof. vm_compute. reflexivity. Qed.
