"""C10 — worker hand-over and soft stop lose no listener and cut no request."""
import os, re
import vlib
from vlib import Case

ID = "C10"
COQ_DIRS = ["C10"]
COQ_TARGETS = ["C10/Props.vo", "C10/Run.vo"]
PROPS_MODULES = ["C10.Props"]
RUN_MODULE = "C10.Run"
RUN_FN = "run_case"
HARNESS_BIN = "c10"
HARNESS_BINS = ["c10", "c10bb"]
SHRINK = False
RULE = ("cases: listener sets handed over through a real ScmSocket pair (AF_UNIX stream) with one real socket per "
        "listener: 0..260 listeners over the four families, IPv4/IPv6 address texts of 9..47 bytes, totals at the "
        "boundaries (MAX_FDS_OUT-1, MAX_FDS_OUT, +1, SCM_MAX_FD, +1) and manifest sizes around the old (4096) and the "
        "current receive buffer. Non-trivial and distinct: >=2 families present, or total within 10 of a boundary; "
        "distinct by op text.")
ASSUMPTIONS = [
    "SocketAddr::to_string / parse are the identity on the canonical address texts passed in the case (the driver checks it per address)",
    "the kernel delivers a unix-stream message of the manifest's size together with its descriptors in one recvmsg (observed; the model has one message)",
    "more than SCM_MAX_FD (253) descriptors make sendmsg fail; a control buffer too small for the descriptors is a receive error (nix MSG_CTRUNC)",
    "fd conservation and the soft-stop bookkeeping are proved on the model only: the model of shut_down_sessions is tied to lib/src/server.rs by the translator (single take() of the request id under `new_sessions_count <= listen_slots`, the listener/system slots counted from the slab), and exercised on real workers by the thorough black-box tier (soft stop with a request in flight; ReturnListenSockets -> successor)",
]
TRUSTED = ["translator props/c10.py:translate (MAX_FDS_OUT, MAX_BYTES_OUT evaluated from command/src/scm_socket.rs -> coq/C10/Gen.v; field order of send/receive; shape of shut_down_sessions)"]


TRANSLATE_FALLBACK = (
    "every fact the translator reads is also observed on the implementation on each run: MAX_FDS_OUT / MAX_BYTES_OUT "
    "are printed by the driver's `consts` op and decide the outcome of the boundary transfers (199/200/201 listeners, "
    "manifests around the buffer size) that the generator always produces; the family order of send/receive and the "
    "manifest/descriptor consistency test decide the pairing and error class of every `xfer` / `raw` case; the call "
    "order of return_listen_sockets, the floor and single answer of shut_down_sessions and the quiescence test of "
    "Stream::is_quiesced decide the black-box scenarios handover / softstop / softstop_h2 that run in every tier "
    "(inode identity of the handed-over sockets, no early OK or exit with a request or an H2 stream pending, exactly one "
    "final OK); an unreadable piece of Gen.v is generated from the committed snapshot props/c10_facts.json.  NOT soft: "
    "the way Mux::shutting_down consults is_quiesced / has_pending_write, a found-but-different comparison, order or "
    "protocol set -- those fail the check.  Every soft pin has a probe harmless/C10_*_unreadable_changed (the fact "
    "changed in a spelling the translator cannot read) that the check must answer with exit 1")

FACTS = os.path.join(os.path.dirname(os.path.abspath(__file__)), "c10_facts.json")
PERMANENT = {"HTTPListen", "HTTPSListen", "TCPListen", "UDPListen", "Channel", "Metrics", "Timer"}
FAMS = ("http", "tls", "tcp", "udp")


def _read(rel):
    import rsread
    return rsread.clean(open(os.path.join(vlib.REPO, rel)).read())


def read_facts(fails):
    """-> dict of the facts the model depends on; a piece that cannot be read is None (and reported `unreadable:`),
    a piece that reads differently from what the proofs need is a hard failure"""
    import rsread
    f = dict(fds=None, nbytes=None, ret_steps=None, sd_steps=None, qf=None, qb=None, qand=None, perm=None, clients=None, nproto=None)
    scm = _read("command/src/scm_socket.rs")
    table = rsread.consts(scm)
    f["fds"] = rsread.evalc(table.get("MAX_FDS_OUT"), table)
    f["nbytes"] = rsread.evalc(table.get("MAX_BYTES_OUT"), table)
    if f["fds"] is None or f["nbytes"] is None:
        fails.append("unreadable: scm_socket.rs: the constants MAX_FDS_OUT / MAX_BYTES_OUT could not be evaluated")
    # the receive buffers are sized by these constants (whatever they are called at the use site)
    rb = (rsread.body(scm, "receive_listeners") or "") + (rsread.body(scm, "receive_msg_and_fds") or "")
    sizes = [rsread.evalc(m.group(1), table) for m in re.finditer(r"vec!\s*\[\s*0\w*\s*;\s*([^\]]+)\]", rb)]
    if f["nbytes"] is not None:
        if not sizes or None in sizes:
            fails.append("unreadable: scm_socket.rs: the size of receive_listeners' message buffer (model: MAX_BYTES_OUT = %d)" % f["nbytes"])
        elif f["nbytes"] not in sizes:
            fails.append("scm_socket.rs: receive_listeners' message buffer holds %s bytes, MAX_BYTES_OUT is %d" % (sizes, f["nbytes"]))
    fsz = [rsread.evalc(m.group(1), table) for m in re.finditer(r"\[\s*(?:RawFd|0\w*)\s*;\s*([^\]]+)\]", rsread.body(scm, "receive_listeners") or "")]
    fsz = [x for x in fsz if x is not None and x != f["nbytes"]] or [x for x in sizes if x is not None and x != f["nbytes"]]
    if f["fds"] is not None:
        if not fsz:
            fails.append("unreadable: scm_socket.rs: the size of receive_listeners' descriptor array (model: MAX_FDS_OUT = %d)" % f["fds"])
        elif f["fds"] not in fsz:
            fails.append("scm_socket.rs: receive_listeners' descriptor array holds %s entries, MAX_FDS_OUT is %d" % (fsz, f["fds"]))
    # family order on the sending side: the descriptors are appended in the order of the manifest's fields
    sb = rsread.body(scm, "send_listeners")
    if sb is None:
        fails.append("unreadable: scm_socket.rs: fn send_listeners not found (model: descriptors appended in http, tls, tcp, udp order)")
    else:
        lit = re.search(r"ListenersCount\s*\{", sb)
        rest = sb
        if lit:
            import rustmini
            try:
                rest = sb[rustmini.match_brace(sb, lit.end() - 1):]
            except rustmini.Unrecognised:
                rest = sb[lit.end():]
        # only statements that take the descriptor (`.1`) of the pairs
        stmts = [x for x in rest.split(";") if re.search(r"\.\s*1\b", x) and re.search(r"\.(http|tls|tcp|udp)\b", x)]
        order = [m.group(1) for x in stmts for m in [re.search(r"\.(http|tls|tcp|udp)\b", x)]]
        if sorted(order) != sorted(FAMS):
            # another spelling (a loop over the four tables, a chain): the tables named after the manifest, assertions aside
            plain = re.sub(r"\b(?:debug_)?assert\w*!\s*\((?:[^()]|\([^()]*\))*\)", "", rest)
            order = [m.group(1) for m in re.finditer(r"\blisteners\s*\.\s*(http|tls|tcp|udp)\b(?!\s*\.\s*(?:len|is_empty)\s*\()", plain)]
        if sorted(order) != sorted(FAMS):
            fails.append("unreadable: scm_socket.rs: send_listeners: which family's descriptors are appended in which order (model: http, tls, tcp, udp)")
        elif tuple(order) != FAMS:
            fails.append("scm_socket.rs: send_listeners appends descriptors in the order %s; manifest and receiver use http, tls, tcp, udp" % (order,))
    # family order and consistency test on the receiving side
    pb = rsread.body(scm, "pair_listeners") or rsread.body(scm, "receive_listeners")
    if pb is None or "received_fds" not in pb:
        fails.append("unreadable: scm_socket.rs: the function pairing addresses with received descriptors (model: slices taken in http, tls, tcp, udp order; manifest rejected when total > MAX_FDS_OUT or > descriptors received)")
    else:
        order = []
        for m in re.finditer(r"received_fds\s*\[", pb):
            stmt = pb[pb.rfind(";", 0, m.start()) + 1:m.start()]
            mm = re.findall(r"\b(http|tls|tcp|udp)(?:s|_\w+)?\b", stmt)
            if not mm:
                # the length variable of this slice was bound just before
                prev = pb[:m.start()]
                mm = re.findall(r"let\s+\w+\s*=\s*(http|tls|tcp|udp)_\w+\s*;", prev)[-1:]
            if mm:
                order.append(mm[-1])
        if sorted(order) != sorted(FAMS):
            fails.append("unreadable: scm_socket.rs: the order in which the received descriptors are sliced per family (model: http, tls, tcp, udp)")
        elif tuple(order) != FAMS:
            fails.append("scm_socket.rs: received descriptors are sliced in the order %s; the sender uses http, tls, tcp, udp" % (order,))
        if f["fds"] is not None:
            cmp_ = [(m.group(1), m.group(2), m.group(3)) for m in re.finditer(r"(\w+)\s*(>=|<=|>|<)\s*([A-Za-z_]\w*)", pb)]
            strict = [c for c in cmp_ if (c[1] == ">" and rsread.evalc(c[2], table) == f["fds"]) or (c[1] == "<" and rsread.evalc(c[0], table) == f["fds"])]
            loose = [c for c in cmp_ if (c[1] == ">=" and rsread.evalc(c[2], table) == f["fds"]) or (c[1] == "<=" and rsread.evalc(c[0], table) == f["fds"])]
            if loose and not strict:
                fails.append("scm_socket.rs: a manifest of exactly MAX_FDS_OUT entries is now rejected (%s)" % (" ".join(loose[0]),))
            elif not strict:
                fails.append("unreadable: scm_socket.rs: the test rejecting a manifest with more entries than MAX_FDS_OUT (model: total > MAX_FDS_OUT)")
            if not re.search(r"(\w+)\s*>\s*(file_descriptor_length|\w*len\w*|\w*count\w*|received_fds\.len\(\))|(\w*len\w*|\w*count\w*)\s*<\s*\w+", pb):
                fails.append("unreadable: scm_socket.rs: the test rejecting a manifest with more entries than descriptors received")
    srv = _read("lib/src/server.rs")
    f["ret_steps"] = order_of_return(srv, fails)
    got = {}
    f["sd_steps"] = order_of_shutdown(srv, fails, got)
    f["perm"], f["clients"], f["nproto"] = protocol_numbers(got.get("protos"), fails)
    f["qf"], f["qb"], f["qand"] = quiesced_shape(fails)
    return f


def translate(snapshot=False):
    fails = []
    facts = read_facts(fails)
    if snapshot:
        import json
        json.dump(facts, open(FACTS, "w"), indent=1, sort_keys=True)
        return fails
    try:
        import json
        snap = json.load(open(FACTS))
    except Exception:
        snap = {}
    g = {k: (facts[k] if facts[k] is not None else snap.get(k)) for k in facts}
    if any(v is None for v in g.values()):
        fails.append("the facts %s can neither be read from the source nor from props/c10_facts.json" % [k for k, v in g.items() if v is None])
        return fails
    fds, nbytes = g["fds"], g["nbytes"]
    qf, qb, qand = g["qf"], g["qb"], g["qand"]
    vlib.write_if_changed(os.path.join(vlib.COQ, "C10", "Gen.v"),
                          "(* GENERATED by props/c10.py:translate from command/src/scm_socket.rs and lib/src/server.rs *)\n"
                          "Require Import List. Import ListNotations.\n"
                          "Definition max_fds_out : nat := %d.\nDefinition max_bytes_out : nat := %d * 1000 + %d.\n"
                          "(* Server::return_listen_sockets, in source order: 1-4 give_back_listeners of http/https/tcp/udp,\n"
                          "   5 manifest built from BORROWED descriptors (as_raw_fd), 6 send_listeners, 7 the worker's copies dropped,\n"
                          "   8 descriptors released without close (into_raw_fd), 9 copies closed/dropped explicitly *)\n"
                          "Definition return_steps : list nat := [%s].\n"
                          "(* Server::shut_down_sessions, in source order: 1 poll shutting_down() of every session, 2 close those,\n"
                          "   3 count what is left, 4 compare with the floor, 5 take() the request id, 6 build OK(id), 7 write it, 8 return true *)\n"
                          "Definition shutdown_steps : list nat := [%s].\n"
                          "(* Stream::is_quiesced (lib/src/protocol/mux/stream.rs), per direction: the kawa phases accepted\n"
                          "   (0 initial, 1 running, 2 completed, 3 terminated) and whether `storage.is_empty()` is required;\n"
                          "   and whether the result is the conjunction of both directions *)\n"
                          "Definition quiesced_front : list nat * bool := ([%s], %s).\n"
                          "Definition quiesced_back : list nat * bool := ([%s], %s).\n"
                          "Definition quiesced_both : bool := %s.\n"
                          "(* the protocols shut_down_sessions counts as permanent slots and the client protocols, as positions in\n"
                          "   `pub enum Protocol` (lib/src/lib.rs), and the number of its variants *)\n"
                          "Definition permanent_protocols : list nat := [%s].\n"
                          "Definition client_protocols : list nat := [%s].\n"
                          "Definition protocol_count : nat := %d.\n"
                          % (fds, nbytes // 1000, nbytes % 1000, "; ".join(map(str, g["ret_steps"])), "; ".join(map(str, g["sd_steps"])),
                             "; ".join(map(str, qf[0])), "true" if qf[1] else "false",
                             "; ".join(map(str, qb[0])), "true" if qb[1] else "false", "true" if qand else "false",
                             "; ".join(map(str, g["perm"])), "; ".join(map(str, g["clients"])), g["nproto"]))
    return fails


def _protocols_of(pred, src, depth=0):
    """the Protocol variants a filter predicate accepts: inline `matches!`/`==`, or one private helper followed"""
    names = set(re.findall(r"Protocol::(\w+)", pred))
    if names or depth > 1:
        return names
    for m in re.finditer(r"\b(?:Self::|self\.)?([a-z_][a-z0-9_]*)\s*\(", pred):
        import rsread
        hb = rsread.body(src, m.group(1))
        if hb:
            got = _protocols_of(hb, src, depth + 1)
            if got:
                return got
    return set()


def quiesced_shape(fails):
    """T-table: the conjuncts of Stream::is_quiesced and the way Mux::shutting_down consults it"""
    import rsread
    st = _read("lib/src/protocol/mux/stream.rs")
    b = rsread.body(st, "is_quiesced")
    if b is None:
        fails.append("unreadable: stream.rs: fn is_quiesced not found")
        return None, None, None
    PH = ((0, "is_initial"), (1, "is_running"), (2, "is_completed"), (3, "is_terminated"))

    def side(name):
        # every sub-expression about this direction, wherever it is bound
        phases = [code for code, fn in PH if re.search(r"self\s*\.\s*%s\s*\.\s*%s\s*\(\)" % (name, fn), b)]
        empty = bool(re.search(r"self\s*\.\s*%s\s*\.\s*storage\s*\.\s*is_empty\s*\(\)" % name, b))
        if not phases:
            # a helper applied to the direction: `helper(&self.front)` / `self.front.helper()`
            hm = re.search(r"(?:Self::|self\.)?(\w+)\s*\(\s*&?\s*self\s*\.\s*%s\s*\)|self\s*\.\s*%s\s*\.\s*(\w+)\s*\(\s*\)" % (name, name), b)
            hb = hm and rsread.body(st, hm.group(1) or hm.group(2))
            if hb:
                phases = [code for code, fn in PH if re.search(r"\.\s*%s\s*\(\)" % fn, hb)]
                empty = bool(re.search(r"storage\s*\.\s*is_empty\s*\(\)", hb))
        return (phases, empty) if phases else None
    qf, qb = side("front"), side("back")
    if qf is None or qb is None:
        fails.append("unreadable: stream.rs: the phase / storage tests of Stream::is_quiesced (model: both directions initial|completed|terminated and storage empty)")
    # conjunction of both directions: no `||` joins the two halves
    tail = b.strip().split(";")[-1]
    qand = True
    if re.search(r"\|\|", tail) and not re.search(r"&&", tail):
        qand = False
    mux = _read("lib/src/protocol/mux/mod.rs")
    sd = None
    for m in re.finditer(r"\bfn\s+shutting_down\b", mux):
        cand = rsread.body(mux, "shutting_down", m.start())
        if cand and "is_quiesced" in cand:
            sd = cand
            break
    if sd is None:
        fails.append("mux/mod.rs: no shutting_down consults Stream::is_quiesced any more (model: a linked stream keeps the session, an unlinked one unless quiesced, a pending frontend write keeps it)")
    else:
        flag = re.search(r"let\s+mut\s+(\w+)\s*=\s*true\s*;", sd)
        v = flag.group(1) if flag else r"\w+"
        if not re.search(r"Linked\s*\(\s*_\s*\)\s*=>\s*\{?\s*%s\s*=\s*false" % v, sd):
            fails.append("mux/mod.rs: shutting_down: a stream linked to a backend no longer keeps the session (`Linked(_) => <flag> = false` not found)")
        if not re.search(r"Unlinked\s*=>.*?is_quiesced\s*\(\).*?%s\s*=\s*false" % v, sd, re.S):
            fails.append("mux/mod.rs: shutting_down: an unlinked stream no longer keeps the session unless quiesced (`Unlinked => .. is_quiesced() .. <flag> = false` not found)")
        if not re.search(r"has_pending_write\s*\(\)", sd):
            fails.append("mux/mod.rs: shutting_down: a pending frontend write no longer keeps the session (has_pending_write() not consulted)")
    return (list(qf) if qf else None), (list(qb) if qb else None), qand


def order_of_return(srv, fails):
    """T-order: the calls of Server::return_listen_sockets in the order the source makes them"""
    import rsread
    b = rsread.body(srv, "return_listen_sockets")
    if b is None:
        fails.append("unreadable: server.rs: fn return_listen_sockets not found")
        return None
    pats = [(1, r"self\s*\.\s*http\s*\.\s*borrow_mut\(\)\s*\.\s*give_back_listeners\(\)"), (2, r"self\s*\.\s*https\s*\.\s*borrow_mut\(\)\s*\.\s*give_back_listeners\(\)"),
            (3, r"self\s*\.\s*tcp\s*\.\s*borrow_mut\(\)\s*\.\s*give_back_listeners\(\)"), (4, r"self\s*\.\s*udp\s*\.\s*borrow_mut\(\)\s*\.\s*give_back_listeners\(\)"),
            (5, r"\bListeners\s*\{"), (6, r"\.\s*send_listeners\s*\("),
            (8, r"into_raw_fd\s*\(\)"), (9, r"\bdrop\s*\(\s*\w*listeners\w*\s*\)|\w*listeners\w*\s*\.\s*close\s*\(\)|libc::close")]
    steps = rsread.all_positions(b, pats)
    if sorted(set(steps) & {1, 2, 3, 4, 5, 6}) != [1, 2, 3, 4, 5, 6]:
        fails.append("unreadable: server.rs: return_listen_sockets: the give_back_listeners calls of the four proxies, the manifest and send_listeners (model: take, build from borrowed descriptors, send, then drop)")
        return None
    if 5 in steps and not re.search(r"as_raw_fd\s*\(\)", b):
        fails.append("server.rs: return_listen_sockets no longer builds the manifest from borrowed descriptors (as_raw_fd)")
    return steps + [7]          # the local listener vectors go out of scope at the end of the function


CLIENTS = ("HTTP", "HTTPS", "TCP", "UDP")


def protocol_numbers(protos, fails):
    """the permanent-slot protocols and the client protocols as positions in `pub enum Protocol` (lib/src/lib.rs)"""
    import rsread
    lib = _read("lib/src/lib.rs")
    m = re.search(r"\bpub\s+enum\s+Protocol\s*\{([^}]*)\}", lib)
    names = [x.strip() for x in m.group(1).split(",") if x.strip()] if m else []
    if not names or any(not re.fullmatch(r"[A-Za-z0-9_]+", n) for n in names) or protos is None:
        if not names or any(not re.fullmatch(r"[A-Za-z0-9_]+", n) for n in names):
            fails.append("unreadable: lib.rs: the variants of `pub enum Protocol` (model: 4 client protocols, 7 permanent ones)")
        return None, None, None
    unknown = [n for n in sorted(protos) + list(CLIENTS) if n not in names]
    if unknown:
        fails.append("lib.rs: enum Protocol has no variant %s" % unknown)
        return None, None, None
    return sorted(names.index(n) for n in protos), sorted(names.index(n) for n in CLIENTS), len(names)


def order_of_shutdown(srv, fails, got=None):
    import rsread
    b = rsread.body(srv, "shut_down_sessions")
    if b is None:
        fails.append("unreadable: server.rs: fn shut_down_sessions not found")
        return None
    # the comparison that guards the answer: `if X <= Y {` (or `Y >= X`) whose block takes the request id
    guard = None
    for m in re.finditer(r"\bif\s+(\w+)\s*(<=|>=|<|>|==)\s*(\w+)\s*\{", b):
        import rustmini
        try:
            blk = b[m.end():rustmini.match_brace(b, m.end() - 1)]
        except rustmini.Unrecognised:
            continue
        if re.search(r"shutting_down\s*\.\s*take\s*\(\)", blk):
            guard = (m, blk)
            break
    if guard is None:
        fails.append("unreadable: server.rs: shut_down_sessions: the comparison guarding the single take() of the request id (model: sessions left <= listener/system slots)")
        return None
    m, blk = guard
    x, op, y = m.group(1), m.group(2), m.group(3)
    if op == ">=":
        x, y, op = y, x, "<="
    if op != "<=":
        fails.append("server.rs: shut_down_sessions answers when `%s %s %s` (model: sessions left <= floor)" % (m.group(1), m.group(2), m.group(3)))
    # X = what is left in the slab, counted after the closable sessions were closed
    dx = re.search(r"let\s+%s\s*=\s*([^;]*slab[^;]*\.len\s*\(\)[^;]*);" % re.escape(x), b)
    # Y = the permanent slots, counted from the slab by a predicate over Protocol
    dy = re.search(r"let\s+%s\s*=\s*([^;]*slab[^;]*\.filter\s*\(([^;]*)\)\s*\.count\s*\(\)[^;]*);" % re.escape(y), b, re.S)
    if not dx or not dy:
        fails.append("unreadable: server.rs: shut_down_sessions: how `%s` (sessions left) and `%s` (the floor) are computed (model: slab length after closing; slab entries whose protocol is a listener / channel / metrics / timer)" % (x, y))
    else:
        protos = _protocols_of(dy.group(2), srv)
        if not protos:
            fails.append("unreadable: server.rs: shut_down_sessions: the protocols counted as permanent slots")
        else:
            if got is not None:
                got["protos"] = protos
            if protos != PERMANENT:
                fails.append("server.rs: shut_down_sessions counts %s as permanent slots, the model assumes %s" % (sorted(protos), sorted(PERMANENT)))
    if len(re.findall(r"shutting_down\s*\.\s*take\s*\(\)", b)) != 1:
        fails.append("server.rs: shut_down_sessions no longer takes the soft-stop request id exactly once")
    if len(re.findall(r"WorkerResponse::ok\s*\(", b)) != 1:
        fails.append("server.rs: shut_down_sessions no longer builds exactly one OK answer")
    closer = re.search(r"self\s*\.\s*(\w*shut_down_sessions_by\w*|\w*close_sessions\w*|\w*kill_sessions\w*)\s*\(", b)
    pats = [(1, r"\.\s*shutting_down\s*\(\)"), (2, re.escape(closer.group(0)) if closer else r"\bNO_CLOSER\b"),
            (3, r"let\s+%s\s*=" % re.escape(x)), (4, re.escape(m.group(0))), (5, r"shutting_down\s*\.\s*take\s*\(\)"),
            (6, r"WorkerResponse::ok\s*\("), (7, r"\.\s*write_message\s*\("), (8, r"return\s+true\s*;")]
    steps = rsread.all_positions(b, pats)
    if sorted(set(steps)) != [1, 2, 3, 4, 5, 6, 7, 8]:
        fails.append("unreadable: server.rs: shut_down_sessions: the calls poll / close / count / compare / take / answer / write / return (found %s)" % steps)
        return None
    return steps


V4 = ["1.1.1.1", "10.0.0.1", "127.0.0.1", "192.168.100.200", "255.255.255.255", "127.100.100.100"]
V6 = ["::1", "::", "2001:db8::1", "2001:db8:aaaa:bbbb:cccc:dddd:eeee:ffff", "fe80::1234:5678:9abc:def0", "ffff:ffff:ffff:ffff:ffff:ffff:ffff:fffe"]
PORTS = [1, 80, 443, 8080, 10000, 65535]


def addr(rng, style):
    if style == "v4short":
        return "%s:%d" % (rng.choice(V4[:3]), rng.choice(PORTS[:3]))
    if style == "v4long":
        return "%s:%d" % (rng.choice(V4[3:]), rng.choice(PORTS[4:]))
    if style == "v6long":
        return "[%s]:%d" % (rng.choice(V6[3:]), rng.choice(PORTS[4:]))
    if style == "v6":
        return "[%s]:%d" % (rng.choice(V6), rng.choice(PORTS))
    return addr(rng, rng.choice(["v4short", "v4long", "v6", "v6long"]))


def one_case(rng, cid):
    k = rng.random()
    if k < 0.25:
        total = rng.choice([0, 1, 2, 3, 5, 10, 40])
    elif k < 0.6:
        total = rng.choice([83, 84, 85, 170, 178, 179, 180, 190, 199, 200, 200, 200])
    elif k < 0.8:
        total = rng.choice([201, 202, 252, 253, 254, 260])
    else:
        total = rng.randint(0, 200)
    style = rng.choice(["v4short", "v4long", "v6long", "v6", "mix", "v4long", "v6long"])
    cuts = sorted(rng.randint(0, total) for _ in range(3))
    if rng.random() < 0.3:
        cuts = [total, total, total] if rng.random() < 0.5 else [0, 0, total]
    n = [cuts[0], cuts[1] - cuts[0], cuts[2] - cuts[1], total - cuts[2]]
    addrs = [addr(rng, style).encode() for _ in range(total)]
    ops = [["consts"], ["xfer"] + n + addrs]
    return Case(cid, ops, dict(total=total, fams=sum(1 for x in n if x)))


def raw_case(rng, cid):
    """a manifest and a descriptor count that do not match, or a manifest cut short: what receive_listeners does with
    the descriptors it was given"""
    total = rng.choice([0, 1, 2, 3, 10, 50, 199, 200, 201, 210])
    cuts = sorted(rng.randint(0, total) for _ in range(3))
    n = [cuts[0], cuts[1] - cuts[0], cuts[2] - cuts[1], total - cuts[2]]
    style = rng.choice(["v4short", "v4long", "v6", "mix"])
    addrs = [addr(rng, style).encode() for _ in range(total)]
    k = rng.random()
    if k < 0.35:
        nfds = max(0, total - rng.choice([1, 1, 2, total]))
    elif k < 0.6:
        nfds = min(253, total + rng.choice([1, 2, 3, 40]))
    elif k < 0.7:
        nfds = rng.choice([201, 230, 253])
    else:
        nfds = min(total, 253)
    cut = 0
    if total > 0 and rng.random() < 0.35:
        cut = rng.choice([1, 2, 5, 30])
    return Case(cid, [["raw"] + n + [nfds, cut] + addrs], dict(total=total, fams=sum(1 for x in n if x)))


def gen_cases(rng, tier):
    n = {"quick": 700, "thorough": 8000, "search": 3000}.get(tier, 700)
    return [one_case(rng, "m%d" % i) if i % 4 else raw_case(rng, "r%d" % i) for i in range(n)]


def corpus_cases():
    d = os.path.join(vlib.ROOT, "corpus", ID)
    out = []
    if os.path.isdir(d):
        for f in sorted(os.listdir(d)):
            if f.endswith(".case"):
                for c in vlib.parse_cases(open(os.path.join(d, f)).read()):
                    c.id = "k" + c.id
                    out.append(c)
    return out


def extra_stage(tier, rng, work):
    """black-box tier (one run of each scenario in quick, six in thorough): real worker threads.
    softstop: http + https + tcp listeners, an HTTP request in flight at SoftStop completes; after the acknowledgement
    every listening socket is closed (a connection attempt is REFUSED on each listener type), exactly one final OK, the
    worker exits. softstop_h2: HTTP/2 over the https listener: (a) a request still uploading, (b) a complete response
    window-blocked toward the client with the backend already gone, (c) an idle connection; GOAWAY on each at once, no
    final OK and no exit while a stream is open, a stream opened after the GOAWAY is not served, both streams complete
    intact once the client uploads the rest / opens its window, then one final OK and the exit. handover: http (with and without a public address), https, tcp (both), udp listeners;
    ReturnListenSockets -> every listener comes back under the address it is bound to, paired with the very socket
    (inode) that was bound to it -> a successor started with them; once the old worker has exited exactly one socket is
    bound to each address, the handed-over one; connections queued during the hand-over and six new ones per http/tcp
    address are all served.  A violation counts only if it reproduces three times."""
    cfgs = [(sc, rng.randrange(1, 10 ** 6)) for sc in ("softstop", "softstop_h2", "handover") for _ in range(6 if tier == "thorough" else 1)]
    cases = [Case("bb%d_%s" % (i, c[0]), [["bb"] + list(c)], {}) for i, c in enumerate(cfgs)]

    def run(cs, tag):
        return vlib.run_harness(HARNESS_BIN, cs, os.path.join(work, tag), "release", timeout=900, shards=min(4, len(cs)))

    outs, problems = run(cases, "bb")
    fails, viols, inconclusive, done = list(problems), [], [], 0
    reproduced = 0
    known = vlib.load_known()
    for c in cases:
        o = outs.get(c.id)
        if o is None:
            fails.append("black-box case %s produced no output" % c.id)
            continue
        if any("setup-failed" in n or n.startswith("invalid-case") for n in o["notes"]):
            inconclusive.append(c.id + ": setup failed")
            continue
        done += 1
        vs = list(o["viol"]) + ([("panic", o["panic"])] if o["panic"] is not None else [])
        hit = False
        again = None            # the scenario is re-run (twice) once per case, whatever the number of its findings
        for v in vs:
            if vlib.match_known(ID, v[0], v[1], known):
                viols.append((c, v[0], v[1]))
                continue
            if again is None and reproduced >= 2:
                again = [set([x[0] for x in vs])] * 2       # two scenarios already reproduced: no more re-runs
            if again is None:
                again = []
                for k in (1, 2):
                    o2, _ = run([c], "bb_retry%d" % k)
                    oo = o2.get(c.id) or dict(viol=[], panic=None)
                    again.append(set(x[0] for x in oo["viol"]) | ({"panic"} if oo.get("panic") is not None else set()))
            if all(v[0] in a for a in again):
                viols.append((c, v[0], v[1]))
                hit = True
            else:
                inconclusive.append("%s: [%s] did not reproduce" % (c.id, v[0]))
        if hit:
            reproduced += 1
    return dict(failures=fails, viols=viols,
                coverage=dict(blackbox_runs=len(cases), blackbox_completed=done, blackbox_inconclusive=inconclusive))


def nontrivial(case, o):
    for op in case.ops:
        if op[0] in ("xfer", "raw"):
            n = op[1:5]
            total = sum(n)
            if sum(1 for x in n if x) >= 2 or any(abs(total - b) <= 10 for b in (84, 179, 200, 253)):
                return True
    return False


LEVEL_TEXT = ("Machine-checked proof (Coq 8.16) over an executable model of the listener hand-over codec (length-delimited "
              "ListenersCount manifest + SCM_RIGHTS descriptors, receive buffer and descriptor limits taken from the "
              "source on every run), of descriptor ownership across hand-over steps including a crash of the old worker "
              "at message boundaries, and of the soft-stop bookkeeping: the manifest of every listener set up to "
              "MAX_FDS_OUT fits the receive buffer, round-trips with each address paired with its own descriptor in "
              "order, no descriptor is ever without a holder, and a soft stop is answered exactly once, only at the "
              "session floor. The codec is tied to command/src/scm_socket.rs by a differential run of the real ScmSocket "
              "pair with real descriptors against the extracted model.")
LEVEL_NOTE = ("Partial: kernel listen-socket continuity, crash at an arbitrary instruction and the real re-exec are outside; "
              "descriptor conservation and soft-stop theorems are model-level (tied by translator shape checks of "
              "shut_down_sessions, not by a differential run); in-flight request completion (Mux::shutting_down, graceful deadline) is not "
              "modelled.")
TECHNIQUE = "Rocq/Coq proof over an executable Gallina model + differential correspondence (extracted OCaml vs real crate)"
CLAIMED = True
