//! C15 driver: the real `parser::{frame_header, frame_body, settings_frame}`,
//! the `pub(crate)` serializer and `H2FloodDetector` (through the
//! `cfg(sozu_verif)` hook `mux::verif_h2`), and `Context::create_stream` /
//! `shrink_trailing_recycle`, each with its own oracle written from RFC 9113
//! (not from the code).
use std::{cell::RefCell, collections::HashMap, rc::Rc, time::Duration};

use sozu_command_lib::config::ListenerBuilder;
use sozu_command_lib::proto::command::SocketAddress;
use sozu_lib::{
    http::HttpListener,
    pool::Pool,
    protocol::mux::{
        parser::{self, Frame, FrameHeader, FrameType, H2Error, ParserError, ParserErrorKind, PriorityPart},
        verif_h2 as vh, Context, H2FloodConfig, StreamState,
    },
};
use verif_harness::*;

fn ft_toks(f: &FrameType) -> Vec<Tok> {
    let (c, raw) = match f {
        FrameType::Data => (0, 0),
        FrameType::Headers => (1, 0),
        FrameType::Priority => (2, 0),
        FrameType::RstStream => (3, 0),
        FrameType::Settings => (4, 0),
        FrameType::PushPromise => (5, 0),
        FrameType::Ping => (6, 0),
        FrameType::GoAway => (7, 0),
        FrameType::WindowUpdate => (8, 0),
        FrameType::Continuation => (9, 0),
        FrameType::PriorityUpdate => (10, 0),
        FrameType::Unknown(t) => (11, *t),
    };
    vec![tn(c), tn(raw)]
}

fn ft_of_code(c: i128, raw: i128) -> FrameType {
    match c {
        0 => FrameType::Data,
        1 => FrameType::Headers,
        2 => FrameType::Priority,
        3 => FrameType::RstStream,
        4 => FrameType::Settings,
        5 => FrameType::PushPromise,
        6 => FrameType::Ping,
        7 => FrameType::GoAway,
        8 => FrameType::WindowUpdate,
        9 => FrameType::Continuation,
        10 => FrameType::PriorityUpdate,
        _ => FrameType::Unknown(raw as u8),
    }
}

fn prio_toks(p: &PriorityPart) -> Vec<Tok> {
    match p {
        PriorityPart::Rfc7540 { stream_dependency, weight } => {
            vec![tbool(stream_dependency.exclusive), tn(stream_dependency.stream_id), tn(*weight)]
        }
        PriorityPart::Rfc9218 { urgency, incremental } => vec![ts("rfc9218"), tn(*urgency), tbool(*incremental)],
    }
}

fn frame_toks(f: &Frame, body: &[u8]) -> Vec<Tok> {
    match f {
        Frame::Data(d) => vec![
            ts("data"),
            tn(d.stream_id),
            tn(d.payload.start),
            tb(d.payload.data_opt(body).unwrap_or(b"\xde\xad")),
            tbool(d.end_stream),
        ],
        Frame::Headers(h) => {
            let mut v = vec![ts("headers"), tn(h.stream_id)];
            match &h.priority {
                Some(p) => {
                    v.push(ts("prio"));
                    v.extend(prio_toks(p));
                }
                None => v.push(ts("noprio")),
            }
            v.push(tn(h.header_block_fragment.start));
            v.push(tb(h.header_block_fragment.data_opt(body).unwrap_or(b"\xde\xad")));
            v.push(tbool(h.end_stream));
            v.push(tbool(h.end_headers));
            v
        }
        Frame::Priority(p) => {
            let mut v = vec![ts("priority"), tn(p.stream_id)];
            v.extend(prio_toks(&p.inner));
            v
        }
        Frame::RstStream(r) => vec![ts("rst"), tn(r.stream_id), tn(r.error_code)],
        Frame::Settings(s) => {
            let mut v = vec![ts("settings"), tbool(s.ack)];
            for e in &s.settings {
                v.push(tn(e.identifier));
                v.push(tn(e.value));
            }
            v
        }
        Frame::PushPromise(_) => vec![ts("push_promise")],
        Frame::Ping(p) => vec![ts("ping"), tb(&p.payload), tbool(p.ack)],
        Frame::GoAway(g) => vec![
            ts("goaway"),
            tn(g.last_stream_id),
            tn(g.error_code),
            tn(g.additional_debug_data.start),
            tb(g.additional_debug_data.data_opt(body).unwrap_or(b"\xde\xad")),
        ],
        Frame::WindowUpdate(w) => vec![ts("wu"), tn(w.stream_id), tn(w.increment)],
        Frame::Continuation(_) => vec![ts("continuation")],
        Frame::PriorityUpdate(p) => vec![ts("pu"), tn(p.prioritized_stream_id), tb(&p.priority_field_value)],
        Frame::Unknown(t) => vec![ts("unknown"), tn(*t)],
    }
}

/// `Some(err)` for an H2-classified error, `None` for a nom error (Eof...)
fn classify(e: &nom::Err<ParserError>) -> Option<H2Error> {
    match e {
        nom::Err::Error(ParserError { kind: ParserErrorKind::H2(e), .. })
        | nom::Err::Failure(ParserError { kind: ParserErrorKind::H2(e), .. }) => Some(*e),
        _ => None,
    }
}

/// What h2.rs turns the error into (`error_nom_to_h2`).
fn to_h2(e: &nom::Err<ParserError>) -> H2Error {
    classify(e).unwrap_or(H2Error::ProtocolError)
}

// ---------------------------------------------------------------------------
// RFC 9113 oracle for one complete frame (written from the RFC text).

#[derive(PartialEq, Debug, Clone, Copy)]
enum Want {
    Accept,
    FrameSize,
    Protocol,
    /// the RFC leaves the class open / an implementation limit applies
    Reject,
}

fn rfc_expect(input: &[u8], max: u32) -> Option<(Want, usize)> {
    if input.len() < 9 {
        return None;
    }
    let plen = ((input[0] as usize) << 16) | ((input[1] as usize) << 8) | input[2] as usize;
    let t = input[3];
    let flags = input[4];
    let sid = u32::from_be_bytes([input[5], input[6], input[7], input[8]]) & 0x7fff_ffff;
    if plen > max as usize {
        return Some((Want::FrameSize, plen)); // 4.2
    }
    let zero_only = matches!(t, 4 | 6 | 7 | 0x10);
    let nonzero_only = matches!(t, 0 | 1 | 2 | 3 | 5 | 9);
    if (zero_only && sid != 0) || (nonzero_only && sid == 0) {
        return Some((Want::Protocol, plen)); // 6.x "MUST be associated with a stream" / "stream identifier MUST be zero"
    }
    if input.len() < 9 + plen {
        return None; // incomplete: only exactness is checked
    }
    let p = &input[9..9 + plen];
    let w = match t {
        0 | 1 => {
            let mut rem = plen as i64;
            let mut pad = 0i64;
            let mut w = Want::Accept;
            if flags & 0x8 != 0 {
                if plen == 0 {
                    w = Want::Reject;
                } else {
                    pad = p[0] as i64;
                    rem -= 1;
                }
            }
            if w == Want::Accept && t == 1 && flags & 0x20 != 0 {
                if rem < 5 {
                    w = Want::Reject;
                }
                rem -= 5;
            }
            if w == Want::Accept && pad > rem {
                w = Want::Protocol; // 6.1: padding >= remaining payload
            }
            w
        }
        2 => if plen == 5 { Want::Accept } else { Want::FrameSize },
        3 => if plen == 4 { Want::Accept } else { Want::FrameSize },
        4 => {
            if flags & 1 != 0 && plen != 0 {
                Want::FrameSize
            } else if plen % 6 != 0 {
                Want::FrameSize
            } else if plen / 6 > 64 {
                Want::Reject // implementation limit of sozu (MAX_SETTINGS_ENTRIES)
            } else {
                Want::Accept
            }
        }
        5 => Want::Protocol, // push is never enabled by sozu: 8.4
        6 => if plen == 8 { Want::Accept } else { Want::FrameSize },
        7 => if plen >= 8 { Want::Accept } else { Want::FrameSize },
        8 => if plen == 4 { Want::Accept } else { Want::FrameSize },
        9 => Want::Accept,
        0x10 => {
            if plen < 4 {
                Want::FrameSize
            } else if plen - 4 > 1024 {
                Want::Reject
            } else {
                Want::Accept
            }
        }
        _ => Want::Accept, // 5.5: unknown types are ignored
    };
    Some((w, plen))
}

fn op_dec(max: u32, input: &[u8], out: &mut Out) {
    let want = rfc_expect(input, max);
    let mut obs = vec![];
    let got: Result<(), H2Error>;
    match parser::frame_header(input, max) {
        Err(e) => {
            match classify(&e) {
                Some(h) => {
                    obs.push(ts("hfail"));
                    obs.push(ts(h.as_str()));
                    if input.len() < 3 {
                        out.viol("error-without-input", &format!("frame_header failed with {h} on {} bytes", input.len()));
                    }
                }
                None => {
                    obs.push(ts("hshort"));
                    if input.len() >= 9 {
                        out.viol("header-short", "frame_header asked for more than 9 bytes");
                    }
                }
            }
            got = Err(to_h2(&e));
            if input.len() >= 9 {
                check_class(want, &got, out, input);
            }
        }
        Ok((rest, header)) => {
            if rest.len() + 9 != input.len() {
                out.viol("exact-consumption", &format!("frame_header consumed {} bytes", input.len() - rest.len()));
            }
            if header.payload_len > max {
                out.viol("over-max", &format!("accepted payload_len {} > max {}", header.payload_len, max));
            }
            if header.stream_id & 0x8000_0000 != 0 {
                out.viol("reserved-bit", "stream id keeps the reserved bit");
            }
            obs.push(tn(header.payload_len));
            obs.extend(ft_toks(&header.frame_type));
            obs.push(tn(header.flags));
            obs.push(tn(header.stream_id));
            match parser::frame_body(rest, &header) {
                Ok((rest2, frame)) => {
                    let consumed = rest.len() - rest2.len();
                    if consumed != header.payload_len as usize {
                        out.viol(
                            "exact-consumption",
                            &format!("frame_body consumed {consumed} bytes for payload_len {}", header.payload_len),
                        );
                    }
                    // everything a frame exposes must lie inside its own payload
                    let (start, len) = match &frame {
                        Frame::Data(d) => (d.payload.start as usize, d.payload.len as usize),
                        Frame::Headers(h) => (h.header_block_fragment.start as usize, h.header_block_fragment.len as usize),
                        Frame::GoAway(g) => (g.additional_debug_data.start as usize, g.additional_debug_data.len as usize),
                        _ => (0, 0),
                    };
                    if start + len > header.payload_len as usize {
                        out.viol("slice-outside-payload", &format!("slice {start}+{len} outside payload of {}", header.payload_len));
                    }
                    if let Frame::Settings(s) = &frame {
                        if s.settings.len() * 6 != header.payload_len as usize || s.settings.len() > 64 {
                            out.viol("settings-count", &format!("{} entries for {} bytes", s.settings.len(), header.payload_len));
                        }
                    }
                    obs.push(ts("ok"));
                    obs.push(tn(rest2.len()));
                    obs.extend(frame_toks(&frame, rest));
                    got = Ok(());
                    check_class(want, &got, out, input);
                }
                Err(e) => {
                    match classify(&e) {
                        Some(h) => {
                            obs.push(ts("fail"));
                            obs.push(ts(h.as_str()));
                        }
                        None => obs.push(ts("short")),
                    }
                    got = Err(to_h2(&e));
                    if rest.len() >= header.payload_len as usize {
                        check_class(want, &got, out, input);
                    }
                }
            }
        }
    }
    out.obs(&obs);
}

fn check_class(want: Option<(Want, usize)>, got: &Result<(), H2Error>, out: &mut Out, input: &[u8]) {
    let Some((w, _)) = want else { return };
    let ok = match (w, got) {
        (Want::Accept, Ok(())) => true,
        (Want::FrameSize, Err(H2Error::FrameSizeError)) => true,
        (Want::Protocol, Err(H2Error::ProtocolError)) => true,
        (Want::Reject, Err(_)) => true,
        _ => false,
    };
    if !ok {
        let head: Vec<String> = input.iter().take(12).map(|b| format!("{b:02x}")).collect();
        out.viol("rfc-class", &format!("RFC 9113 wants {w:?}, the parser answered {got:?} for frame {}", head.join("")));
    }
}

fn op_sdec(data: &[u8], ack: bool, out: &mut Out) {
    let header = FrameHeader { payload_len: data.len() as u32, frame_type: FrameType::Settings, flags: ack as u8, stream_id: 0 };
    let mut obs = vec![];
    match parser::settings_frame(data, &header) {
        Ok((rest, f)) => {
            obs.push(ts("ok"));
            obs.push(tn(rest.len()));
            obs.extend(frame_toks(&f, data));
            if let Frame::Settings(s) = &f {
                if s.settings.len() > 64 {
                    out.viol("settings-count", "more than MAX_SETTINGS_ENTRIES entries allocated");
                }
            }
        }
        Err(e) => match classify(&e) {
            Some(h) => {
                obs.push(ts("fail"));
                obs.push(ts(h.as_str()));
            }
            None => obs.push(ts("short")),
        },
    }
    out.obs(&obs);
}

// ---------------------------------------------------------------------------
// encoders: the oracle is the round trip through the real parser

fn emit<F>(cap: usize, out: &mut Out, f: F) -> Option<Vec<u8>>
where
    F: FnOnce(&mut [u8]) -> Option<usize>,
{
    let mut buf = vec![0xAAu8; cap + 8];
    let r = f(&mut buf[..cap]);
    if buf[cap..].iter().any(|b| *b != 0xAA) {
        out.viol("encoder-overrun", "serializer wrote past the buffer it was given");
    }
    match r {
        Some(n) => {
            if n > cap {
                out.viol("encoder-overrun", &format!("serializer reports {n} bytes in a buffer of {cap}"));
                out.obs(&[ts("ok"), tb(&buf[..cap])]);
                return None;
            }
            out.obs(&[ts("ok"), tb(&buf[..n])]);
            Some(buf[..n].to_vec())
        }
        None => {
            out.obs(&[ts("small")]);
            None
        }
    }
}

fn reparse(bytes: &[u8], out: &mut Out) -> Option<(FrameHeader, Frame, Vec<u8>)> {
    match parser::frame_header(bytes, 16_777_215) {
        Ok((rest, h)) => match parser::frame_body(rest, &h) {
            Ok((rest2, f)) => {
                if !rest2.is_empty() {
                    out.viol("roundtrip", "emitted frame is longer than its own length field says");
                }
                Some((h, f, rest.to_vec()))
            }
            Err(e) => {
                out.viol("roundtrip", &format!("emitted frame body is rejected by the parser: {:?}", to_h2(&e)));
                None
            }
        },
        Err(e) => {
            out.viol("roundtrip", &format!("emitted frame header is rejected by the parser: {:?}", to_h2(&e)));
            None
        }
    }
}

// ---------------------------------------------------------------------------

const FLOOD_KEYS: [&str; 13] = [
    "h2.flood.violation.rst_stream_window",
    "h2.flood.violation.ping_window",
    "h2.flood.violation.ping_lifetime",
    "h2.flood.violation.settings_window",
    "h2.flood.violation.settings_lifetime",
    "h2.flood.violation.empty_data_window",
    "h2.flood.violation.continuation_per_block",
    "h2.flood.violation.window_update_stream0_window",
    "h2.flood.violation.header_size_per_block",
    "h2.flood.violation.glitch_window",
    "h2.flood.violation.rst_stream_lifetime",
    "h2.flood.violation.rst_stream_pre_response_lifetime",
    "h2.flood.violation.rst_stream_emitted_lifetime",
];

fn viol_toks(v: &Option<vh::H2FloodViolation>, out: &mut Out) -> Vec<Tok> {
    match v {
        None => vec![ts("none")],
        Some(v) => {
            let k = FLOOD_KEYS.iter().position(|k| *k == v.metric_key).map(|k| k as i128).unwrap_or(99);
            if v.error != H2Error::EnhanceYourCalm {
                out.viol("flood-error-class", &format!("flood violation carries {} instead of ENHANCE_YOUR_CALM", v.error));
            }
            if v.count <= v.threshold {
                out.viol("flood-false-positive", &format!("{} tripped at {} <= {}", v.reason, v.count, v.threshold));
            }
            vec![ts("trip"), tn(k), tn(v.count), tn(v.threshold)]
        }
    }
}

struct Flood {
    d: vh::H2FloodDetector,
    cfg: H2FloodConfig,
    age_ms: u64,
}

fn counters_toks(d: &vh::H2FloodDetector) -> Vec<Tok> {
    vh::flood_counters(d).iter().map(|c| tn(*c)).collect()
}

/// windowed counters and their thresholds: (index in flood_counters, threshold)
fn windowed(cfg: &H2FloodConfig) -> [(usize, u64); 8] {
    [
        (0, cfg.max_rst_stream_per_window as u64),
        (4, cfg.max_ping_per_window as u64),
        (6, cfg.max_settings_per_window as u64),
        (8, cfg.max_empty_data_per_window as u64),
        (9, cfg.max_window_update_stream0_per_window as u64),
        (10, cfg.max_continuation_frames as u64),
        (11, cfg.max_header_list_size as u64),
        (12, cfg.max_glitch_count as u64),
    ]
}

struct Slots {
    ctx: Context<HttpListener>,
    _pool: Rc<RefCell<Pool>>,
    map: HashMap<u32, usize>,
}

fn slot_toks(s: &Slots) -> Vec<Tok> {
    let mut v = vec![tn(s.ctx.streams.len())];
    for st in &s.ctx.streams {
        v.push(tbool(st.state == StreamState::Recycle));
    }
    v
}

fn slot_oracle(s: &Slots, out: &mut Out) {
    for (sid, gid) in &s.map {
        if *gid >= s.ctx.streams.len() {
            out.viol("slot-index", &format!("stream {sid} maps to slot {gid} but only {} slots exist", s.ctx.streams.len()));
        } else if s.ctx.streams[*gid].state == StreamState::Recycle {
            out.viol("slot-index", &format!("stream {sid} maps to the recycled slot {gid}"));
        }
    }
    let mut seen = std::collections::HashSet::new();
    for gid in s.map.values() {
        if !seen.insert(*gid) {
            out.viol("slot-shared", &format!("two live streams share slot {gid}"));
        }
    }
}

fn run(case: &Case, out: &mut Out) {
    let mut flood: Option<Flood> = None;
    let mut slots: Option<Slots> = None;
    for op in &case.ops {
        let a = &op.args;
        match op.name.as_str() {
            "dec" => op_dec(a[0].n() as u32, a[1].b(), out),
            "sdec" => op_sdec(a[0].b(), a[1].n() == 1, out),
            "ehdr" => {
                let h = FrameHeader {
                    payload_len: a[1].n() as u32,
                    frame_type: ft_of_code(a[2].n(), a[3].n()),
                    flags: a[4].n() as u8,
                    stream_id: a[5].n() as u32,
                };
                if let Some(b) = emit(a[0].n() as usize, out, |buf| vh::gen_frame_header(buf, &h).ok().map(|x| x.1)) {
                    if b.len() != 9 {
                        out.viol("roundtrip", "frame header is not 9 bytes");
                    } else if b[5] & 0x80 != 0 {
                        out.viol("reserved-bit", "emitted stream id has the reserved bit set");
                    }
                }
            }
            "erst" => {
                let sid = a[1].n() as u32;
                let code = H2Error::try_from(a[2].n() as u32).unwrap_or(H2Error::NoError);
                if let Some(b) = emit(a[0].n() as usize, out, |buf| vh::gen_rst_stream(buf, sid, code).ok().map(|x| x.1)) {
                    if sid & 0x7fff_ffff != 0 {
                        match reparse(&b, out) {
                            Some((_, Frame::RstStream(r), _)) if r.stream_id == sid & 0x7fff_ffff && r.error_code == code as u32 => {}
                            Some((_, f, _)) => out.viol("roundtrip", &format!("RST_STREAM({sid},{code}) decodes as {f:?}")),
                            None => {}
                        }
                    }
                }
            }
            "ewu" => {
                let sid = a[1].n() as u32;
                let inc = a[2].n() as u32;
                if let Some(b) = emit(a[0].n() as usize, out, |buf| vh::gen_window_update(buf, sid, inc).ok().map(|x| x.1)) {
                    match reparse(&b, out) {
                        Some((_, Frame::WindowUpdate(w), _)) if w.stream_id == sid & 0x7fff_ffff && w.increment == inc & 0x7fff_ffff => {}
                        Some((_, f, _)) => out.viol("roundtrip", &format!("WINDOW_UPDATE({sid},{inc}) decodes as {f:?}")),
                        None => {}
                    }
                }
            }
            "egoaway" => {
                let last = a[1].n() as u32;
                let code = H2Error::try_from(a[2].n() as u32).unwrap_or(H2Error::NoError);
                if let Some(b) = emit(a[0].n() as usize, out, |buf| vh::gen_goaway(buf, last, code).ok().map(|x| x.1)) {
                    match reparse(&b, out) {
                        Some((_, Frame::GoAway(g), _)) if g.last_stream_id == last & 0x7fff_ffff && g.error_code == code as u32 && g.additional_debug_data.len == 0 => {}
                        Some((_, f, _)) => out.viol("roundtrip", &format!("GOAWAY({last},{code}) decodes as {f:?}")),
                        None => {}
                    }
                }
            }
            "eping" => {
                let p = a[1].b().to_vec();
                if let Some(b) = emit(a[0].n() as usize, out, |buf| vh::gen_ping_acknowledgement(buf, &p).ok().map(|x| x.1)) {
                    if p.len() == 8 {
                        match reparse(&b, out) {
                            Some((_, Frame::Ping(g), _)) if g.ack && g.payload[..] == p[..] => {}
                            Some((_, f, _)) => out.viol("roundtrip", &format!("PING ack decodes as {f:?}")),
                            None => {}
                        }
                    }
                }
            }
            "esettings" => {
                let s = vh::H2Settings {
                    settings_header_table_size: a[1].n() as u32,
                    settings_enable_push: a[2].n() == 1,
                    settings_max_concurrent_streams: a[3].n() as u32,
                    settings_initial_window_size: a[4].n() as u32,
                    settings_max_frame_size: a[5].n() as u32,
                    settings_max_header_list_size: a[6].n() as u32,
                    settings_enable_connect_protocol: a[7].n() == 1,
                    settings_no_rfc7540_priorities: a[8].n() == 1,
                };
                if let Some(b) = emit(a[0].n() as usize, out, |buf| vh::gen_settings(buf, &s).ok().map(|x| x.1)) {
                    let want: Vec<(u16, u32)> = vec![
                        (1, s.settings_header_table_size),
                        (2, s.settings_enable_push as u32),
                        (3, s.settings_max_concurrent_streams),
                        (4, s.settings_initial_window_size),
                        (5, s.settings_max_frame_size),
                        (6, s.settings_max_header_list_size),
                        (8, s.settings_enable_connect_protocol as u32),
                        (9, s.settings_no_rfc7540_priorities as u32),
                    ];
                    match reparse(&b, out) {
                        Some((_, Frame::Settings(g), _))
                            if !g.ack && g.settings.iter().map(|e| (e.identifier, e.value)).collect::<Vec<_>>() == want => {}
                        Some((_, f, _)) => out.viol("roundtrip", &format!("SETTINGS decodes as {f:?}")),
                        None => {}
                    }
                }
            }
            "eack" => {
                let b = vh::SETTINGS_ACKNOWLEDGEMENT.to_vec();
                out.obs(&[ts("ok"), tb(&b)]);
                match reparse(&b, out) {
                    Some((_, Frame::Settings(g), _)) if g.ack && g.settings.is_empty() => {}
                    Some((_, f, _)) => out.viol("roundtrip", &format!("SETTINGS ack decodes as {f:?}")),
                    None => {}
                }
            }
            "fnew" => {
                let v: Vec<u64> = a.iter().map(|t| t.n() as u64).collect();
                let cfg = H2FloodConfig::new(
                    v[0] as u32, v[1] as u32, v[2] as u32, v[3] as u32, v[4] as u32, v[5] as u32, v[6] as u32, v[7], v[8], v[9],
                    v[10] as u32, 65536, 128,
                );
                let d = vh::H2FloodDetector::new(cfg);
                out.obs(&counters_toks(&d));
                flood = Some(Flood { d, cfg, age_ms: 0 });
            }
            "fbump" | "fadd" | "fset" | "frst" | "femit" | "ftick" | "freset" | "fcheck" => {
                let Some(f) = flood.as_mut() else {
                    out.note("invalid-case: flood op before fnew");
                    out.obs(&[]);
                    continue;
                };
                let before = vh::flood_counters(&f.d);
                let mut obs = vec![];
                match op.name.as_str() {
                    // what the frame handlers of h2.rs do before check_flood (tied by the source census)
                    "fbump" => {
                        let k = a[0].n() as usize;
                        let cur = before[k];
                        if k == 9 {
                            vh::flood_set_counter(&mut f.d, 9, (cur as u32).saturating_add(1) as u64);
                        } else {
                            vh::flood_set_counter(&mut f.d, k, (cur as u32).wrapping_add(1) as u64);
                        }
                        if k == 4 {
                            vh::flood_set_counter(&mut f.d, 5, (before[5] as u32).saturating_add(1) as u64);
                        }
                        if k == 6 {
                            vh::flood_set_counter(&mut f.d, 7, (before[7] as u32).saturating_add(1) as u64);
                        }
                    }
                    "fadd" => {
                        let v = a[1].n() as u32;
                        vh::flood_set_counter(&mut f.d, 11, (before[11] as u32).saturating_add(v) as u64);
                    }
                    "fset" => vh::flood_set_counter(&mut f.d, a[0].n() as usize, a[1].n() as u64),
                    "frst" => {
                        let v = f.d.record_rst_lifetime(a[0].n() == 1);
                        obs.extend(viol_toks(&v, out));
                    }
                    "femit" => {
                        let v = f.d.record_rst_emitted();
                        obs.extend(viol_toks(&v, out));
                    }
                    "ftick" => f.age_ms += a[0].n() as u64,
                    "freset" => f.d.reset_continuation(),
                    _ => {
                        vh::flood_set_window_age(&mut f.d, Duration::from_millis(f.age_ms));
                        let v = f.d.check_flood();
                        let decayed = f.age_ms >= 1000;
                        if decayed {
                            f.age_ms = 0;
                        }
                        let after = vh::flood_counters(&f.d);
                        for i in 0..13 {
                            if after[i] > before[i] {
                                out.viol("flood-decay-increases", &format!("counter {i} grew from {} to {} inside check_flood", before[i], after[i]));
                            }
                        }
                        for i in [1usize, 2, 3, 5, 7] {
                            if after[i] != before[i] {
                                out.viol("flood-lifetime-decays", &format!("lifetime counter {i} changed from {} to {}", before[i], after[i]));
                            }
                        }
                        if v.is_none() {
                            for (i, th) in windowed(&f.cfg) {
                                if after[i] > th {
                                    out.viol("flood-missed", &format!("counter {i} is {} above its threshold {th} and check_flood is silent", after[i]));
                                }
                            }
                            if after[5] > 10_000 || after[7] > 10_000 {
                                out.viol("flood-missed", "lifetime PING/SETTINGS counter above its cap and check_flood is silent");
                            }
                        }
                        obs.extend(viol_toks(&v, out));
                    }
                }
                if op.name != "ftick" {
                    obs.extend(counters_toks(&f.d));
                }
                out.obs(&obs);
            }
            "trl" => {
                // the real pkawa::handle_trailer on an HPACK block built from (kind, name length, value length) triples
                use sozu_lib::protocol::mux::verif_hdr::handle_trailer;
                let (max_list, max_fields, es, length_framed) = (a[0].n() as u32, a[1].n() as u32, a[2].n() == 1, a[3].n() == 1);
                let mut pool = sozu_lib::pool::Pool::with_capacity(1, 2, 16393);
                let mut kawa = kawa::Kawa::new(kawa::Kind::Request, kawa::Buffer::new(pool.checkout().expect("checkout")));
                kawa.body_size = if length_framed { kawa::BodySize::Length(0) } else { kawa::BodySize::Chunked };
                let mut enc = loona_hpack::Encoder::new();
                let mut block = vec![];
                let mut sent = 0usize;
                let mut total = 0usize;
                for (i, t) in a[4..].chunks(3).enumerate() {
                    if t.len() < 3 {
                        break;
                    }
                    let (kind, nl, vl) = (t[0].n(), t[1].n() as usize, t[2].n() as usize);
                    let mut name: Vec<u8> = match kind {
                        2 => b"x-real-ip".to_vec(),
                        _ => {
                            let mut n = format!("n{i}").into_bytes();
                            n.resize(nl.max(1), b'a');
                            n.truncate(nl.max(1));
                            n
                        }
                    };
                    if kind == 1 {
                        name[0] = b':';
                    }
                    if kind == 3 {
                        name[0] = b'A';
                    }
                    let value = vec![b'v'; vl];
                    total += name.len() + value.len() + 32;
                    sent += 1;
                    enc.encode_header_into((&name[..], &value[..]), &mut block).unwrap();
                }
                let mut dec = loona_hpack::Decoder::new();
                let before = kawa.blocks.iter().filter(|b| matches!(b, kawa::Block::Header(_))).count();
                let r = handle_trailer(&mut kawa, &block, es, &mut dec, max_list, max_fields, false);
                let stored = kawa.blocks.iter().filter(|b| matches!(b, kawa::Block::Header(_))).count() - before;
                match r {
                    Ok(()) => {
                        // independent oracle: what one accepted trailer block may make the proxy hold
                        let budget = (max_list as usize).min(8192);
                        if total > budget || sent > max_fields as usize || stored > sent {
                            out.viol("trailer-over-budget", &format!("accepted a trailer block of {sent} fields / {total} accounted octets (stored {stored}) with a budget of {budget} octets and {max_fields} fields"));
                        }
                        if !es {
                            out.viol("rfc-class", "a trailer block without END_STREAM was accepted (RFC 9113 8.1)");
                        }
                        out.obs(&[ts("ok"), tn(stored)]);
                    }
                    Err((e, global)) => {
                        if global {
                            out.viol("trailer-error-scope", &format!("a well-formed HPACK trailer block was answered with the connection error {e:?}"));
                        }
                        out.obs(&[ts("err"), ts(e.as_str())]);
                    }
                }
            }
            "snew" => {
                let ratio = a[0].n() as u32;
                let pool = Rc::new(RefCell::new(Pool::with_capacity(2, 200, 256)));
                let mut cfg = ListenerBuilder::new_http(SocketAddress::new_v4(127, 0, 0, 1, 0)).to_http(None).expect("listener config");
                cfg.h2_stream_shrink_ratio = Some(ratio);
                let listener = Rc::new(RefCell::new(HttpListener::new(cfg, mio::Token(0)).expect("listener")));
                let ctx = Context::new(
                    rusty_ulid::Ulid::generate(),
                    Rc::downgrade(&pool),
                    listener,
                    None,
                    "127.0.0.1:80".parse().unwrap(),
                );
                if ctx.h2_stream_shrink_ratio != ratio as usize {
                    out.note("invalid-case: shrink ratio was clamped");
                }
                slots = Some(Slots { ctx, _pool: pool, map: HashMap::new() });
                out.obs(&[]);
            }
            "screate" | "skill" | "sshrink" => {
                let Some(s) = slots.as_mut() else {
                    out.note("invalid-case: slot op before snew");
                    out.obs(&[]);
                    continue;
                };
                let mut obs = vec![];
                match op.name.as_str() {
                    "screate" => {
                        let sid = a[0].n() as u32;
                        let had_recycle = s.ctx.streams.iter().any(|x| x.state == StreamState::Recycle);
                        match s.ctx.create_stream(rusty_ulid::Ulid::generate(), 65535) {
                            Some(g) => {
                                // ConnectionH2::create_stream: the stream leaves Idle when its headers arrive
                                if g < s.ctx.streams.len() {
                                    s.ctx.streams[g].state = StreamState::Link;
                                }
                                s.map.insert(sid, g);
                                obs.push(ts(if had_recycle { "reuse" } else { "push" }));
                                obs.push(tn(g));
                            }
                            None => {
                                out.note("invalid-case: buffer pool exhausted");
                                obs.push(ts("none"));
                            }
                        }
                    }
                    "skill" => {
                        let sid = a[0].n() as u32;
                        // ConnectionH2 end of stream on the frontend side: state = Recycle + remove_dead_stream
                        match s.map.remove(&sid) {
                            Some(g) => {
                                s.ctx.streams[g].state = StreamState::Recycle;
                                obs.push(ts("dead"));
                                obs.push(tn(g));
                            }
                            None => obs.push(ts("absent")),
                        }
                    }
                    _ => s.ctx.shrink_trailing_recycle(),
                }
                obs.extend(slot_toks(s));
                slot_oracle(s, out);
                out.obs(&obs);
            }
            "blackbox" => {
                // replay of one black-box scenario: run the sibling binary and relay its verdicts
                let exe = std::env::current_exe().ok().and_then(|p| p.parent().map(|d| d.join("c15bb")));
                if let Some(exe) = exe {
                    if let Ok(o) = std::process::Command::new(exe).arg("thorough").arg(a[0].s()).output() {
                        for l in String::from_utf8_lossy(&o.stdout).lines() {
                            if let Some(rest) = l.strip_prefix("viol ") {
                                let mut it = rest.splitn(2, ' ');
                                let class = it.next().unwrap_or("bb");
                                out.viol(class, it.next().unwrap_or(""));
                            }
                        }
                    }
                }
                out.obs(&[]);
            }
            other => {
                out.note(&format!("invalid-case: unknown op {other}"));
                out.obs(&[]);
            }
        }
    }
}

fn main() {
    // the parser logs through sozu's logger, which defaults to stdout (our protocol channel)
    let _ = sozu_command_lib::logging::setup_logging("file:///dev/null", false, None, None, None, "error", "C15");
    drive(run);
}
