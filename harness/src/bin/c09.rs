//! C09 driver: the real `CommandHub` (bin/src/command/server.rs) running in a
//! thread, with fake workers registered over socketpairs and scripted clients
//! on the real command socket.
//!
//! Every scripted step is followed by a double barrier (a `ListWorkers`
//! request from a control client, twice): when the second answer arrives every
//! effect of the step has been processed by the run loop and flushed, so the
//! observation of a step is deterministic (see props/c09.py RULE).
//!
//! ops
//!   hub W T C            W fake workers (ids 0..W), worker_timeout T s, C clients
//!   req c <verb> [n]     client c sends one request
//!   resp w w2 k st       worker w answers with the id of the k-th request received by w2
//!   respu w st           worker w answers with an id the hub never issued
//!   close w              worker w closes its channel
//!   cclose c             client c disconnects
//!   sleep ms             let real time pass
//!   end                  stop the hub (control HardStop) and join the thread
//!
//! observation of a step:
//!   c <status>* (per client) w <run_state>* q <tid idx>* (per worker)     hub alive
//!   c <status>* (per client) stopped                                    hub exited
use std::io::{Read, Write};
use std::os::unix::net::{UnixListener, UnixStream};
use std::sync::mpsc;
use std::time::{Duration, Instant};

use prost::Message;
use sozu::command::server::CommandHub;
use sozu_command_lib::{
    channel::Channel,
    config::Config,
    logging::LOGGER,
    proto::command::{
        request::RequestType, response_content::ContentType, Cluster, CountRequests, FrontendFilters,
        HardStop, ListListeners, ListWorkers, QueryClustersHashes, QueryMetricsOptions, RemoveBackend,
        Request, Response, ReturnListenSockets, SocketAddress, SoftStop, Status, WorkerRequest,
        WorkerResponse,
    },
    scm_socket::ScmSocket,
};
use verif_harness::*;

const OK: i32 = 0;
const PROCESSING: i32 = 1;
const FAILURE: i32 = 2;

// ---------------------------------------------------------------------------
// framing (command/src/channel.rs: little-endian usize length, counting itself)

fn frame(payload: &[u8]) -> Vec<u8> {
    let mut v = (payload.len() + 8).to_le_bytes().to_vec();
    v.extend_from_slice(payload);
    v
}

struct Peer {
    sock: Option<UnixStream>,
    buf: Vec<u8>,
    eof: bool,
}

impl Peer {
    fn new(sock: UnixStream) -> Peer {
        Peer { sock: Some(sock), buf: vec![], eof: false }
    }
    fn send(&mut self, payload: &[u8]) -> bool {
        match self.sock.as_mut() {
            Some(s) => {
                s.set_nonblocking(false).ok();
                s.set_write_timeout(Some(Duration::from_secs(5))).ok();
                s.write_all(&frame(payload)).is_ok()
            }
            None => false,
        }
    }
    /// pull whatever is available (non-blocking)
    fn pump(&mut self) {
        let Some(s) = self.sock.as_mut() else { return };
        s.set_nonblocking(true).ok();
        let mut tmp = [0u8; 65536];
        loop {
            match s.read(&mut tmp) {
                Ok(0) => {
                    self.eof = true;
                    break;
                }
                Ok(n) => self.buf.extend_from_slice(&tmp[..n]),
                Err(e) if e.kind() == std::io::ErrorKind::WouldBlock => break,
                Err(e) if e.kind() == std::io::ErrorKind::Interrupted => continue,
                Err(_) => {
                    self.eof = true;
                    break;
                }
            }
        }
    }
    /// payloads of the complete frames already received, left in place
    fn peek_frames(&self) -> Vec<Vec<u8>> {
        let mut v = vec![];
        let mut at = 0;
        while self.buf.len() >= at + 8 {
            let len = usize::from_le_bytes(self.buf[at..at + 8].try_into().unwrap());
            if len < 8 || self.buf.len() < at + len {
                break;
            }
            v.push(self.buf[at + 8..at + len].to_vec());
            at += len;
        }
        v
    }
    fn take_frame(&mut self) -> Option<Vec<u8>> {
        if self.buf.len() < 8 {
            return None;
        }
        let len = usize::from_le_bytes(self.buf[..8].try_into().unwrap());
        if len < 8 || self.buf.len() < len {
            return None;
        }
        let payload = self.buf[8..len].to_vec();
        self.buf.drain(..len);
        Some(payload)
    }
    /// wait (up to `ms`) for one frame; None on timeout or EOF
    fn wait_frame(&mut self, ms: u64) -> Option<Vec<u8>> {
        let t0 = Instant::now();
        loop {
            self.pump();
            if let Some(f) = self.take_frame() {
                return Some(f);
            }
            if self.eof || t0.elapsed() > Duration::from_millis(ms) {
                return None;
            }
            std::thread::sleep(Duration::from_micros(200));
        }
    }
    fn close(&mut self) {
        if let Some(s) = self.sock.take() {
            let _ = s.shutdown(std::net::Shutdown::Both);
        }
    }
}

// ---------------------------------------------------------------------------

#[derive(Clone, Copy, PartialEq, Debug)]
enum Kind {
    Worker,   // scattered, default timeout, verdict = f(errors, timed_out)
    Load,     // scattered (n requests), no timeout, verdict = f(errors)
    Query,    // scattered, default timeout, informational OK
    Stop,     // scattered, informational OK, terminal for the hub
    Local,    // answered by the main process alone
    NoAnswer, // verbs the main process has no handler for
}

struct Rq {
    client: usize,
    verb: String,
    kind: Kind,
    timed: bool,
    alive: Vec<usize>,     // fake workers not closed when the request was sent
    tids: Vec<i128>,       // task ids seen in the scattered request ids
    nreq: usize,           // number of scattered requests expected per worker
    sent_logical: u64,     // logical ms at send
    t_before: Instant,
    t_after: Instant,
    finals: Vec<i32>,
    final_logical: Option<u64>,
}

struct FakeWorker {
    peer: Peer,
    closed: bool,
    /// not part of the hub at all (a stopped worker the new main process did not take over)
    absent: bool,
    received: Vec<(String, String)>, // (id, short name)
    /// terminal answers sent by this worker: (id, status, sequence number)
    answered: Vec<(String, i32, usize)>,
}

struct World {
    dir: String,
    clients: Vec<Peer>,
    outstanding: Vec<Option<usize>>, // per client: index into rqs
    control: Peer,
    workers: Vec<FakeWorker>,
    rqs: Vec<Rq>,
    timeout_s: u64,
    logical: u64,
    seq: usize,
    stop_requested: bool,
    stopped: bool,
    done_rx: mpsc::Receiver<Result<bool, String>>,
    timing_ok: bool,
    hub_failed: Option<String>,
    handover_ok: Option<bool>,
}

struct Sleepers(Vec<std::process::Child>);
impl Sleepers {
    fn new(n: usize) -> Sleepers {
        Sleepers(
            (0..n)
                .map(|_| {
                    std::process::Command::new("sleep")
                        .arg("1000000")
                        .stdin(std::process::Stdio::null())
                        .stdout(std::process::Stdio::null())
                        .stderr(std::process::Stdio::null())
                        .spawn()
                        .expect("spawn sleep")
                })
                .collect(),
        )
    }
}
impl Drop for Sleepers {
    fn drop(&mut self) {
        for c in self.0.iter_mut() {
            let _ = c.kill();
            let _ = c.wait();
        }
    }
}

fn request_of(verb: &str, rqn: usize, dir: &str, n: usize) -> (Request, Kind, bool, usize) {
    let rt = |r: RequestType| Request { request_type: Some(r) };
    match verb {
        "wok" => (
            rt(RequestType::AddCluster(Cluster { cluster_id: format!("cl{rqn}"), ..Default::default() })),
            Kind::Worker,
            true,
            1,
        ),
        "wfail" => (
            rt(RequestType::RemoveBackend(RemoveBackend {
                cluster_id: "nosuch".into(),
                backend_id: "nosuch".into(),
                address: SocketAddress::new_v4(127, 0, 0, 1, 1),
            })),
            Kind::Local,
            false,
            0,
        ),
        "query" => (rt(RequestType::QueryClustersHashes(QueryClustersHashes {})), Kind::Query, true, 1),
        "status" => (rt(RequestType::Status(Status {})), Kind::Query, true, 1),
        "metrics" => (rt(RequestType::QueryMetrics(QueryMetricsOptions::default())), Kind::Query, true, 1),
        // SetMetricDetail (set_metric_detail_request): scattered like a query, answered OK with a per-worker content
        // whatever the workers did; a lease longer than LEASE_TTL_MAX is refused before any scatter
        "mdetail" => (
            rt(RequestType::SetMetricDetail(sozu_command_lib::proto::command::SetMetricDetail {
                client_id: format!("verif:{rqn}"),
                detail: Some(sozu_command_lib::proto::command::MetricDetail::DetailBackend as i32),
                ttl_seconds: Some(30),
                ..Default::default()
            })),
            Kind::Query,
            true,
            1,
        ),
        "mdetailbad" => (
            rt(RequestType::SetMetricDetail(sozu_command_lib::proto::command::SetMetricDetail {
                client_id: format!("verif:{rqn}"),
                detail: Some(sozu_command_lib::proto::command::MetricDetail::DetailBackend as i32),
                ttl_seconds: Some(100_000),
                ..Default::default()
            })),
            Kind::Local,
            false,
            0,
        ),
        "local" => {
            let r = match rqn % 4 {
                0 => RequestType::ListWorkers(ListWorkers {}),
                1 => RequestType::ListListeners(ListListeners {}),
                2 => RequestType::CountRequests(CountRequests {}),
                _ => RequestType::ListFrontends(FrontendFilters::default()),
            };
            (rt(r), Kind::Local, false, 0)
        }
        "none" => (Request { request_type: None }, Kind::NoAnswer, false, 0),
        "launch" => (rt(RequestType::LaunchWorker("x".into())), Kind::NoAnswer, false, 0),
        "retsock" => (rt(RequestType::ReturnListenSockets(ReturnListenSockets {})), Kind::NoAnswer, false, 0),
        "hardstop" => (rt(RequestType::HardStop(HardStop {})), Kind::Stop, true, 1),
        "softstop" => (rt(RequestType::SoftStop(SoftStop {})), Kind::Stop, false, 1),
        "load" => {
            let path = format!("{dir}/state{rqn}.json");
            let mut f = std::fs::File::create(&path).unwrap();
            for i in 0..n {
                let wr = WorkerRequest {
                    id: format!("SAVE-{i}"),
                    content: rt(RequestType::AddCluster(Cluster {
                        cluster_id: format!("ld{rqn}x{i}"),
                        ..Default::default()
                    })),
                };
                f.write_all(serde_json::to_string(&wr).unwrap().as_bytes()).unwrap();
                f.write_all(b"\n\0").unwrap();
            }
            (rt(RequestType::LoadState(path)), Kind::Load, true, n)
        }
        "loadbig" => {
            // a state file larger than the parse buffer of load_state (200000 bytes here): n records, padded
            let path = format!("{dir}/statebig{rqn}.json");
            let mut f = std::fs::File::create(&path).unwrap();
            for i in 0..n {
                let wr = WorkerRequest {
                    id: format!("SAVE-{i}"),
                    content: rt(RequestType::AddCluster(Cluster {
                        cluster_id: format!("big{rqn}x{i}-{}", "p".repeat(200)),
                        ..Default::default()
                    })),
                };
                f.write_all(serde_json::to_string(&wr).unwrap().as_bytes()).unwrap();
                f.write_all(b"\n\0").unwrap();
            }
            (rt(RequestType::LoadState(path)), Kind::Load, true, n)
        }
        "loadbad" => {
            // n valid records, then one that is cut in the middle (no terminator): the
            // parser stops there after the n requests have been scattered
            let path = format!("{dir}/statebad{rqn}.json");
            let mut f = std::fs::File::create(&path).unwrap();
            for i in 0..n {
                let wr = WorkerRequest {
                    id: format!("SAVE-{i}"),
                    content: rt(RequestType::AddCluster(Cluster {
                        cluster_id: format!("lb{rqn}x{i}"),
                        ..Default::default()
                    })),
                };
                f.write_all(serde_json::to_string(&wr).unwrap().as_bytes()).unwrap();
                f.write_all(b"\n\0").unwrap();
            }
            f.write_all(if rqn % 2 == 0 { b"{\"id\":\"SAVE-x\",\"content\":{\"request_ty" as &[u8] } else { b"\xff\xfegarbage\n\0" as &[u8] }).unwrap();
            (rt(RequestType::LoadState(path)), Kind::Local, false, 0)
        }
        "loadmissing" => (rt(RequestType::LoadState(format!("{dir}/nosuchfile"))), Kind::Local, false, 0),
        "reloadbad" => (rt(RequestType::ReloadConfiguration(format!("{dir}/nosuchconfig.toml"))), Kind::Local, false, 0),
        other => panic!("unknown verb {other}"),
    }
}

enum Barrier {
    Alive(Vec<(u32, i32)>),
    Stopped,
    Dead,
}

impl World {
    /// `handover`: Some(stopped worker or -1): the hub the case talks to is not the one that was
    /// built but the one `CommandHub::from_upgrade_data` re-creates from its serialised `UpgradeData`
    fn start(nw: usize, timeout_s: u64, nc: usize, pids: &[i32], tag: &str, handover: Option<(i64, u64)>) -> World {
        let dir = format!("/tmp/c09-{}-{}", std::process::id(), tag);
        let _ = std::fs::remove_dir_all(&dir);
        std::fs::create_dir_all(&dir).unwrap();
        let sock_path = format!("{dir}/sock");
        let listener = UnixListener::bind(&sock_path).unwrap();
        listener.set_nonblocking(true).unwrap();
        let mut workers = vec![];
        let mut hub_ends = vec![];
        for w in 0..nw {
            let (a, b) = UnixStream::pair().unwrap();
            let (s1, s2) = UnixStream::pair().unwrap();
            a.set_nonblocking(true).unwrap();
            hub_ends.push((w as u32, pids[w], a, s1, s2));
            workers.push(FakeWorker { peer: Peer::new(b), closed: false, absent: false, received: vec![], answered: vec![] });
        }
        let (tx, rx) = mpsc::channel();
        let (ho_tx, ho_rx) = mpsc::channel::<bool>();
        let cfg_path = format!("{dir}/config.toml");
        let sp = sock_path.clone();
        std::thread::Builder::new()
            .name("hub".into())
            .spawn(move || {
                let r = std::panic::catch_unwind(std::panic::AssertUnwindSafe(|| {
                    // the default logger prints errors on stdout: silence it for this thread
                    LOGGER.with(|l| l.borrow_mut().set_directives(vec![]));
                    let mut config = Config::default();
                    config.config_path = cfg_path;
                    config.command_socket = sp;
                    config.command_buffer_size = 16384;
                    // load_state parses max(200000, 2 x max_command_buffer_size) bytes at a time: keep that at
                    // 200000 so that a state file of a thousand records spans two chunks (verb loadbig)
                    config.max_command_buffer_size = 100_000;
                    config.worker_timeout = timeout_s as u32;
                    config.worker_automatic_restart = false;
                    config.worker_count = 0;
                    let listener = mio::net::UnixListener::from_std(listener);
                    let mut hub = CommandHub::new(listener, config, "sozu".to_owned()).expect("hub");
                    let mut keep = vec![];
                    for (id, pid, chan, scm, scm_peer) in hub_ends {
                        use std::os::fd::IntoRawFd;
                        let channel: Channel<WorkerRequest, WorkerResponse> =
                            Channel::new(mio::net::UnixStream::from_std(chan), 16384, 2_000_000);
                        let scm = ScmSocket::new(scm.into_raw_fd()).expect("scm");
                        hub.server.register_worker(id, pid, channel, scm).expect("register");
                        keep.push(scm_peer);
                    }
                    if let Some((stopped, issued)) = handover {
                        // what upgrade_main hands to the new main process, minus the fork:
                        // generate_upgrade_data -> JSON (as fork_main_into_new_main writes it) ->
                        // UpgradeData (as begin_new_main_process reads it) -> from_upgrade_data
                        for i in 0..3 {
                            let _ = hub.server.state.dispatch(&Request {
                                request_type: Some(RequestType::AddCluster(Cluster { cluster_id: format!("before-upgrade-{i}"), ..Default::default() })),
                            });
                        }
                        if stopped >= 0 {
                            let token = hub.server.workers.iter().find(|(_, w)| w.id == stopped as u32).map(|(t, _)| *t);
                            if let Some(token) = token {
                                hub.server.close_worker(&token);
                            }
                        }
                        hub.server.boot_generation = 3;
                        let mut data = hub.server.generate_upgrade_data();
                        // the previous main process had issued `issued` task ids (and their request ids)
                        data.next_task_id += issued as usize;
                        let json = serde_json::to_string(&data).expect("serialize UpgradeData");
                        let back: sozu::command::upgrade::UpgradeData = serde_json::from_str(&json).expect("parse UpgradeData");
                        let same = back.command_socket_fd == data.command_socket_fd
                            && back.config == data.config
                            && back.state == data.state
                            && back.next_client_id == data.next_client_id
                            && back.next_session_id == data.next_session_id
                            && back.next_task_id == data.next_task_id
                            && back.next_worker_id == data.next_worker_id
                            && back.boot_generation == data.boot_generation
                            && back.workers.len() == data.workers.len()
                            && back.workers.iter().zip(data.workers.iter()).all(|(a, b)| {
                                a.channel_fd == b.channel_fd && a.scm_fd == b.scm_fd && a.pid == b.pid && a.id == b.id && a.run_state == b.run_state
                            })
                            && serde_json::to_string(&back).ok().as_deref() == Some(json.as_str());
                        let state_before = data.state.clone();
                        let next_task_before = data.next_task_id;
                        // the old main process keeps its descriptors open until it exits
                        std::mem::forget(hub);
                        let mut hub2 = CommandHub::from_upgrade_data(back).expect("from_upgrade_data");
                        let carried = hub2.server.state == state_before && hub2.server.boot_generation == 3;
                        let _ = next_task_before;
                        let _ = ho_tx.send(same && carried);
                        return hub2.run();
                    }
                    hub.run()
                }));
                let _ = tx.send(r.map_err(|e| {
                    e.downcast_ref::<String>()
                        .cloned()
                        .or_else(|| e.downcast_ref::<&str>().map(|s| s.to_string()))
                        .unwrap_or_else(|| "panic".into())
                }));
            })
            .unwrap();
        let connect = |p: &str| {
            let s = UnixStream::connect(p).expect("connect");
            Peer::new(s)
        };
        let handover_ok = match handover {
            Some(_) => Some(ho_rx.recv_timeout(Duration::from_secs(20)).unwrap_or(false)),
            None => None,
        };
        if let Some((st, _)) = handover {
            if st >= 0 && (st as usize) < workers.len() {
                // a stopped worker is not re-registered by the new main process
                workers[st as usize].closed = true;
                workers[st as usize].absent = true;
            }
        }
        let clients = (0..nc).map(|_| connect(&sock_path)).collect();
        let control = connect(&sock_path);
        World {
            dir,
            clients,
            outstanding: vec![None; nc],
            control,
            workers,
            rqs: vec![],
            timeout_s,
            logical: 0,
            seq: 0,
            stop_requested: false,
            stopped: false,
            done_rx: rx,
            timing_ok: true,
            hub_failed: None,
            handover_ok,
        }
    }

    fn barrier(&mut self) -> Barrier {
        let req = Request { request_type: Some(RequestType::ListWorkers(ListWorkers {})) };
        if !self.control.send(&req.encode_to_vec()) {
            return Barrier::Stopped;
        }
        let t0 = Instant::now();
        loop {
            match self.control.wait_frame(200) {
                Some(f) => {
                    if let Ok(r) = Response::decode(&f[..]) {
                        if r.status == PROCESSING {
                            continue;
                        }
                        if let Some(c) = r.content {
                            if let Some(ContentType::Workers(ws)) = c.content_type {
                                let mut v: Vec<(u32, i32)> = ws.vec.iter().map(|w| (w.id, w.run_state)).collect();
                                v.sort();
                                return Barrier::Alive(v);
                            }
                        }
                    }
                }
                None => {
                    if self.control.eof {
                        return Barrier::Stopped;
                    }
                    if t0.elapsed() > Duration::from_secs(20) {
                        return Barrier::Dead;
                    }
                }
            }
        }
    }

    /// everything the step caused is processed and flushed when this returns
    fn settle(&mut self) -> (Barrier, Instant) {
        let b1_sent = Instant::now();
        let mut last = self.barrier();
        if matches!(last, Barrier::Alive(_)) {
            last = self.barrier();
        }
        if self.stop_requested && matches!(last, Barrier::Alive(_)) {
            std::thread::sleep(Duration::from_millis(30));
            last = self.barrier();
        }
        (last, b1_sent)
    }

    /// the observation of one step + oracle bookkeeping
    fn observe(&mut self, out: &mut Out, extra: &[Tok]) {
        let pending_before: Vec<bool> = self.rqs.iter().map(|r| r.finals.is_empty()).collect();
        let (b, b1_sent) = self.settle();
        let mut toks: Vec<Tok> = extra.to_vec();
        let stopped = !matches!(b, Barrier::Alive(_));
        if let Barrier::Dead = b {
            self.hub_failed = Some(match self.done_rx.try_recv() {
                Ok(Err(p)) => format!("hub thread panicked: {p}"),
                _ => "the hub no longer answers ListWorkers within 20 s".into(),
            });
        }
        if stopped && self.hub_failed.is_none() {
            // the run loop returned (or the thread died): its verdict arrives on the channel
            match self.done_rx.recv_timeout(Duration::from_secs(10)) {
                Ok(Ok(_)) => {}
                Ok(Err(p)) => self.hub_failed = Some(format!("hub thread panicked: {p}")),
                Err(_) => self.hub_failed = Some("command socket closed but run() did not return".into()),
            }
            self.stopped = true;
        }
        // client messages
        for c in 0..self.clients.len() {
            toks.push(ts("c"));
            if stopped {
                // everything up to EOF
                let t0 = Instant::now();
                while !self.clients[c].eof && self.clients[c].sock.is_some() && t0.elapsed() < Duration::from_secs(5) {
                    self.clients[c].pump();
                    std::thread::sleep(Duration::from_micros(200));
                }
            } else {
                self.clients[c].pump();
            }
            while let Some(f) = self.clients[c].take_frame() {
                let st = Response::decode(&f[..]).map(|r| r.status).unwrap_or(99);
                toks.push(tn(st));
                if st == PROCESSING {
                    if self.outstanding[c].is_none() {
                        out.viol("cross-talk", &format!("client {c} got a processing notice with no request outstanding"));
                    }
                    continue;
                }
                match self.outstanding[c] {
                    Some(i) => {
                        self.rqs[i].finals.push(st);
                        if self.rqs[i].final_logical.is_none() {
                            self.rqs[i].final_logical = Some(self.logical);
                            self.check_verdict(i, st, out);
                        }
                    }
                    None => out.viol("cross-talk", &format!("client {c} got a final answer ({st}) with no request outstanding")),
                }
            }
            // a client may send its next request once the previous one is answered
            if let Some(i) = self.outstanding[c] {
                if self.rqs[i].finals.len() > 1 {
                    let r = &self.rqs[i];
                    out.viol("two-finals", &format!("request {} ({}) of client {c} got {} final answers: {:?}", i, r.verb, r.finals.len(), r.finals));
                }
            }
        }
        if stopped {
            toks.push(ts("stopped"));
        } else if let Barrier::Alive(states) = &b {
            toks.push(ts("w"));
            for (_, st) in states {
                toks.push(tn(*st));
            }
            // what the fake workers received
            let cur_rq = self.rqs.len().checked_sub(1);
            for w in 0..self.workers.len() {
                if self.workers[w].absent {
                    continue;
                }
                toks.push(ts("q"));
                if self.workers[w].closed {
                    continue;
                }
                self.workers[w].peer.pump();
                while let Some(f) = self.workers[w].peer.take_frame() {
                    let Ok(wr) = WorkerRequest::decode(&f[..]) else {
                        out.viol("bad-worker-request", &format!("worker {w} got an undecodable request"));
                        continue;
                    };
                    let short = wr.content.short_name().to_string();
                    let parts: Vec<&str> = wr.id.rsplitn(4, '-').collect();
                    let (idx, tid, wid) = if parts.len() == 4 {
                        (parts[0].parse::<i128>().unwrap_or(-1), parts[1].parse::<i128>().unwrap_or(-1), parts[2].parse::<i128>().unwrap_or(-1))
                    } else {
                        (-1, -1, -1)
                    };
                    if wid != w as i128 || parts.len() != 4 || parts[3] != short {
                        out.viol("bad-request-id", &format!("worker {w} got request id {:?} for a {short}", wr.id));
                    }
                    toks.push(tn(tid));
                    toks.push(tn(idx));
                    if let Some(i) = cur_rq {
                        if !self.rqs[i].tids.contains(&tid) {
                            self.rqs[i].tids.push(tid);
                        }
                    }
                    self.workers[w].received.push((wr.id.clone(), short));
                }
            }
        }
        out.obs(&toks);
        // real time must be on the side of the deadline the logical clock says
        let end = Instant::now();
        for (i, r) in self.rqs.iter().enumerate() {
            if !r.timed || !pending_before.get(i).copied().unwrap_or(true) {
                continue;
            }
            let t = Duration::from_secs(self.timeout_s);
            if self.logical > r.sent_logical + 1000 * self.timeout_s {
                if !(r.t_after + t < b1_sent) {
                    self.timing_ok = false;
                }
            } else if !(r.t_before + t > end + Duration::from_millis(20)) {
                self.timing_ok = false;
            }
        }
    }

    /// ok_is_sound, evaluated on the implementation
    fn check_verdict(&mut self, i: usize, st: i32, out: &mut Out) {
        let r = &self.rqs[i];
        if st != OK {
            return;
        }
        let class = match r.kind {
            Kind::Worker | Kind::Load => "ok-unsound",
            Kind::Query => "ok-unsound-query",
            Kind::Stop => "ok-unsound-stop",
            _ => return,
        };
        let mut why = vec![];
        if r.timed && self.logical > r.sent_logical + 1000 * self.timeout_s {
            why.push("the worker timeout had passed".to_string());
        }
        for &w in &r.alive {
            let fw = &self.workers[w];
            let mine: Vec<&(String, String)> = fw
                .received
                .iter()
                .filter(|(id, _)| {
                    let p: Vec<&str> = id.rsplitn(4, '-').collect();
                    p.len() == 4 && r.tids.iter().any(|t| p[1] == t.to_string())
                })
                .collect();
            if mine.len() < r.nreq {
                why.push(format!("worker {w} was alive at dispatch and received {} of {} requests", mine.len(), r.nreq));
            }
            for (id, _) in mine {
                // the first terminal answer carrying this id, sent by anyone (ids are
                // all the hub can see); later ones are duplicates the hub must drop
                let first = self
                    .workers
                    .iter()
                    .flat_map(|x| x.answered.iter())
                    .filter(|(a, s, _)| a == id && (*s == OK || *s == FAILURE))
                    .min_by_key(|(_, _, q)| *q)
                    .map(|(_, s, _)| *s);
                match first {
                    Some(FAILURE) => why.push(format!("request {id} was answered with a failure")),
                    Some(_) => {}
                    None => why.push(format!("request {id} of worker {w} was never acknowledged")),
                }
            }
        }
        if !why.is_empty() {
            out.viol(class, &format!("request {i} ({}) got OK although {}", r.verb, why.join("; ")));
        }
    }

    fn step(&mut self, op: &Op, out: &mut Out) {
        let a = &op.args;
        match op.name.as_str() {
            "req" => {
                let c = a[0].n() as usize;
                let verb = a[1].s().to_string();
                let n = if a.len() > 2 { a[2].n() as usize } else { 0 };
                if self.outstanding[c].is_some() && self.rqs[self.outstanding[c].unwrap()].finals.is_empty() {
                    out.note("invalid-case: client already has a request outstanding");
                }
                let rqn = self.rqs.len();
                let (req, kind, timed, nreq) = request_of(&verb, rqn, &self.dir, n);
                let alive = (0..self.workers.len()).filter(|&w| !self.workers[w].closed).collect();
                let t_before = Instant::now();
                if !self.clients[c].send(&req.encode_to_vec()) {
                    out.note("invalid-case: client socket closed");
                }
                if kind == Kind::Stop {
                    self.stop_requested = true;
                }
                self.rqs.push(Rq {
                    client: c,
                    verb,
                    kind,
                    timed,
                    alive,
                    tids: vec![],
                    nreq,
                    sent_logical: self.logical,
                    t_before,
                    t_after: t_before,
                    finals: vec![],
                    final_logical: None,
                });
                self.outstanding[c] = Some(rqn);
                // t_after: the request has certainly been scattered once the first barrier answered
                let b = self.barrier();
                self.rqs[rqn].t_after = Instant::now();
                let _ = b;
                if nreq >= 100 {
                    // a bulk scatter does not fit the socket buffers: the hub flushes it over several turns of
                    // its loop, as the fake workers read; wait until every worker holds its share
                    let t0 = Instant::now();
                    loop {
                        let mut all = true;
                        for w in 0..self.workers.len() {
                            if self.workers[w].closed || self.workers[w].absent {
                                continue;
                            }
                            self.workers[w].peer.pump();
                            if self.workers[w].peer.peek_frames().len() < nreq {
                                all = false;
                            }
                        }
                        if all || t0.elapsed() > Duration::from_secs(10) {
                            break;
                        }
                        let _ = self.barrier();
                    }
                }
                self.observe(out, &[]);
            }
            "resp" | "respu" => {
                let w = a[0].n() as usize;
                let (id, st) = if op.name == "resp" {
                    let w2 = a[1].n() as usize;
                    let k = a[2].n() as usize;
                    match self.workers[w2].received.get(k) {
                        Some((id, _)) => (id.clone(), a[3].n() as i32),
                        None => {
                            out.note("invalid-case: that request was never received");
                            out.obs(&[]);
                            return;
                        }
                    }
                } else {
                    ("BOGUS-9-99-9".to_string(), a[1].n() as i32)
                };
                let resp = WorkerResponse { id: id.clone(), status: st, message: format!("w{w}"), content: None };
                if self.workers[w].closed || !self.workers[w].peer.send(&resp.encode_to_vec()) {
                    out.note("invalid-case: worker channel closed");
                }
                self.seq += 1;
                let s = self.seq;
                self.workers[w].answered.push((id, st, s));
                self.observe(out, &[]);
            }
            "respold" => {
                // a late answer to a request the PREVIOUS main process had scattered (task id below the
                // counter the hand-over carried): the id is one this hub never issued
                let w = a[0].n() as usize;
                let id = format!("AddCluster-{w}-{}-0", a[1].n());
                let st = a[2].n() as i32;
                let resp = WorkerResponse { id: id.clone(), status: st, message: format!("w{w} late"), content: None };
                if self.workers[w].closed || !self.workers[w].peer.send(&resp.encode_to_vec()) {
                    out.note("invalid-case: worker channel closed");
                }
                self.observe(out, &[]);
            }
            "respall" => {
                // worker w answers every request it has received so far (again, for those it had answered)
                let w = a[0].n() as usize;
                let st = a[1].n() as i32;
                let ids: Vec<String> = self.workers[w].received.iter().map(|(id, _)| id.clone()).collect();
                for id in ids {
                    let resp = WorkerResponse { id: id.clone(), status: st, message: format!("w{w}"), content: None };
                    if self.workers[w].closed || !self.workers[w].peer.send(&resp.encode_to_vec()) {
                        out.note("invalid-case: worker channel closed");
                        break;
                    }
                    self.seq += 1;
                    let sq = self.seq;
                    self.workers[w].answered.push((id, st, sq));
                }
                self.observe(out, &[]);
            }
            "close" => {
                let w = a[0].n() as usize;
                self.workers[w].peer.close();
                self.workers[w].closed = true;
                self.observe(out, &[]);
            }
            "cclose" => {
                let c = a[0].n() as usize;
                self.clients[c].close();
                self.observe(out, &[]);
            }
            "sleep" => {
                let ms = a[0].n() as u64;
                std::thread::sleep(Duration::from_millis(ms));
                self.logical += ms;
                // nothing was written to any socket of the hub meanwhile: a request whose deadline has
                // certainly passed must have been answered by the loop's own wake-up, before the barrier
                // below wakes it (theorem wakeup_covers_every_deadline)
                let now = Instant::now();
                for c in self.clients.iter_mut() {
                    c.pump();
                }
                for i in 0..self.rqs.len() {
                    let r = &self.rqs[i];
                    if !r.timed || !r.finals.is_empty() || self.clients[r.client].sock.is_none() || self.clients[r.client].eof {
                        // (a connection the main process closed: reported as stop-drops-pending at the end)
                        continue;
                    }
                    if r.t_after + Duration::from_secs(self.timeout_s) + Duration::from_millis(250) < now {
                        let answered = self.clients[r.client].peek_frames().iter().any(|f| Response::decode(&f[..]).map(|x| x.status != PROCESSING).unwrap_or(false));
                        if !answered {
                            out.viol("late-verdict", &format!("request {i} ({}) was past its deadline by more than 250 ms of silence and still unanswered: the event loop does not wake up for its deadline", r.verb));
                            self.timing_ok = false;
                        }
                    }
                }
                self.observe(out, &[]);
            }
            _ => {
                out.note(&format!("invalid-case: unknown op {}", op.name));
                out.obs(&[]);
            }
        }
    }

    /// stop the hub: control HardStop, every open fake worker acknowledges
    fn finish(&mut self, out: &mut Out) {
        let mut exit_ok = true;
        if !self.stopped && self.hub_failed.is_none() {
            let req = Request { request_type: Some(RequestType::HardStop(HardStop {})) };
            self.control.send(&req.encode_to_vec());
            let t0 = Instant::now();
            let mut acked = vec![false; self.workers.len()];
            loop {
                for w in 0..self.workers.len() {
                    if self.workers[w].closed || acked[w] {
                        continue;
                    }
                    self.workers[w].peer.pump();
                    while let Some(f) = self.workers[w].peer.take_frame() {
                        if let Ok(wr) = WorkerRequest::decode(&f[..]) {
                            if wr.content.short_name() == "HardStop" {
                                let resp = WorkerResponse { id: wr.id, status: OK, message: String::new(), content: None };
                                self.workers[w].peer.send(&resp.encode_to_vec());
                                acked[w] = true;
                            }
                        }
                    }
                }
                match self.done_rx.try_recv() {
                    Ok(Ok(_)) => break,
                    Ok(Err(p)) => {
                        self.hub_failed = Some(format!("hub thread panicked: {p}"));
                        break;
                    }
                    Err(mpsc::TryRecvError::Disconnected) => break,
                    Err(mpsc::TryRecvError::Empty) => {}
                }
                if t0.elapsed() > Duration::from_secs(self.timeout_s + 20) {
                    exit_ok = false;
                    self.hub_failed = Some("the hub did not stop after HardStop was acknowledged by every worker".into());
                    break;
                }
                std::thread::sleep(Duration::from_micros(300));
            }
        }
        if let Some(why) = &self.hub_failed {
            let class = if why.contains("panicked") { "hub-crash" } else { "hub-hang" };
            out.viol(class, why);
            exit_ok = false;
        }
        // one_verdict / no_hang, evaluated on the implementation
        for (i, r) in self.rqs.iter().enumerate() {
            if !r.finals.is_empty() {
                continue;
            }
            let client_gone = self.clients[r.client].sock.is_none();
            if client_gone {
                continue;
            }
            match r.kind {
                Kind::NoAnswer => out.viol("no-answer", &format!("request {i} ({}) never got a final answer", r.verb)),
                Kind::Local => out.viol("no-answer", &format!("request {i} ({}) is answered by the main process alone and never got a final answer", r.verb)),
                _ if self.stopped && self.hub_failed.is_none() && !matches!(r.kind, Kind::Stop) => {
                    out.viol("stop-drops-pending", &format!("request {i} ({}) was pending when another client's stop completed: the main process stopped and closed the connection without a final answer", r.verb));
                }
                _ => {
                    let expired = r.timed && self.logical > r.sent_logical + 1000 * self.timeout_s;
                    // every worker it was scattered to has answered each request terminally or closed
                    let mut settled = true;
                    for &w in &r.alive {
                        let fw = &self.workers[w];
                        if fw.closed {
                            continue;
                        }
                        let mine = fw.received.iter().filter(|(id, _)| {
                            let p: Vec<&str> = id.rsplitn(4, '-').collect();
                            p.len() == 4 && r.tids.iter().any(|t| p[1] == t.to_string())
                        });
                        let mut n = 0;
                        for (id, _) in mine {
                            n += 1;
                            if !self.workers.iter().flat_map(|x| x.answered.iter()).any(|(a, s, _)| a == id && (*s == OK || *s == FAILURE)) {
                                settled = false;
                            }
                        }
                        if n < r.nreq {
                            settled = false;
                        }
                    }
                    // a verb scattered without deadline, a worker that is alive but silent, and
                    // more than the worker timeout gone by
                    let waited = self.logical > r.sent_logical + 1000 * self.timeout_s;
                    if !r.timed && !settled && waited && r.alive.iter().any(|&w| !self.workers[w].closed) {
                        out.viol(&format!("no-deadline-{}", r.verb), &format!("request {i} ({}) is still unanswered after the worker timeout: it has no deadline and a worker that is alive has not answered", r.verb));
                    }
                    if expired {
                        out.viol("hang", &format!("request {i} ({}) has no final answer although the worker timeout passed", r.verb));
                    } else if settled && r.alive.iter().all(|&w| !self.workers[w].closed) {
                        out.viol("hang", &format!("request {i} ({}) has no final answer although every worker answered", r.verb));
                    } else if settled && !r.timed {
                        out.viol("hang-no-deadline", &format!("request {i} ({}) can never complete: a worker it waits for has disconnected and the task has no deadline", r.verb));
                    }
                }
            }
        }
        out.obs(&[ts("end"), tbool(exit_ok)]);
        for c in self.clients.iter_mut() {
            c.close();
        }
        self.control.close();
        for w in self.workers.iter_mut() {
            w.peer.close();
        }
        let _ = std::fs::remove_dir_all(&self.dir);
    }
}

fn attempt(case: &Case, pids: &[i32], n: usize) -> (Out, bool) {
    let mut out = Out::default();
    let mut world: Option<World> = None;
    for op in &case.ops {
        match op.name.as_str() {
            "hub" => {
                let nw = op.args[0].n() as usize;
                let t = op.args[1].n() as u64;
                let nc = op.args[2].n() as usize;
                if nw > pids.len() {
                    out.note("invalid-case: too many workers");
                    out.obs(&[]);
                    continue;
                }
                let tag = format!("{}-{n}", case.id);
                let mut w = World::start(nw, t, nc, pids, &tag, None);
                w.observe(&mut out, &[]);
                world = Some(w);
            }
            "hub2" => {
                let nw = op.args[0].n() as usize;
                let t = op.args[1].n() as u64;
                let nc = op.args[2].n() as usize;
                let stopped = op.args[3].n() as i64;
                let issued = op.args.get(4).map(|a| a.n() as u64).unwrap_or(0);
                let tag = format!("{}-{n}", case.id);
                let mut w = World::start(nw, t, nc, pids, &tag, Some((stopped, issued)));
                let ok = w.handover_ok == Some(true);
                if !ok {
                    out.viol("upgrade-data", "UpgradeData did not survive its JSON round trip, or the re-created hub does not carry the state / boot generation");
                }
                w.observe(&mut out, &[tbool(ok)]);
                world = Some(w);
            }
            "end" => match world.as_mut() {
                Some(w) => w.finish(&mut out),
                None => out.obs(&[]),
            },
            _ => match world.as_mut() {
                Some(w) if !w.stopped && w.hub_failed.is_none() => w.step(op, &mut out),
                Some(_) => out.obs(&[ts("gone")]),
                None => {
                    out.note("invalid-case: no hub");
                    out.obs(&[]);
                }
            },
        }
    }
    let ok = world.as_ref().map(|w| w.timing_ok).unwrap_or(true);
    (out, ok)
}

fn main() {
    let sleepers = Sleepers::new(4);
    let pids: Vec<i32> = sleepers.0.iter().map(|c| c.id() as i32).collect();
    drive(|case: &Case, out: &mut Out| {
        let mut last = None;
        for n in 0..6 {
            let (o, ok) = attempt(case, &pids, n);
            last = Some(o);
            if ok {
                break;
            }
        }
        let o = last.unwrap();
        out.lines.extend(o.lines);
    });
    drop(sleepers);
}
