(** C17 — lemmas. *)
From Coq Require Import List Arith NArith ZArith Bool Lia.
From SV Require Import Common.Trie C17.Model.
Import ListNotations.

Lemma ins_sorted_length x l : length (ins_sorted x l) = S (length l).
Proof. induction l as [|y r IH]; cbn [ins_sorted length]; [reflexivity|]. destruct (snd x <? snd y)%Z; cbn [length]; lia. Qed.
