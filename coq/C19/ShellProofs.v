(** C19 — lemmas about the shell model ([C19/Shell.v]). *)
From Coq Require Import List NArith Bool Arith Lia.
From SV Require Import Common.Slab C19.Model C19.Proofs C19.Shell.
Import ListNotations.

(* ------------------------------------------------------------------ *)
(** Part 1: [WriteQueue]: what leaves a queue is an in-order, duplicate-free
    selection of what entered it; what stays is a suffix. *)

Lemma wq_drain_spec items : forall sched rest sent sched',
  wq_drain_items items sched = (rest, sent, sched') ->
  exists tried, items = tried ++ rest /\ sublist sent tried.
Proof.
  induction items as [|x items IH]; intros sched rest sent sched' H; cbn in H.
  - inv H. exists []. split; [reflexivity | constructor].
  - destruct (next_outcome sched) as [o s1] eqn:En. destruct o.
    + destruct (wq_drain_items items s1) as [[l w] s2] eqn:Ed. inv H.
      destruct (IH _ _ _ _ Ed) as (tried & -> & Hs).
      exists (x :: tried). split; [reflexivity | apply sl_take; exact Hs].
    + inv H. exists []. split; [reflexivity | constructor].
    + destruct (IH _ _ _ _ H) as (tried & -> & Hs).
      exists (x :: tried). split; [reflexivity | apply sl_skip; exact Hs].
Qed.

Lemma wq_push_spec q d p q' ok :
  wq_push q d p = (q', ok) ->
  wq_cap q' = wq_cap q /\
  (if ok then wq_items q' = wq_items q ++ [(d, p)] /\ length (wq_items q) < wq_cap q
   else q' = q /\ wq_cap q <= length (wq_items q)).
Proof.
  unfold wq_push. destruct (Nat.leb (wq_cap q) (length (wq_items q))) eqn:E; intros H; inv H; cbn.
  - apply Nat.leb_le in E. auto.
  - apply Nat.leb_gt in E. auto.
Qed.

(* ------------------------------------------------------------------ *)
(** Part 2: upstream sockets balance: opened = closed + open, under every
    handler, whatever the manager and the kernel do. *)

Definition BI (sh : shell) : Prop :=
  slab_wf (sh_slab sh) /\ NoDup (map s_tok (sh_socks sh)) /\
  (forall s, In s (sh_socks sh) -> sget (sh_slab sh) (s_tok s) = Some tt) /\
  sh_opened sh = sh_closed sh + length (sh_socks sh).

Lemma sock_of_flow_In l id s : sock_of_flow l id = Some s -> In s l /\ s_flow s = id.
Proof.
  induction l as [|x l IH]; cbn; [discriminate|].
  destruct (Nat.eqb (s_flow x) id) eqn:E.
  - intros H. inv H. apply Nat.eqb_eq in E. auto.
  - intros H. destruct (IH H). auto.
Qed.

Lemma sock_of_tok_In l t s : sock_of_tok l t = Some s -> In s l /\ s_tok s = t.
Proof.
  induction l as [|x l IH]; cbn; [discriminate|].
  destruct (Nat.eqb (s_tok x) t) eqn:E.
  - intros H. inv H. apply Nat.eqb_eq in E. auto.
  - intros H. destruct (IH H). auto.
Qed.

Lemma In_remove_tok l t s : In s (remove_tok l t) <-> In s l /\ s_tok s <> t.
Proof.
  unfold remove_tok. rewrite filter_In, negb_true_iff, Nat.eqb_neq. tauto.
Qed.

Lemma remove_tok_toks l t : map s_tok (remove_tok l t) = filter (fun k => negb (Nat.eqb k t)) (map s_tok l).
Proof. unfold remove_tok. induction l as [|x l IH]; cbn; auto. destruct (Nat.eqb (s_tok x) t); cbn; rewrite IH; reflexivity. Qed.

Lemma filter_all {A} (f : A -> bool) l : (forall x, In x l -> f x = true) -> filter f l = l.
Proof.
  induction l as [|x l IH]; intros H; cbn; auto.
  rewrite (H x (or_introl eq_refl)). f_equal. apply IH. intros y Hy. apply H. right. exact Hy.
Qed.

Lemma remove_tok_length l t s :
  NoDup (map s_tok l) -> In s l -> s_tok s = t -> S (length (remove_tok l t)) = length l.
Proof.
  induction l as [|x l IH]; intros Hnd Hin Ht; [destruct Hin|]. cbn in Hnd. inv Hnd. cbn.
  destruct Hin as [->|Hin].
  - rewrite Nat.eqb_refl. cbn. f_equal.
    assert (remove_tok l (s_tok s) = l) as E.
    { unfold remove_tok. apply filter_all. intros y Hy.
      apply negb_true_iff, Nat.eqb_neq. intros E. apply H1. rewrite <- E. apply in_map. exact Hy. }
    unfold remove_tok in E. rewrite E. reflexivity.
  - destruct (Nat.eqb (s_tok x) (s_tok s)) eqn:E.
    + apply Nat.eqb_eq in E. exfalso. apply H1. rewrite E. apply in_map. exact Hin.
    + cbn. f_equal. apply IH; auto.
Qed.

Lemma set_sock_toks l s' : map s_tok (set_sock l s') = map s_tok l.
Proof.
  induction l as [|x l IH]; cbn; auto. destruct (Nat.eqb (s_tok x) (s_tok s')) eqn:E; cbn.
  - apply Nat.eqb_eq in E. congruence.
  - rewrite IH. reflexivity.
Qed.

Lemma set_sock_length l s' : length (set_sock l s') = length l.
Proof. induction l as [|x l IH]; cbn; auto. destruct (Nat.eqb (s_tok x) (s_tok s')); cbn; auto. Qed.

Lemma In_set_sock l s' x : In x (set_sock l s') -> s_tok x = s_tok s' \/ In x l.
Proof.
  induction l as [|y l IH]; cbn; [tauto|]. destruct (Nat.eqb (s_tok y) (s_tok s')) eqn:E; cbn.
  - intros [<-|H]; auto.
  - intros [<-|H]; auto. destruct (IH H); auto.
Qed.

Lemma BI_set_sock sh s s' :
  BI sh -> In s (sh_socks sh) -> s_tok s' = s_tok s -> BI (with_socks sh (set_sock (sh_socks sh) s')).
Proof.
  intros (Hwf & Hnd & Hocc & Hbal) Hin Ht. unfold BI. cbn.
  rewrite set_sock_toks, set_sock_length. repeat split; auto.
  intros x Hx. destruct (In_set_sock _ _ _ Hx) as [E|Hx']; auto.
  rewrite E, Ht. auto.
Qed.

Section ShellBalance.
Variable hash : bool -> addr -> N.

Lemma BI_call_mgr sh now i : BI sh -> BI (call_mgr hash sh now i).
Proof. unfold call_mgr. destruct (step hash (sh_mgr sh) now i). auto. Qed.

Lemma BI_on_close tk sh id : BI sh -> BI (fst (on_close_flow tk sh id)).
Proof.
  intros (Hwf & Hnd & Hocc & Hbal). unfold on_close_flow.
  destruct (sock_of_flow (sh_socks sh) id) as [s|] eqn:Es; cbn.
  - destruct (sock_of_flow_In _ _ _ Es) as (Hin & _).
    unfold BI. cbn. split; [apply sremove_wf; exact Hwf|]. split; [|split].
    + rewrite remove_tok_toks. apply NoDup_filter. exact Hnd.
    + intros x Hx. apply In_remove_tok in Hx. destruct Hx as (Hx & Hne).
      rewrite sget_sremove. destruct (Nat.eqb (s_tok x) (s_tok s)) eqn:E; [apply Nat.eqb_eq in E; congruence|auto].
    + pose proof (remove_tok_length _ _ _ Hnd Hin eq_refl). lia.
  - unfold BI. cbn. repeat split; auto. lia.
Qed.

Lemma BI_on_open sh now e inc id b : BI sh -> BI (fst (on_open_upstream hash sh now e inc id b)).
Proof.
  intros HB. unfold on_open_upstream. destruct (negb (e_connect e)); cbn [fst]; [apply BI_call_mgr; exact HB|].
  destruct HB as (Hwf & Hnd & Hocc & Hbal).
  rewrite (surjective_pairing (sinsert (sh_slab sh) tt)). rewrite sinsert_key. cbn [fst].
  pose proof (sinsert_fresh Hwf) as Hfresh.
  unfold BI. cbn. split; [apply sinsert_wf; exact Hwf|]. split; [|split].
  - constructor; [|exact Hnd]. intros Hin. apply in_map_iff in Hin. destruct Hin as (x & Ex & Hx).
    pose proof (Hocc _ Hx). congruence.
  - intros x [<-|Hx]; cbn; rewrite (sget_sinsert _ _ Hwf).
    + rewrite Nat.eqb_refl. reflexivity.
    + destruct (Nat.eqb (s_tok x) (s_next (sh_slab sh))) eqn:E; [reflexivity|auto].
  - lia.
Qed.

Lemma BI_process tk sh sched now e lo : BI sh -> BI (fst (fst (process hash tk sh sched now e lo))).
Proof.
  intros HB. unfold process. destruct (snd lo) as [id cl key|id b|d p|d p|d|mm|id|r]; cbn [fst].
  - destruct (e_resolve e) as [[bid a]|]; cbn; apply BI_call_mgr; exact HB.
  - pose proof (BI_on_open sh now e (fst lo) id b HB) as H.
    destruct (on_open_upstream hash sh now e (fst lo) id b). exact H.
  - unfold on_send_to_backend.
    destruct (match sh_iff sh with Some f => Some f | None => _ end) as [f|]; [|exact HB].
    destruct (sock_of_flow (sh_socks sh) f) as [s0|]; [|exact HB].
    destruct (sock_of_tok (sh_socks sh) (s_tok s0)) as [s|] eqn:Es; [|exact HB].
    destruct (sock_of_tok_In _ _ _ Es) as (Hin & _).
    destruct (match s_q s with Some q => negb (wq_is_empty q) | None => false end).
    + destruct (s_q s) as [q|]; [|exact HB]. destruct (wq_push q d p) as [q' ok]. cbn.
      eapply BI_set_sock; eauto.
    + destruct (next_outcome sched) as [o sched']. destruct o; cbn; auto.
      destruct (wq_push _ d p) as [q' ok]. cbn. eapply BI_set_sock; eauto.
  - unfold on_send_to_client. destruct (negb (wq_is_empty (sh_clq sh))).
    + destruct (wq_push (sh_clq sh) d p). exact HB.
    + destruct (next_outcome sched) as [o s']. destruct o; cbn; auto.
      destruct (wq_push (sh_clq sh) d p). exact HB.
  - exact HB.
  - exact HB.
  - pose proof (BI_on_close tk sh id HB) as H. destruct (on_close_flow tk sh id). exact H.
  - exact HB.
Qed.

Lemma BI_drain tk fuel : forall sh sched now e, BI sh -> BI (fst (fst (drain hash tk fuel sh sched now e))).
Proof.
  induction fuel as [|fuel IH]; intros sh sched now e HB; cbn; [exact HB|].
  destruct (sh_q sh) as [|lo q']; [exact HB|].
  pose proof (BI_process tk (with_mgr_q sh (sh_mgr sh) q') sched now e lo HB) as H1.
  destruct (process hash tk (with_mgr_q sh (sh_mgr sh) q') sched now e lo) as [[sh1 sched1] w1].
  specialize (IH sh1 sched1 now e H1).
  destruct (drain hash tk fuel sh1 sched1 now e) as [[sh2 sched2] w2]. exact IH.
Qed.

Lemma BI_step tk sh now e sched ev : BI sh -> BI (fst (shell_step hash tk sh now e sched ev)).
Proof.
  intros HB. destruct ev as [src p|tok p|tok| | | |i]; cbn [shell_step].
  - unfold full_drain.
    match goal with |- context [drain hash tk ?f ?s sched now e] =>
      pose proof (BI_drain tk f s sched now e) as H; destruct (drain hash tk f s sched now e) as [[sh2 s2] w] end.
    cbn. apply H. apply BI_call_mgr. exact HB.
  - destruct (sock_of_tok (sh_socks sh) tok) as [s|]; [|exact HB]. unfold full_drain.
    match goal with |- context [drain hash tk ?f ?s0 sched now e] =>
      pose proof (BI_drain tk f s0 sched now e) as H; destruct (drain hash tk f s0 sched now e) as [[sh2 s2] w] end.
    cbn. apply H. apply BI_call_mgr. exact HB.
  - destruct (sock_of_tok (sh_socks sh) tok) as [s|] eqn:Es; [|exact HB].
    destruct (s_q s) as [q|]; [|exact HB].
    destruct (wq_drain_items (wq_items q) sched) as [[rest sent] s']. cbn.
    destruct (sock_of_tok_In _ _ _ Es) as (Hin & _). eapply BI_set_sock; eauto.
  - destruct (wq_drain_items (wq_items (sh_clq sh)) sched) as [[rest sent] s']. exact HB.
  - unfold full_drain.
    match goal with |- context [drain hash tk ?f ?s0 sched now e] =>
      pose proof (BI_drain tk f s0 sched now e) as H; destruct (drain hash tk f s0 sched now e) as [[sh2 s2] w] end.
    cbn. apply H. apply BI_call_mgr. exact HB.
  - unfold full_drain.
    match goal with |- context [drain hash tk ?f ?s0 sched now e] =>
      pose proof (BI_drain tk f s0 sched now e) as H; destruct (drain hash tk f s0 sched now e) as [[sh2 s2] w] end.
    cbn. apply H. apply BI_call_mgr. exact HB.
  - destruct i; try exact HB; unfold full_drain;
    match goal with |- context [drain hash tk ?f ?s0 sched now e] =>
      pose proof (BI_drain tk f s0 sched now e) as H; destruct (drain hash tk f s0 sched now e) as [[sh2 s2] w] end;
    cbn; apply H; apply BI_call_mgr; exact HB.
Qed.

Lemma BI_new m a : BI (shell_new m a).
Proof.
  unfold BI, shell_new. cbn. repeat split; try constructor.
  - apply (sinsert_wf tt (sempty_wf unit)).
  - intros s [].
Qed.

End ShellBalance.

(* ------------------------------------------------------------------ *)
(** Part 3: what one manager call does to flows, seen forwards. *)

Section Forward.
Variable hash : bool -> addr -> N.

Definition is_client (i : input) : bool := match i with IClient _ _ => true | _ => false end.

Lemma rems_forward m m' o : rems m m' o -> Inv m ->
  (forall id f, sget (m_flows m) id = Some f ->
     sget (m_flows m') id = Some f \/
     (sget (m_flows m') id = None /\ In (Some (f_inc f), CloseFlow id) o)) /\
  (forall i id, In (Some i, CloseFlow id) o -> sget (m_flows m') id = None) /\
  (forall id, sget (m_flows m) id = None -> sget (m_flows m') id = None) /\
  (forall x, In x o -> match snd x with OpenUpstream _ _ => False | _ => True end).
Proof.
  induction 1 as [m|m m' a o Ha H IH|m id0 f0 m' o Hg H IH]; intros HI.
  - repeat split; auto; [intros i id [] | intros x []].
  - destruct (IH HI) as (A & B & C & D). repeat split; auto.
    + intros id f Hf. destruct (A _ _ Hf) as [?|(? & ?)]; auto. right. split; auto. apply in_or_app. auto.
    + intros i id Hin. apply in_app_or in Hin. destruct Hin as [Hin|Hin]; eauto.
      destruct (arms_in _ _ Ha Hin). discriminate.
    + intros x Hx. apply in_app_or in Hx. destruct Hx as [Hx|Hx]; [|apply D; exact Hx].
      destruct (arms_in _ _ Ha Hx) as (d & ->). exact I.
  - destruct (IH (Inv_removed _ _ _ HI Hg)) as (A & B & C & D).
    assert (forall j, sget (m_flows (removed m id0 f0)) j = if Nat.eqb j id0 then None else sget (m_flows m) j) as Hr.
    { intros j. unfold removed. cbn. apply sget_sremove. }
    repeat split.
    + intros id f Hf. destruct (Nat.eqb id id0) eqn:E.
      * apply Nat.eqb_eq in E. subst id. rewrite Hg in Hf. inv Hf. right. split.
        -- apply C. rewrite Hr, Nat.eqb_refl. reflexivity.
        -- right. left. reflexivity.
      * assert (sget (m_flows (removed m id0 f0)) id = Some f) as Hf' by (rewrite Hr, E; exact Hf).
        destruct (A _ _ Hf') as [?|(? & ?)]; auto. right. split; auto. right. right. assumption.
    + intros i id Hin. cbn in Hin. destruct Hin as [E|[E|Hin]]; [discriminate| |eauto].
      inv E. apply C. rewrite Hr, Nat.eqb_refl. reflexivity.
    + intros id Hn. apply C. rewrite Hr. destruct (Nat.eqb id id0); auto.
    + intros x Hx. cbn in Hx. destruct Hx as [<-|[<-|Hx]]; cbn; auto. apply D; exact Hx.
Qed.

Lemma pre_ok_no_close inp id f f' pre x : pre_ok inp id f f' pre -> In x pre ->
  match snd x with CloseFlow _ => False | _ => True end.
Proof.
  intros H Hin. destruct (pre_ok_in _ _ _ _ _ _ H Hin) as (_ & Hx). destruct (snd x); auto.
Qed.

(** the forward view of one call *)
Lemma step_forward m now inp :
  Inv m ->
  let m' := fst (step hash m now inp) in let o := snd (step hash m now inp) in
  (forall id f, sget (m_flows m) id = Some f ->
     (exists f', sget (m_flows m') id = Some f' /\ f_inc f' = f_inc f /\
                 (forall b, f_backend_addr f = Some b -> f_backend_addr f' = Some b)) \/
     (sget (m_flows m') id = None /\ In (Some (f_inc f), CloseFlow id) o)) /\
  (forall i id, In (Some i, CloseFlow id) o -> sget (m_flows m') id = None) /\
  (is_client inp = false -> forall id, sget (m_flows m) id = None -> sget (m_flows m') id = None).
Proof.
  intros HI m' o. pose proof (step_shape hash m now inp HI) as Hs. fold m' o in Hs.
  assert (forall id f, sget (m_flows m) id = Some f ->
            exists f', sget (m_flows m) id = Some f' /\ f_inc f' = f_inc f /\
                       (forall b, f_backend_addr f = Some b -> f_backend_addr f' = Some b)) as Hsame by (intros; eauto).
  destruct Hs as [o Ho|m' E1 E2 E3 E4 H5 H6|id f f' pre o Hg Hs Hp Ht Hpre Ho Hmono Hpend'
                 |id f f' pre o Hg Hs Hpre Ho|m' o Hr|src p o m' cl Ei Ht Hd Hc Ho Em Ecl Hne Hpne].
  - repeat split; auto.
    intros i id Hin. rewrite Forall_forall in Ho. specialize (Ho _ Hin). discriminate.
  - rewrite E1. repeat split; auto. intros i id [].
  - assert (forall j, sget (m_flows (updated m id f')) j = if Nat.eqb j id then Some f' else sget (m_flows m) j) as Hu.
    { intros j. unfold updated. cbn. rewrite sget_sset. destruct (Nat.eqb j id) eqn:E; auto.
      apply Nat.eqb_eq in E. subst j. rewrite Hg. reflexivity. }
    repeat split.
    + intros j g Hj. left. rewrite Hu. destruct (Nat.eqb j id) eqn:E.
      * apply Nat.eqb_eq in E. subst j. rewrite Hg in Hj. inv Hj. exists f'. split; [reflexivity|].
        split; [apply Hs|]. exact Hmono.
      * eauto.
    + intros i j Hin. exfalso. apply in_app_or in Hin. destruct Hin as [Hin|Hin].
      * apply (pre_ok_no_close _ _ _ _ _ _ Hpre Hin).
      * destruct (arms_in _ _ Ho Hin). discriminate.
    + intros _ j Hn. rewrite Hu. destruct (Nat.eqb j id) eqn:E; auto.
      apply Nat.eqb_eq in E. subst j. congruence.
  - assert (forall j, sget (m_flows (removed m id f)) j = if Nat.eqb j id then None else sget (m_flows m) j) as Hr.
    { intros j. unfold removed. cbn. apply sget_sremove. }
    repeat split.
    + intros j g Hj. rewrite Hr. destruct (Nat.eqb j id) eqn:E.
      * apply Nat.eqb_eq in E. subst j. rewrite Hg in Hj. inv Hj. right. split; [reflexivity|].
        apply in_or_app. right. apply in_or_app. left. right. left. reflexivity.
      * left. eauto.
    + intros i j Hin. apply in_app_or in Hin. destruct Hin as [Hin|Hin].
      * exfalso. apply (pre_ok_no_close _ _ _ _ _ _ Hpre Hin).
      * apply in_app_or in Hin. destruct Hin as [Hin|Hin].
        -- cbn in Hin. destruct Hin as [E|[E|[]]]; [discriminate|]. inv E. rewrite Hr, Nat.eqb_refl. reflexivity.
        -- destruct (arms_in _ _ Ho Hin). discriminate.
    + intros _ j Hn. rewrite Hr. destruct (Nat.eqb j id); auto.
  - destruct (rems_forward _ _ _ Hr HI) as (A & B & C & _). repeat split; auto.
    intros id f Hf. destruct (A _ _ Hf) as [H|H]; [left; eauto | right; exact H].
  - subst m' inp. pose proof (inv_wf _ HI) as Hwf. pose proof (sinsert_fresh Hwf) as Hfresh.
    repeat split.
    + intros j g Hj. left. exists g. unfold admitted. cbn. rewrite (sget_sinsert _ _ Hwf).
      destruct (Nat.eqb j (s_next (m_flows m))) eqn:E; [apply Nat.eqb_eq in E; subst j; congruence|auto].
    + intros i j Hin. exfalso. cbn in Hin. destruct Hin as [E|[E|Hin]]; try discriminate.
      destruct (arms_in _ _ Ho Hin). discriminate.
    + cbn. discriminate.
Qed.

(** an upstream is requested only by a resolution of an awaiting flow; in the
    same output list nothing else is opened, and the flow either stays
    (established) or its CloseFlow follows *)
Lemma step_open m now inp i id a :
  Inv m -> In (Some i, OpenUpstream id a) (snd (step hash m now inp)) ->
  (exists f, sget (m_flows m) id = Some f /\ f_inc f = i /\ f_backend_addr f = None) /\
  exists o2, snd (step hash m now inp) = (Some i, OpenUpstream id a) :: o2 /\
    (forall x, In x o2 -> match snd x with OpenUpstream _ _ => False | _ => True end) /\
    ((exists f', sget (m_flows (fst (step hash m now inp))) id = Some f' /\ f_inc f' = i /\ f_backend_addr f' = Some a) \/
     In (Some i, CloseFlow id) o2).
Proof.
  intros HI Hin. pose proof (step_shape hash m now inp HI) as Hs.
  set (m' := fst (step hash m now inp)) in *. set (o := snd (step hash m now inp)) in *.
  assert (forall o0, arms o0 -> forall x, In x o0 -> match snd x with OpenUpstream _ _ => False | _ => True end) as Harm.
  { intros o0 Ha x Hx. destruct (arms_in _ _ Ha Hx) as (d & ->). exact I. }
  destruct Hs as [o Ho|m' E1 E2 E3 E4 H5 H6|id0 f f' pre o Hg Hs Hp Ht Hpre Ho Hmono Hpend'
                 |id0 f f' pre o Hg Hs Hpre Ho|m' o Hr|src p o m' cl Ei Ht Hd Hc Ho Em Ecl Hne Hpne].
  - rewrite Forall_forall in Ho. specialize (Ho _ Hin). discriminate.
  - destruct Hin.
  - apply in_app_or in Hin. destruct Hin as [Hin|Hin]; [|destruct (arms_in _ _ Ho Hin); discriminate].
    destruct (in_pre_open _ _ _ _ _ _ _ _ Hpre Hin) as (-> & -> & _ & Hb0 & Hb' & _).
    split; [eauto|].
    destruct Hpre as [|src p b hdr Ei Hb1 Hb2 Hh|bid a0 p hdr Ei Hb1 Hpe Hb2 Hh|bid a0 Ei Hb1 Hb2|p Ei Hb2 Hb1]; cbn in Hin;
      try (destruct Hin as [E|[E|[]]]; discriminate); try contradiction.
    + destruct Hin as [E|[E|[E|[]]]]; try discriminate. inv E. eexists. split; [reflexivity|]. split.
      * intros x Hx. cbn in Hx. destruct Hx as [<-|[<-|Hx]]; cbn; auto. eapply Harm; eauto.
      * left. exists f'. unfold updated. cbn. rewrite sget_sset, Nat.eqb_refl, Hg.
        split; [reflexivity|]. split; [apply Hs | exact Hb'].
    + destruct Hin as [E|[]]. inv E. eexists. split; [reflexivity|]. split.
      * intros x Hx. cbn in Hx. eapply Harm; eauto.
      * left. exists f'. unfold updated. cbn. rewrite sget_sset, Nat.eqb_refl, Hg.
        split; [reflexivity|]. split; [apply Hs | exact Hb'].
  - apply in_app_or in Hin. destruct Hin as [Hin|Hin].
    + destruct (in_pre_open _ _ _ _ _ _ _ _ Hpre Hin) as (-> & -> & _ & Hb0 & Hb' & _).
      split; [eauto|].
      destruct Hpre as [|src p b hdr Ei Hb1 Hb2 Hh|bid a0 p hdr Ei Hb1 Hpe Hb2 Hh|bid a0 Ei Hb1 Hb2|p Ei Hb2 Hb1]; cbn in Hin;
        try (destruct Hin as [E|[E|[]]]; discriminate); try contradiction.
      * destruct Hin as [E|[E|[E|[]]]]; try discriminate. inv E. eexists. split; [reflexivity|]. split.
        -- intros x Hx. cbn in Hx. destruct Hx as [<-|[<-|[<-|[<-|Hx]]]]; cbn; auto. eapply Harm; eauto.
        -- right. right. right. right. left. reflexivity.
      * destruct Hin as [E|[]]. inv E. eexists. split; [reflexivity|]. split.
        -- intros x Hx. cbn in Hx. destruct Hx as [<-|[<-|Hx]]; cbn; auto. eapply Harm; eauto.
        -- right. right. left. reflexivity.
    + apply in_app_or in Hin. destruct Hin as [Hin|Hin].
      * cbn in Hin. destruct Hin as [E|[E|[]]]; discriminate.
      * destruct (arms_in _ _ Ho Hin). discriminate.
  - destruct (rems_forward _ _ _ Hr HI) as (_ & _ & _ & D). destruct (D _ Hin).
  - cbn in Hin. destruct Hin as [E|[E|Hin]]; try discriminate. destruct (arms_in _ _ Ho Hin). discriminate.
Qed.

End Forward.

(* ------------------------------------------------------------------ *)
(** Part 4: the shell's maps agree with the manager at every point of a drain. *)

Definition flows_of (l : list sock) : list nat := map s_flow l.

Lemma flow_unique l x y :
  NoDup (flows_of l) -> In x l -> In y l -> s_flow x = s_flow y -> x = y.
Proof.
  unfold flows_of. induction l as [|z l IH]; intros Hnd Hx Hy E; [destruct Hx|]. cbn in Hnd. inv Hnd.
  destruct Hx as [->|Hx]; destruct Hy as [->|Hy]; auto.
  - exfalso. apply H1. rewrite E. apply in_map. exact Hy.
  - exfalso. apply H1. rewrite <- E. apply in_map. exact Hx.
Qed.

Lemma set_sock_flows l t s s' :
  sock_of_tok l t = Some s -> s_tok s' = s_tok s -> s_flow s' = s_flow s -> flows_of (set_sock l s') = flows_of l.
Proof.
  unfold flows_of. induction l as [|x l IH]; cbn; [discriminate|]. intros H Ht Hf.
  destruct (Nat.eqb (s_tok x) t) eqn:E.
  - inv H. rewrite Ht, Nat.eqb_refl. cbn. rewrite Hf. reflexivity.
  - destruct (sock_of_tok_In _ _ _ H) as (_ & Hts).
    assert (Nat.eqb (s_tok x) (s_tok s') = false) as -> by (rewrite Ht, Hts; exact E).
    cbn. rewrite IH; auto.
Qed.

Lemma set_sock_in l t s s' x :
  sock_of_tok l t = Some s -> s_tok s' = s_tok s -> In x (set_sock l s') -> x = s' \/ In x l.
Proof.
  induction l as [|y l IH]; cbn; [discriminate|]. intros H Ht Hx.
  destruct (Nat.eqb (s_tok y) t) eqn:E.
  - inv H. rewrite Ht, Nat.eqb_refl in Hx. destruct Hx as [<-|Hx]; auto.
  - destruct (sock_of_tok_In _ _ _ H) as (_ & Hts).
    assert (Nat.eqb (s_tok y) (s_tok s') = false) as E' by (rewrite Ht, Hts; exact E).
    rewrite E' in Hx. destruct Hx as [<-|Hx]; auto. destruct (IH H Ht Hx); auto.
Qed.

Definition is_open_of (id : nat) (x : lout) : Prop :=
  match snd x with OpenUpstream id' _ => id' = id | _ => False end.

(** pending [OpenUpstream]s: no socket yet, at most one per flow, and the flow is
    established now or its [CloseFlow] is queued behind *)
Fixpoint po_ok (m : mgr) (fl : list nat) (q : list lout) : Prop :=
  match q with
  | [] => True
  | x :: q' =>
    match snd x with
    | OpenUpstream id a =>
      ~ In id fl /\
      (exists i, fst x = Some i /\
         ((exists f, sget (m_flows m) id = Some f /\ f_inc f = i /\ f_backend_addr f = Some a) \/
          In (Some i, CloseFlow id) q')) /\
      (forall y, In y q' -> ~ is_open_of id y)
    | _ => True
    end /\ po_ok m fl q'
  end.

Record GQ (sh : shell) : Prop := {
  g_inv : Inv (sh_mgr sh);
  g_bi : BI sh;
  g_flows : NoDup (flows_of (sh_socks sh));
  g_sock : forall s, In s (sh_socks sh) ->
      (exists f, sget (m_flows (sh_mgr sh)) (s_flow s) = Some f /\ f_inc f = s_inc s /\
                 f_backend_addr f = Some (s_backend s)) \/
      In (Some (s_inc s), CloseFlow (s_flow s)) (sh_q sh);
  g_pc : forall i id, In (Some i, CloseFlow id) (sh_q sh) -> sget (m_flows (sh_mgr sh)) id = None;
  g_po : po_ok (sh_mgr sh) (flows_of (sh_socks sh)) (sh_q sh);
  g_k : forall k id, tget (sh_key2f sh) k = Some id ->
      exists s, In s (sh_socks sh) /\ s_flow s = id /\ s_key s = Some k;
  g_endp : forall s, In s (sh_socks sh) ->
      exists c, nget (sh_endp sh) (s_flow s) = Some c /\
                (s_key s = None \/ exists wp, s_key s = Some (key_of c wp));
  g_lbl : forall id, ~ In (None, CloseFlow id) (sh_q sh);
}.

Lemma po_ok_noopen m fl q :
  (forall x, In x q -> match snd x with OpenUpstream _ _ => False | _ => True end) -> po_ok m fl q.
Proof.
  induction q as [|x q IH]; intros H; cbn; auto. split.
  - pose proof (H x (or_introl eq_refl)) as Hx. destruct (snd x); auto. destruct Hx.
  - apply IH. intros y Hy. apply H. right. exact Hy.
Qed.

Lemma po_ok_mono m fl fl' q : (forall id, In id fl' -> In id fl) -> po_ok m fl q -> po_ok m fl' q.
Proof.
  intros Hsub. induction q as [|x q IH]; cbn; auto. intros (H1 & H2). split; [|auto].
  destruct (snd x); auto. destruct H1 as (A & B & C). repeat split; auto.
Qed.

Lemma po_ok_app m m' fl q o :
  po_ok m fl q ->
  (forall id f, sget (m_flows m) id = Some f ->
     (exists f', sget (m_flows m') id = Some f' /\ f_inc f' = f_inc f /\
                 (forall b, f_backend_addr f = Some b -> f_backend_addr f' = Some b)) \/
     (sget (m_flows m') id = None /\ In (Some (f_inc f), CloseFlow id) o)) ->
  (forall id, (exists y, In y q /\ is_open_of id y) -> forall z, In z o -> ~ is_open_of id z) ->
  po_ok m' fl o ->
  po_ok m' fl (q ++ o).
Proof.
  intros Hq Hfw Hcross Ho. induction q as [|x q IH]; cbn; [exact Ho|].
  cbn in Hq. destruct Hq as (H1 & H2). split.
  - destruct (snd x) as [| id a | | | | | |] eqn:Ex; auto.
    destruct H1 as (A & (i & Ei & B) & C). split; [exact A|]. split.
    + exists i. split; [exact Ei|]. destruct B as [(f & Hf & Hi & Hb)|B].
      * destruct (Hfw _ _ Hf) as [(f' & Hf' & Hi' & Hb')|(Hn & Hc)].
        -- left. exists f'. repeat split; auto. congruence.
        -- right. apply in_or_app. right. rewrite <- Hi. exact Hc.
      * right. apply in_or_app. left. exact B.
    + intros y Hy. apply in_app_or in Hy. destruct Hy as [Hy|Hy]; [apply C; exact Hy|].
      apply (Hcross id); [|exact Hy]. exists x. split; [left; reflexivity|]. unfold is_open_of. rewrite Ex. reflexivity.
  - apply IH; auto. intros id (y & Hy & Hy2) z Hz. apply (Hcross id); [|exact Hz]. exists y. split; [right; exact Hy|exact Hy2].
Qed.

Lemma po_ok_in m fl q y id a :
  po_ok m fl q -> In y q -> snd y = OpenUpstream id a ->
  ~ In id fl /\
  exists i, fst y = Some i /\
    ((exists f, sget (m_flows m) id = Some f /\ f_inc f = i /\ f_backend_addr f = Some a) \/
     In (Some i, CloseFlow id) q).
Proof.
  induction q as [|x q IH]; intros Hpo Hy Ey; [destruct Hy|]. cbn in Hpo. destruct Hpo as (H1 & H2).
  destruct Hy as [->|Hy].
  - rewrite Ey in H1. destruct H1 as (A & (i & Ei & B) & _). split; [exact A|].
    exists i. split; [exact Ei|]. destruct B as [B|B]; [left; exact B | right; right; exact B].
  - destruct (IH H2 Hy Ey) as (A & i & Ei & B). split; [exact A|]. exists i. split; [exact Ei|].
    destruct B as [B|B]; [left; exact B | right; right; exact B].
Qed.

Lemma nget_nremove {A} (l : list (nat * A)) k j : nget (nremove l k) j = if Nat.eqb k j then None else nget l j.
Proof.
  unfold nremove. induction l as [|[k0 v] l IH]; cbn.
  - destruct (Nat.eqb k j); reflexivity.
  - destruct (Nat.eqb k0 k) eqn:E0; cbn.
    + apply Nat.eqb_eq in E0. subst k0. rewrite IH. destruct (Nat.eqb k j); reflexivity.
    + rewrite IH. destruct (Nat.eqb k0 j) eqn:E1; auto. apply Nat.eqb_eq in E1. subst k0.
      destruct (Nat.eqb k j) eqn:E2; auto. apply Nat.eqb_eq in E2. subst k. rewrite Nat.eqb_refl in E0. discriminate.
Qed.

Lemma nget_nset {A} (l : list (nat * A)) k v j : nget (nset l k v) j = if Nat.eqb k j then Some v else nget l j.
Proof. unfold nset. cbn. destruct (Nat.eqb k j) eqn:E; auto. rewrite nget_nremove, E. reflexivity. Qed.

Lemma classic_open (o : list lout) :
  (forall x, In x o -> match snd x with OpenUpstream _ _ => False | _ => True end) \/
  (exists l id a, In (l, OpenUpstream id a) o).
Proof.
  induction o as [|[l x] o IH]; [left; intros x []|].
  destruct IH as [IH|(l' & id & a & Hin)].
  - destruct x; try (left; intros y [<-|Hy]; [exact I | apply IH; exact Hy]).
    right. exists l, id, backend. left. reflexivity.
  - right. exists l', id, a. right. exact Hin.
Qed.

Section Agreement.
Variable hash : bool -> addr -> N.

Lemma step_open_label m now inp l id a :
  Inv m -> In (l, OpenUpstream id a) (snd (step hash m now inp)) -> exists i, l = Some i.
Proof.
  intros HI Hin. pose proof (step_shape hash m now inp HI) as Hs.
  destruct Hs as [o Ho Ho2|m' E1 E2 E3 E4 H5 H6|id0 f f' pre o Hg Hs Hp Ht Hpre Ho Hmono Hpend'
                 |id0 f f' pre o Hg Hs Hpre Ho|m' o Hr|src p o m' cl Ei Ht Hd Hc Ho Em Ecl Hne Hpne].
  - rewrite Forall_forall in Ho2. destruct (Ho2 _ Hin).
  - destruct Hin.
  - apply in_app_or in Hin. destruct Hin as [Hin|Hin].
    + destruct (pre_ok_in _ _ _ _ _ _ Hpre Hin) as (E & _). cbn in E. eauto.
    + destruct (arms_in _ _ Ho Hin). discriminate.
  - apply in_app_or in Hin. destruct Hin as [Hin|Hin].
    + destruct (pre_ok_in _ _ _ _ _ _ Hpre Hin) as (E & _). cbn in E. eauto.
    + apply in_app_or in Hin. destruct Hin as [Hin|Hin].
      * cbn in Hin. destruct Hin as [E|[E|[]]]; discriminate.
      * destruct (arms_in _ _ Ho Hin). discriminate.
  - destruct (rems_in _ _ _ _ Hr Hin) as [(d & E)|(id1 & f1 & _ & [E|E])]; discriminate.
  - cbn in Hin. destruct Hin as [E|[E|Hin]]; try discriminate. destruct (arms_in _ _ Ho Hin). discriminate.
Qed.

Lemma step_close_label m now inp id :
  Inv m -> ~ In (None, CloseFlow id) (snd (step hash m now inp)).
Proof.
  intros HI Hin. pose proof (step_shape hash m now inp HI) as Hs.
  destruct Hs as [o Ho Ho2|m' E1 E2 E3 E4 H5 H6|id0 f f' pre o Hg Hs Hp Ht Hpre Ho Hmono Hpend'
                 |id0 f f' pre o Hg Hs Hpre Ho|m' o Hr|src p o m' cl Ei Ht Hd Hc Ho Em Ecl Hne Hpne].
  - rewrite Forall_forall in Ho2. destruct (Ho2 _ Hin).
  - destruct Hin.
  - apply in_app_or in Hin. destruct Hin as [Hin|Hin].
    + destruct (pre_ok_in _ _ _ _ _ _ Hpre Hin) as (E & _). discriminate.
    + destruct (arms_in _ _ Ho Hin). discriminate.
  - apply in_app_or in Hin. destruct Hin as [Hin|Hin].
    + destruct (pre_ok_in _ _ _ _ _ _ Hpre Hin) as (E & _). discriminate.
    + apply in_app_or in Hin. destruct Hin as [Hin|Hin].
      * cbn in Hin. destruct Hin as [E|[E|[]]]; discriminate.
      * destruct (arms_in _ _ Ho Hin). discriminate.
  - destruct (rems_in _ _ _ _ Hr Hin) as [(d & E)|(id1 & f1 & _ & [E|E])]; discriminate.
  - cbn in Hin. destruct Hin as [E|[E|Hin]]; try discriminate. destruct (arms_in _ _ Ho Hin). discriminate.
Qed.

(** a call into the manager (not an admission, unless nothing is pending) *)
Lemma GQ_call sh now i :
  GQ sh -> (is_client i = false \/ sh_q sh = []) -> GQ (call_mgr hash sh now i).
Proof.
  intros HG Hcl. pose proof (g_inv _ HG) as HI.
  destruct (step_forward hash (sh_mgr sh) now i HI) as (F1 & F2 & F3).
  pose proof (step_inv hash (sh_mgr sh) now i HI) as HI'.
  pose proof (fun j id a => step_open hash (sh_mgr sh) now i j id a HI) as Fo.
  pose proof (fun l id a => step_open_label (sh_mgr sh) now i l id a HI) as Fl.
  unfold call_mgr. destruct (step hash (sh_mgr sh) now i) as [m' o] eqn:Es. cbn [fst snd] in *.
  assert (forall id, sget (m_flows (sh_mgr sh)) id = None -> (exists j, In (Some j, CloseFlow id) (sh_q sh)) ->
                     sget (m_flows m') id = None) as Hdead.
  { intros id Hn (j & Hj). destruct Hcl as [Hc|Hq]; [apply F3; auto | rewrite Hq in Hj; destruct Hj]. }
  assert (forall l id a, In (l, OpenUpstream id a) o ->
            ~ In id (flows_of (sh_socks sh)) /\
            (forall y, In y (sh_q sh) -> ~ is_open_of id y)) as Hnew.
  { intros l id a Hin. destruct (Fl _ _ _ Hin) as (j & ->).
    destruct (Fo _ _ _ Hin) as ((f & Hf & Hi & Hb) & _). split.
    - intros Hfl. unfold flows_of in Hfl. apply in_map_iff in Hfl. destruct Hfl as (s & E & Hs).
      destruct (g_sock _ HG s Hs) as [(g & Hg & _ & Hgb)|Hc].
      + rewrite E, Hf in Hg. inv Hg. congruence.
      + rewrite E in Hc. rewrite (g_pc _ HG _ _ Hc) in Hf. discriminate.
    - intros y Hy Hyo. unfold is_open_of in Hyo.
      destruct (snd y) as [| id' a' | | | | | |] eqn:Ey; cbn in Hyo; try contradiction. subst id'.
      destruct (po_ok_in _ _ _ _ _ _ (g_po _ HG) Hy Ey) as (_ & i0 & _ & [(g & Hg & _ & Hgb)|Hc]).
      + rewrite Hf in Hg. inv Hg. congruence.
      + rewrite (g_pc _ HG _ _ Hc) in Hf. discriminate. }
  constructor; cbn [sh_mgr sh_q with_mgr_q sh_socks sh_key2f sh_endp].
  - exact HI'.
  - apply (g_bi _ HG).
  - apply (g_flows _ HG).
  - intros s Hs. destruct (g_sock _ HG s Hs) as [(f & Hf & Hi & Hb)|Hc].
    + destruct (F1 _ _ Hf) as [(f' & Hf' & Hi' & Hb')|(Hn & Hc)].
      * left. exists f'. repeat split; auto. congruence.
      * right. apply in_or_app. right. rewrite <- Hi. exact Hc.
    + right. apply in_or_app. left. exact Hc.
  - intros j id Hin. apply in_app_or in Hin. destruct Hin as [Hin|Hin].
    + apply Hdead; [apply (g_pc _ HG _ _ Hin) | eauto].
    + eapply F2; eauto.
  - apply (po_ok_app (sh_mgr sh) m' _ (sh_q sh) o (g_po _ HG) F1).
    + intros id (y & Hy & Hyo) z Hz Hzo. destruct z as [lz xz]. unfold is_open_of in Hzo. cbn in Hzo.
      destruct xz as [|idz az| | | | | |]; try contradiction. subst idz.
      destruct (Hnew _ _ _ Hz) as (_ & Hn). exact (Hn _ Hy Hyo).
    + destruct (classic_open o) as [Hno|(l & id & a & Hin)].
      * apply po_ok_noopen. exact Hno.
      * destruct (Fl _ _ _ Hin) as (j & ->). destruct (Fo _ _ _ Hin) as (_ & o2 & -> & Hno2 & Hlive).
        cbn. split; [|apply po_ok_noopen; exact Hno2]. split; [apply (Hnew _ _ _ Hin)|]. split.
        -- exists j. split; [reflexivity | exact Hlive].
        -- intros y Hy Hyo. specialize (Hno2 _ Hy). unfold is_open_of in Hyo. destruct (snd y); try contradiction.
  - apply (g_k _ HG).
  - apply (g_endp _ HG).
  - intros id Hin. apply in_app_or in Hin. destruct Hin as [Hin|Hin]; [apply (g_lbl _ HG id Hin)|].
    pose proof (step_close_label (sh_mgr sh) now i id HI) as Hl. rewrite Es in Hl. exact (Hl Hin).
Qed.

(** popping an output that is not a CloseFlow *)
Lemma GQ_pop sh lo q' :
  GQ sh -> sh_q sh = lo :: q' -> (forall id, snd lo <> CloseFlow id) ->
  GQ (with_mgr_q sh (sh_mgr sh) q').
Proof.
  intros HG Eq Hnc. destruct HG as [gi gb gf gs gp go gk ge gl]. rewrite Eq in *.
  constructor; cbn [sh_mgr sh_q with_mgr_q sh_socks sh_key2f sh_endp]; auto.
  - intros s Hs. destruct (gs s Hs) as [H|[E|H]]; auto. exfalso. apply (Hnc (s_flow s)). rewrite E. reflexivity.
  - intros i id Hin. apply (gp i id). right. exact Hin.
  - cbn in go. apply go.
  - intros id Hin. apply (gl id). right. exact Hin.
Qed.

(** handlers that touch nothing but write queues and the timer *)
Lemma GQ_same sh sh' :
  GQ sh -> sh_mgr sh' = sh_mgr sh -> sh_q sh' = sh_q sh ->
  flows_of (sh_socks sh') = flows_of (sh_socks sh) ->
  (forall x, In x (sh_socks sh') -> exists y, In y (sh_socks sh) /\ s_flow y = s_flow x /\ s_inc y = s_inc x /\ s_key y = s_key x /\ s_backend y = s_backend x) ->
  (forall y, In y (sh_socks sh) -> exists x, In x (sh_socks sh') /\ s_flow y = s_flow x /\ s_inc y = s_inc x /\ s_key y = s_key x) ->
  sh_key2f sh' = sh_key2f sh -> sh_endp sh' = sh_endp sh -> BI sh' -> GQ sh'.
Proof.
  intros HG E1 E2 E3 Hfw Hbw E4 E5 HB. destruct HG as [gi gb gf gs gp go gk ge gl].
  constructor; rewrite ?E1, ?E2, ?E3, ?E4, ?E5; auto.
  - intros x Hx. destruct (Hfw x Hx) as (y & Hy & A & B & C & D). rewrite <- A, <- B, <- D. apply gs. exact Hy.
  - intros k id Hk. destruct (gk k id Hk) as (y & Hy & A & B). destruct (Hbw y Hy) as (x & Hx & A' & B' & C').
    exists x. split; [exact Hx|]. split; congruence.
  - intros x Hx. destruct (Hfw x Hx) as (y & Hy & A & B & C & D). rewrite <- A, <- C. apply ge. exact Hy.
Qed.

Lemma sock_of_flow_none l id : sock_of_flow l id = None -> forall s, In s l -> s_flow s <> id.
Proof.
  induction l as [|x l IH]; cbn; intros H s Hs; [destruct Hs|].
  destruct (Nat.eqb (s_flow x) id) eqn:E; [discriminate|]. apply Nat.eqb_neq in E.
  destruct Hs as [<-|Hs]; auto.
Qed.

Lemma nodup_map_inj {A B} (f : A -> B) l x y :
  NoDup (map f l) -> In x l -> In y l -> f x = f y -> x = y.
Proof.
  induction l as [|z l IH]; intros Hnd Hx Hy E; [destruct Hx|]. cbn in Hnd. inv Hnd.
  destruct Hx as [->|Hx]; destruct Hy as [->|Hy]; auto.
  - exfalso. apply H1. rewrite E. apply in_map. exact Hy.
  - exfalso. apply H1. rewrite <- E. apply in_map. exact Hx.
Qed.

Lemma nodup_map_filter {A B} (f : A -> B) (p : A -> bool) l : NoDup (map f l) -> NoDup (map f (filter p l)).
Proof.
  induction l as [|z l IH]; intros H; cbn; [constructor|]. cbn in H. inv H.
  destruct (p z); cbn; auto. constructor; auto. intros Hin. apply H2.
  apply in_map_iff in Hin. destruct Hin as (x & E & Hx). apply filter_In in Hx. rewrite <- E. apply in_map. apply Hx.
Qed.

Lemma tget_tremove_some t r k v : tget (tremove t r) k = Some v -> tget t k = Some v /\ r <> k.
Proof.
  rewrite tget_tremove. destruct (addr_eqb r k) eqn:E; [discriminate|]. apply addr_eqb_neq in E. auto.
Qed.

Lemma other_key c cur :
  (if addr_eqb (key_of c cur) c then mkaddr (a_ip c) 0 else c) = key_of c (negb cur) \/
  key_of c (negb cur) = key_of c cur.
Proof.
  destruct cur; cbn.
  - rewrite addr_eqb_refl. left. reflexivity.
  - destruct (addr_eqb (mkaddr (a_ip c) 0) c) eqn:E; [|left; reflexivity].
    apply addr_eqb_eq in E. right. symmetry. exact E.
Qed.

Lemma GQ_close sh i id q' :
  GQ sh -> sh_q sh = (Some i, CloseFlow id) :: q' ->
  GQ (fst (on_close_flow true (with_mgr_q sh (sh_mgr sh) q') id)).
Proof.
  intros HG Eq. pose proof (BI_on_close true (with_mgr_q sh (sh_mgr sh) q') id (g_bi _ HG)) as HB'.
  destruct HG as [gi gb gf gs gp go gk ge gl]. rewrite Eq in *.
  assert (forall id', ~ In (None, CloseFlow id') q') as gl' by (intros id' Hin; apply (gl id'); right; exact Hin).
  unfold on_close_flow in *. cbn [sh_socks with_mgr_q sh_slab sh_endp sh_key2f sh_mgr sh_q sh_address client_key] in *.
  set (c := match nget (sh_endp sh) id with Some c => c | None => sh_address sh end) in *.
  set (cur := c_with_port (m_cluster (sh_mgr sh))) in *.
  set (key := key_of c cur) in *.
  set (other := if addr_eqb key c then mkaddr (a_ip c) 0 else c) in *.
  set (k2f := if opt_nat_eqb (tget (sh_key2f sh) key) (Some id) then tremove (sh_key2f sh) key
              else if opt_nat_eqb (tget (sh_key2f sh) other) (Some id) then tremove (sh_key2f sh) other
                   else sh_key2f sh) in *.
  assert (forall k v, tget k2f k = Some v -> tget (sh_key2f sh) k = Some v) as Hsub.
  { intros k v. unfold k2f. repeat case_if; auto; intros H; apply tget_tremove_some in H; apply H. }
  (* no entry of the shadow table points at the closed flow any more *)
  assert (forall s, In s (sh_socks sh) -> s_flow s = id -> forall k, tget k2f k = Some id -> False) as Hgone.
  { intros s Hs Hfl k Hk. pose proof (Hsub _ _ Hk) as Hk0.
    destruct (gk _ _ Hk0) as (s1 & Hs1 & Hf1 & Hk1).
    assert (s1 = s) as -> by (apply (flow_unique _ _ _ gf Hs1 Hs); congruence).
    destruct (ge s Hs) as (c0 & Hc0 & Hkey). rewrite Hfl in Hc0.
    assert (c0 = c) as -> by (unfold c; rewrite Hc0; reflexivity).
    destruct Hkey as [Hn|(wp & Hwp)]; [congruence|]. rewrite Hk1 in Hwp. inv Hwp.
    assert (key_of c wp = key \/ key_of c wp = other) as Hcase.
    { destruct (Bool.bool_dec wp cur) as [->|Hne]; [left; reflexivity|].
      assert (wp = negb cur) as -> by (destruct wp, cur; auto; congruence).
      destruct (other_key c cur) as [E|E]; [right; symmetry; exact E | left; exact E]. }
    unfold k2f in Hk. match type of Hk with context [if ?c then _ else _] => destruct c eqn:E1 end.
    - apply opt_nat_eqb_eq in E1. apply tget_tremove_some in Hk. destruct Hk as (_ & Hne).
      destruct (gk _ _ E1) as (s2 & Hs2 & Hf2 & Hk2).
      assert (s2 = s) as -> by (apply (flow_unique _ _ _ gf Hs2 Hs); congruence). congruence.
    - match type of Hk with context [if ?c then _ else _] => destruct c eqn:E2 end.
      + apply opt_nat_eqb_eq in E2. apply tget_tremove_some in Hk. destruct Hk as (_ & Hne).
        destruct (gk _ _ E2) as (s2 & Hs2 & Hf2 & Hk2).
        assert (s2 = s) as -> by (apply (flow_unique _ _ _ gf Hs2 Hs); congruence). congruence.
      + destruct Hcase as [E|E]; rewrite E in Hk0.
        * rewrite Hk0 in E1. cbn in E1. rewrite Nat.eqb_refl in E1. discriminate.
        * rewrite Hk0 in E2. cbn in E2. rewrite Nat.eqb_refl in E2. discriminate. }
  destruct (sock_of_flow (sh_socks sh) id) as [s|] eqn:Es; cbn [fst] in *.
  - destruct (sock_of_flow_In _ _ _ Es) as (Hin & Hfl).
    destruct gb as (_ & Hnd & _ & _).
    assert (forall x, In x (remove_tok (sh_socks sh) (s_tok s)) <-> In x (sh_socks sh) /\ s_flow x <> id) as Hrem.
    { intros x. rewrite In_remove_tok. split; intros (Hx & Hne); split; auto.
      - intros E. apply Hne. f_equal. apply (flow_unique _ _ _ gf Hx Hin). congruence.
      - intros E. apply Hne. rewrite <- Hfl. f_equal. apply (nodup_map_inj s_tok _ _ _ Hnd Hx Hin E). }
    constructor; cbn [sh_mgr sh_q sh_socks sh_key2f sh_endp].
    + exact gi.
    + exact HB'.
    + unfold flows_of, remove_tok. apply nodup_map_filter. exact gf.
    + intros x Hx. apply Hrem in Hx. destruct Hx as (Hx & Hne). destruct (gs x Hx) as [H|[E|H]]; auto.
      inv E. congruence.
    + intros j id' Hj. apply (gp j id'). right. exact Hj.
    + cbn in go. destruct go as (_ & go). eapply po_ok_mono; [|exact go].
      intros id' Hid. unfold flows_of in *. apply in_map_iff in Hid. destruct Hid as (x & E & Hx).
      apply Hrem in Hx. rewrite <- E. apply in_map. apply Hx.
    + intros k id' Hk. pose proof (Hsub _ _ Hk) as Hk0. destruct (gk _ _ Hk0) as (x & Hx & Hf & Hkx).
      exists x. split; [|auto]. apply Hrem. split; [exact Hx|]. intros E.
      apply (Hgone s Hin Hfl k). rewrite <- E, Hf. exact Hk.
    + intros x Hx. apply Hrem in Hx. destruct Hx as (Hx & Hne). destruct (ge x Hx) as (c0 & Hc0 & Hkey).
      exists c0. split; [|exact Hkey]. rewrite nget_nremove.
      destruct (Nat.eqb id (s_flow x)) eqn:E; [apply Nat.eqb_eq in E; congruence | exact Hc0].
    + exact gl'.
  - pose proof (sock_of_flow_none _ _ Es) as Hno.
    constructor; cbn [sh_mgr sh_q sh_socks sh_key2f sh_endp].
    + exact gi.
    + exact HB'.
    + exact gf.
    + intros x Hx. destruct (gs x Hx) as [H|[E|H]]; auto. inv E. exfalso. apply (Hno x Hx). reflexivity.
    + intros j id' Hj. apply (gp j id'). right. exact Hj.
    + cbn in go. apply go.
    + intros k id' Hk. apply gk. apply Hsub. exact Hk.
    + intros x Hx. destruct (ge x Hx) as (c0 & Hc0 & Hkey). exists c0. split; [|exact Hkey].
      rewrite nget_nremove. destruct (Nat.eqb id (s_flow x)) eqn:E; [|exact Hc0].
      apply Nat.eqb_eq in E. exfalso. apply (Hno x Hx). auto.
    + exact gl'.
Qed.

Lemma po_ok_cons m fl q id :
  po_ok m fl q -> (forall y, In y q -> ~ is_open_of id y) -> po_ok m (id :: fl) q.
Proof.
  induction q as [|x q IH]; cbn; auto. intros (H1 & H2) Hno. split.
  - destruct (snd x) as [| id' a | | | | | |] eqn:Ex; auto. destruct H1 as (A & B & C). repeat split; auto.
    intros [E|Hin]; [|auto]. apply (Hno x (or_introl eq_refl)). unfold is_open_of. rewrite Ex. auto.
  - apply IH; [exact H2|]. intros y Hy. apply Hno. right. exact Hy.
Qed.

Lemma GQ_open sh now e l id a q' :
  GQ sh -> sh_q sh = (l, OpenUpstream id a) :: q' ->
  GQ (fst (on_open_upstream hash (with_mgr_q sh (sh_mgr sh) q') now e l id a)).
Proof.
  intros HG Eq.
  assert (GQ (with_mgr_q sh (sh_mgr sh) q')) as HG0 by (eapply GQ_pop; eauto; intros id0; cbn; discriminate).
  pose proof (BI_on_open hash (with_mgr_q sh (sh_mgr sh) q') now e l id a (g_bi _ HG0)) as HB'.
  unfold on_open_upstream in *. destruct (negb (e_connect e)); cbn [fst] in *.
  - apply GQ_call; auto.
  - pose proof (g_po _ HG) as go. rewrite Eq in go. cbn in go. destruct go as ((Hnf & (i & -> & Hlive) & Hno) & go').
    destruct HG0 as [gi gb gf gs gp go gk ge gl].
    cbn [sh_socks with_mgr_q sh_slab sh_endp sh_key2f sh_mgr sh_q sh_ifc client_key] in *.
    destruct (sinsert (sh_slab sh) tt) as [slab' tok] eqn:Eins. cbn [fst] in *.
    constructor; cbn [sh_mgr sh_q sh_socks sh_key2f sh_endp flows_of map s_flow].
    + exact gi.
    + exact HB'.
    + constructor; auto.
    + intros s [<-|Hs]; cbn [s_flow s_inc]; auto.
    + exact gp.
    + apply po_ok_cons; auto.
    + unfold client_key. cbn [sh_mgr with_mgr_q]. intros k id' Hk. destruct (sh_ifc sh) as [src|].
      * rewrite tget_tinsert in Hk. destruct (addr_eqb (key_of src (c_with_port (m_cluster (sh_mgr sh)))) k) eqn:E.
        -- apply addr_eqb_eq in E. subst k. assert (id' = id) as -> by congruence.
           eexists. split; [left; reflexivity|]. cbn. split; reflexivity.
        -- destruct (gk _ _ Hk) as (x & Hx & A & B). exists x. split; [right; exact Hx | auto].
      * destruct (gk _ _ Hk) as (x & Hx & A & B). exists x. split; [right; exact Hx | auto].
    + intros s [<-|Hs]; cbn [s_flow s_key].
      * rewrite nget_nset, Nat.eqb_refl. eexists. split; [reflexivity|].
        destruct (sh_ifc sh) as [src|]; [right; eexists; reflexivity | left; reflexivity].
      * destruct (ge s Hs) as (c0 & Hc0 & Hkey). exists c0. split; [|exact Hkey].
        rewrite nget_nset. destruct (Nat.eqb id (s_flow s)) eqn:E; [|exact Hc0].
        apply Nat.eqb_eq in E. exfalso. apply Hnf. rewrite E. unfold flows_of. apply in_map. exact Hs.
    + exact gl.
Qed.

Lemma set_sock_rev l t s s' y :
  sock_of_tok l t = Some s -> s_tok s' = s_tok s -> In y l -> y = s \/ In y (set_sock l s').
Proof.
  induction l as [|x l IH]; cbn; [discriminate|]. intros H Ht Hy.
  destruct (Nat.eqb (s_tok x) t) eqn:E.
  - inv H. rewrite Ht, Nat.eqb_refl. destruct Hy as [->|Hy]; auto. right. right. exact Hy.
  - destruct (sock_of_tok_In _ _ _ H) as (_ & Hts).
    assert (Nat.eqb (s_tok x) (s_tok s') = false) as -> by (rewrite Ht, Hts; exact E).
    destruct Hy as [->|Hy]; [right; left; reflexivity|]. destruct (IH H Ht Hy); auto. right. right. assumption.
Qed.

Lemma set_sock_has l t s s' : sock_of_tok l t = Some s -> s_tok s' = s_tok s -> In s' (set_sock l s').
Proof.
  induction l as [|x l IH]; cbn; [discriminate|]. intros H Ht.
  destruct (Nat.eqb (s_tok x) t) eqn:E.
  - inv H. rewrite Ht, Nat.eqb_refl. left. reflexivity.
  - destruct (sock_of_tok_In _ _ _ H) as (_ & Hts).
    assert (Nat.eqb (s_tok x) (s_tok s') = false) as -> by (rewrite Ht, Hts; exact E). right. auto.
Qed.

(** replacing a socket's write queue *)
Lemma GQ_set_queue sh t s q :
  GQ sh -> sock_of_tok (sh_socks sh) t = Some s ->
  GQ (with_socks sh (set_sock (sh_socks sh) (mksock (s_tok s) (s_flow s) (s_backend s) q (s_inc s) (s_key s)))).
Proof.
  intros HG Hs. set (s' := mksock (s_tok s) (s_flow s) (s_backend s) q (s_inc s) (s_key s)).
  destruct (sock_of_tok_In _ _ _ Hs) as (Hin & _).
  apply (GQ_same sh); cbn [with_socks sh_mgr sh_q sh_socks sh_key2f sh_endp]; auto.
  - apply (set_sock_flows (sh_socks sh) t s s' Hs eq_refl eq_refl).
  - intros x Hx. destruct (set_sock_in (sh_socks sh) t s s' x Hs eq_refl Hx) as [->|Hx']; [exists s; repeat split; auto | exists x; repeat split; auto].
  - intros y Hy. destruct (set_sock_rev (sh_socks sh) t s s' y Hs eq_refl Hy) as [->|Hy'].
    + exists s'. split; [apply (set_sock_has (sh_socks sh) t s s' Hs eq_refl) | auto].
    + exists y. auto.
  - eapply BI_set_sock; [apply (g_bi _ HG) | exact Hin | reflexivity].
Qed.

Lemma GQ_fields sh sh' :
  GQ sh -> sh_mgr sh' = sh_mgr sh -> sh_q sh' = sh_q sh -> sh_socks sh' = sh_socks sh ->
  sh_key2f sh' = sh_key2f sh -> sh_endp sh' = sh_endp sh -> sh_slab sh' = sh_slab sh ->
  sh_opened sh' = sh_opened sh -> sh_closed sh' = sh_closed sh -> GQ sh'.
Proof.
  intros HG E1 E2 E3 E4 E5 E6 E7 E8. apply (GQ_same sh); auto; try congruence.
  - rewrite E3. intros x Hx. exists x. repeat split; auto.
  - rewrite E3. intros x Hx. exists x. auto.
  - destruct (g_bi _ HG) as (A & B & C & D). unfold BI. rewrite E3, E6, E7, E8. auto.
Qed.

Lemma GQ_process sh sched now e lo q' :
  GQ sh -> sh_q sh = lo :: q' ->
  GQ (fst (fst (process hash true (with_mgr_q sh (sh_mgr sh) q') sched now e lo))).
Proof.
  intros HG Eq. destruct lo as [l x]. unfold process. cbn [snd fst].
  assert ((forall id0, x <> CloseFlow id0) -> GQ (with_mgr_q sh (sh_mgr sh) q')) as Hpop.
  { intros. eapply GQ_pop; eauto. }
  destruct x as [id cl key|id b|d p|d p|d|mm|id|r]; cbn [fst].
  - destruct (e_resolve e) as [[bid a]|]; cbn [fst]; apply GQ_call; auto;
      apply Hpop; intros; discriminate.
  - pose proof (GQ_open sh now e l id b q' HG Eq) as H.
    destruct (on_open_upstream hash (with_mgr_q sh (sh_mgr sh) q') now e l id b). exact H.
  - assert (GQ (with_mgr_q sh (sh_mgr sh) q')) as HG0 by (apply Hpop; intros; discriminate).
    set (sh0 := with_mgr_q sh (sh_mgr sh) q') in *. unfold on_send_to_backend.
    destruct (match sh_iff sh0 with Some f => Some f | None => _ end) as [f|]; [|exact HG0].
    destruct (sock_of_flow (sh_socks sh0) f) as [s0|]; [|exact HG0].
    destruct (sock_of_tok (sh_socks sh0) (s_tok s0)) as [s|] eqn:Es; [|exact HG0].
    destruct (match s_q s with Some q => negb (wq_is_empty q) | None => false end).
    + destruct (s_q s) as [q|]; [|exact HG0]. destruct (wq_push q d p) as [q2 ok]. cbn [fst].
      eapply GQ_set_queue; eauto.
    + destruct (next_outcome sched) as [o sched']. destruct o; cbn [fst]; auto.
      destruct (wq_push _ d p) as [q2 ok]. cbn [fst]. eapply GQ_set_queue; eauto.
  - assert (GQ (with_mgr_q sh (sh_mgr sh) q')) as HG0 by (apply Hpop; intros; discriminate).
    unfold on_send_to_client. destruct (negb (wq_is_empty _)).
    + destruct (wq_push _ d p) as [q2 ok]. cbn [fst]. eapply GQ_fields; eauto.
    + destruct (next_outcome sched) as [o s']. destruct o; cbn [fst]; auto.
      destruct (wq_push _ d p) as [q2 ok]. cbn [fst]. eapply GQ_fields; eauto.
  - eapply GQ_fields; [apply Hpop; intros; discriminate | | | | | | | |]; reflexivity.
  - apply Hpop; intros; discriminate.
  - destruct l as [i|].
    + pose proof (GQ_close sh i id q' HG Eq) as H. destruct (on_close_flow true _ id). exact H.
    + exfalso. apply (g_lbl _ HG id). rewrite Eq. left. reflexivity.
  - apply Hpop; intros; discriminate.
Qed.

Lemma GQ_drain fuel : forall sh sched now e,
  GQ sh -> GQ (fst (fst (drain hash true fuel sh sched now e))).
Proof.
  induction fuel as [|fuel IH]; intros sh sched now e HG; cbn; [exact HG|].
  destruct (sh_q sh) as [|lo q'] eqn:Eq; [exact HG|].
  pose proof (GQ_process sh sched now e lo q' HG Eq) as H1.
  destruct (process hash true (with_mgr_q sh (sh_mgr sh) q') sched now e lo) as [[sh1 sched1] w1].
  specialize (IH sh1 sched1 now e H1).
  destruct (drain hash true fuel sh1 sched1 now e) as [[sh2 sched2] w2]. exact IH.
Qed.

(** nothing a drain does can create a flow *)
Lemma process_no_new sh sched now e lo q' :
  GQ sh -> sh_q sh = lo :: q' -> forall id,
  sget (m_flows (sh_mgr sh)) id = None ->
  sget (m_flows (sh_mgr (fst (fst (process hash true (with_mgr_q sh (sh_mgr sh) q') sched now e lo))))) id = None.
Proof.
  intros HG Eq id Hn. pose proof (g_inv _ HG) as HI.
  assert (forall i, is_client i = false ->
            sget (m_flows (sh_mgr (call_mgr hash (with_mgr_q sh (sh_mgr sh) q') now i))) id = None) as Hcall.
  { intros i Hi. unfold call_mgr. cbn [sh_mgr with_mgr_q].
    destruct (step_forward hash (sh_mgr sh) now i HI) as (_ & _ & F3).
    destruct (step hash (sh_mgr sh) now i) as [m' o]. cbn in *. apply F3; auto. }
  destruct lo as [l x]. unfold process. cbn [snd fst].
  destruct x as [id0 cl key|id0 b|d p|d p|d|mm|id0|r]; cbn [fst]; auto.
  - destruct (e_resolve e) as [[bid a]|]; cbn [fst]; apply Hcall; reflexivity.
  - unfold on_open_upstream. destruct (negb (e_connect e)); cbn [fst]; [apply Hcall; reflexivity|].
    destruct (sinsert _ tt). exact Hn.
  - unfold on_send_to_backend.
    destruct (match sh_iff _ with Some f => Some f | None => _ end) as [f|]; [|exact Hn].
    destruct (sock_of_flow _ f) as [s0|]; [|exact Hn].
    destruct (sock_of_tok _ (s_tok s0)) as [s|]; [|exact Hn].
    destruct (match s_q s with Some q => negb (wq_is_empty q) | None => false end).
    + destruct (s_q s) as [q|]; [|exact Hn]. destruct (wq_push q d p). exact Hn.
    + destruct (next_outcome sched) as [o s']. destruct o; cbn [fst]; auto. destruct (wq_push _ d p). exact Hn.
  - unfold on_send_to_client. destruct (negb (wq_is_empty _)).
    + destruct (wq_push _ d p). exact Hn.
    + destruct (next_outcome sched) as [o s']. destruct o; cbn [fst]; auto. destruct (wq_push _ d p). exact Hn.
  - unfold on_close_flow. cbn [sh_socks with_mgr_q]. destruct (sock_of_flow (sh_socks sh) id0); exact Hn.
Qed.

Lemma drain_no_new fuel : forall sh sched now e id,
  GQ sh -> sget (m_flows (sh_mgr sh)) id = None ->
  sget (m_flows (sh_mgr (fst (fst (drain hash true fuel sh sched now e))))) id = None.
Proof.
  induction fuel as [|fuel IH]; intros sh sched now e id HG Hn; cbn; [exact Hn|].
  destruct (sh_q sh) as [|lo q'] eqn:Eq; [exact Hn|].
  pose proof (GQ_process sh sched now e lo q' HG Eq) as H1.
  pose proof (process_no_new sh sched now e lo q' HG Eq id Hn) as H2.
  destruct (process hash true (with_mgr_q sh (sh_mgr sh) q') sched now e lo) as [[sh1 sched1] w1]. cbn [fst] in *.
  specialize (IH sh1 sched1 now e id H1 H2).
  destruct (drain hash true fuel sh1 sched1 now e) as [[sh2 sched2] w2]. exact IH.
Qed.

(** one event, from a quiescent shell *)
Lemma GQ_step sh now e sched ev :
  GQ sh -> sh_q sh = [] -> GQ (fst (shell_step hash true sh now e sched ev)).
Proof.
  intros HG Hq. destruct ev as [src p|tok p|tok| | | |i]; cbn [shell_step].
  - unfold full_drain.
    match goal with |- context [drain hash true ?f ?s sched now e] =>
      pose proof (GQ_drain f s sched now e) as H; destruct (drain hash true f s sched now e) as [[sh2 s2] w] end.
    cbn [fst] in *. eapply GQ_fields; [apply H| | | | | | | |]; try reflexivity.
    apply GQ_call; [|right; exact Hq]. eapply GQ_fields; [exact HG| | | | | | | |]; reflexivity.
  - destruct (sock_of_tok (sh_socks sh) tok) as [s|]; [|exact HG]. unfold full_drain.
    match goal with |- context [drain hash true ?f ?s0 sched now e] =>
      pose proof (GQ_drain f s0 sched now e) as H; destruct (drain hash true f s0 sched now e) as [[sh2 s2] w] end.
    cbn [fst] in *. apply H. apply GQ_call; auto.
  - destruct (sock_of_tok (sh_socks sh) tok) as [s|] eqn:Es; [|exact HG].
    destruct (s_q s) as [q|]; [|exact HG].
    destruct (wq_drain_items (wq_items q) sched) as [[rest sent] s']. cbn [fst].
    eapply GQ_set_queue; eauto.
  - destruct (wq_drain_items (wq_items (sh_clq sh)) sched) as [[rest sent] s']. cbn [fst].
    eapply GQ_fields; [exact HG| | | | | | | |]; reflexivity.
  - unfold full_drain.
    match goal with |- context [drain hash true ?f ?s0 sched now e] =>
      pose proof (GQ_drain f s0 sched now e) as H; destruct (drain hash true f s0 sched now e) as [[sh2 s2] w] end.
    cbn [fst] in *. apply H. apply GQ_call; auto. eapply GQ_fields; [exact HG| | | | | | | |]; reflexivity.
  - unfold full_drain.
    match goal with |- context [drain hash true ?f ?s0 sched now e] =>
      pose proof (GQ_drain f s0 sched now e) as H; destruct (drain hash true f s0 sched now e) as [[sh2 s2] w] end.
    cbn [fst] in *. eapply GQ_fields; [apply H| | | | | | | |]; try reflexivity. apply GQ_call; auto.
  - destruct i; try exact HG; unfold full_drain;
    match goal with |- context [drain hash true ?f ?s0 sched now e] =>
      pose proof (GQ_drain f s0 sched now e) as H; destruct (drain hash true f s0 sched now e) as [[sh2 s2] w] end;
    cbn [fst] in *; apply H; apply GQ_call; auto.
Qed.

Lemma GQ_new c mf mrx a : GQ (shell_new (mgr_new c mf mrx) a).
Proof.
  constructor; cbn.
  - apply Inv_new.
  - apply BI_new.
  - constructor.
  - intros s [].
  - intros i id [].
  - exact I.
  - intros k id H. discriminate.
  - intros s [].
  - intros id [].
Qed.

(** at rest, every upstream socket belongs to a live, established flow of the
    incarnation it was opened for *)
Lemma quiescent_sockets sh :
  GQ sh -> sh_q sh = [] ->
  NoDup (map s_tok (sh_socks sh)) /\ NoDup (flows_of (sh_socks sh)) /\
  (forall s, In s (sh_socks sh) ->
     exists f, sget (m_flows (sh_mgr sh)) (s_flow s) = Some f /\ f_inc f = s_inc s /\
               f_backend_addr f = Some (s_backend s)) /\
  (forall k id, tget (sh_key2f sh) k = Some id -> exists s, In s (sh_socks sh) /\ s_flow s = id /\ s_key s = Some k) /\
  sh_opened sh = sh_closed sh + length (sh_socks sh).
Proof.
  intros HG Hq. destruct (g_bi _ HG) as (_ & Hnd & _ & Hbal). repeat split; auto.
  - apply (g_flows _ HG).
  - intros s Hs. destruct (g_sock _ HG s Hs) as [H|H]; [exact H|]. rewrite Hq in H. destruct H.
  - apply (g_k _ HG).
Qed.

(** NAT return: a datagram read from an upstream socket is handed to the manager
    for the flow the socket was opened for, and whatever the manager sends to a
    client in answer is that datagram, labelled with the socket's incarnation,
    towards that incarnation's client *)
Lemma nat_return sh now tok s p i d p' :
  GQ sh -> sh_q sh = [] -> sock_of_tok (sh_socks sh) tok = Some s ->
  In (Some i, SendToClient d p') (snd (step hash (sh_mgr sh) now (IBackend (s_flow s) p))) ->
  i = s_inc s /\ p' = p /\
  exists f, sget (m_flows (sh_mgr sh)) (s_flow s) = Some f /\ f_inc f = s_inc s /\ f_client f = d.
Proof.
  intros HG Hq Hs Hin. destruct (sock_of_tok_In _ _ _ Hs) as (Hs' & _).
  destruct (quiescent_sockets sh HG Hq) as (_ & _ & Hlive & _). destruct (Hlive s Hs') as (f & Hf & Hi & _).
  pose proof (g_inv _ HG) as HI.
  pose proof (shape_SF hash _ _ _ _ _ HI (step_shape hash (sh_mgr sh) now (IBackend (s_flow s) p) HI)) as SFx.
  destruct (sf_toc _ _ _ _ SFx _ _ _ Hin) as (id & g & E & Hg & Hgi & Hgc). inv E.
  rewrite Hf in Hg. inv Hg. repeat split; auto. exists g. auto.
Qed.

(** close_all_flows leaves no upstream socket *)
Lemma close_all_no_socket sh now e sched :
  GQ sh -> sh_q sh = [] ->
  sh_q (fst (shell_step hash true sh now e sched ECloseAll)) = [] ->
  sh_socks (fst (shell_step hash true sh now e sched ECloseAll)) = [] /\
  sh_opened (fst (shell_step hash true sh now e sched ECloseAll)) = sh_closed (fst (shell_step hash true sh now e sched ECloseAll)).
Proof.
  intros HG Hq Hq'. pose proof (GQ_step sh now e sched ECloseAll HG Hq) as HG'.
  assert (forall id, sget (m_flows (sh_mgr (fst (shell_step hash true sh now e sched ECloseAll)))) id = None) as Hnone.
  { intros id. cbn [shell_step]. unfold full_drain.
    match goal with |- context [drain hash true ?f ?s0 sched now e] =>
      pose proof (drain_no_new f s0 sched now e id) as H; destruct (drain hash true f s0 sched now e) as [[sh2 s2] w] end.
    cbn [fst sh_mgr with_timer] in *. apply H.
    - apply GQ_call; auto.
    - unfold call_mgr. pose proof (close_all_leaves_nothing hash (sh_mgr sh) now (g_inv _ HG)) as (Hall & _).
      destruct (step hash (sh_mgr sh) now ICloseAll) as [m' o]. cbn in *. apply Hall. }
  destruct (quiescent_sockets _ HG' Hq') as (_ & _ & Hlive & _ & Hbal).
  destruct (sh_socks (fst (shell_step hash true sh now e sched ECloseAll))) as [|s l] eqn:E.
  - split; [reflexivity|]. cbn [length] in Hbal. rewrite Nat.add_0_r in Hbal. exact Hbal.
  - destruct (Hlive s (or_introl eq_refl)) as (f & Hf & _). rewrite Hnone in Hf. discriminate.
Qed.

End Agreement.

(* ------------------------------------------------------------------ *)
(** Part 5: [drain_outputs] terminates: the fuel given by [drain_fuel] always
    suffices, so every event ends with the manager's queue empty. *)

Definition ow (lo : lout) : nat :=
  match snd lo with SelectBackend _ _ _ => 12 | OpenUpstream _ _ => 5 | _ => 1 end.
Fixpoint qw (q : list lout) : nat := match q with [] => 0 | x :: q' => ow x + qw q' end.

Lemma qw_app a b : qw (a ++ b) = qw a + qw b.
Proof. induction a; cbn; lia. Qed.

Lemma qw_le q : qw q <= 12 * length q.
Proof. induction q as [|x q IH]; cbn [qw length]; [lia|]. unfold ow. destruct (snd x); lia. Qed.

Lemma qw_reschedule m : qw (snd (reschedule m)) <= 1.
Proof. unfold reschedule. destruct (opt_N_eqb _ _); cbn; [lia|]. destruct (min_deadline _); cbn; lia. Qed.

Lemma qw_close_flow m id : qw (snd (close_flow m id)) <= 3.
Proof.
  unfold close_flow. destruct (sget (m_flows m) id) as [f|]; [|cbn; lia].
  destruct (phase_eqb (f_phase f) Closing); [cbn; lia|].
  match goal with |- context [reschedule ?x] => pose proof (qw_reschedule x) as H; destruct (reschedule x) as [m2 o] end.
  cbn in *. lia.
Qed.

Lemma qw_finish m id td : qw (snd (finish m id td)) <= 3.
Proof. unfold finish. destruct td; [apply qw_close_flow|]. pose proof (qw_reschedule m). lia. Qed.

Section Termination.
Variable hash : bool -> addr -> N.

Lemma qw_resolved m now id bid a : qw (snd (step hash m now (IResolved id bid a))) <= 10.
Proof.
  cbn [step]. unfold on_backend_resolved.
  destruct (sget (m_flows m) id) as [f|]; [|cbn; lia].
  destruct (negb (phase_eqb (f_phase f) Awaiting)); [cbn; lia|].
  cbn [set_flow_live f_pending]. destruct (f_pending f) as [payload|].
  - destruct (take_pp _) as [pp f4].
    match goal with |- context [finish ?x ?y ?z] => pose proof (qw_finish x y z) as H; destruct (finish x y z) as [m2 o] end.
    cbn in *. lia.
  - match goal with |- context [reschedule ?x] => pose proof (qw_reschedule x) as H; destruct (reschedule x) as [m2 o] end.
    cbn in *. lia.
Qed.

Lemma qw_abort m now id : qw (snd (step hash m now (IAbort id))) <= 3.
Proof. cbn [step]. apply qw_close_flow. Qed.

Lemma sh_q_call sh now i : sh_q (call_mgr hash sh now i) = sh_q sh ++ snd (step hash (sh_mgr sh) now i).
Proof. unfold call_mgr. destruct (step hash (sh_mgr sh) now i). reflexivity. Qed.

(** one iteration strictly decreases the weight of the queue *)
Lemma process_weight tk sh sched now e lo q' :
  sh_q sh = q' ->
  qw (sh_q (fst (fst (process hash tk sh sched now e lo)))) < ow lo + qw q'.
Proof.
  intros Eq. destruct lo as [l x]. unfold process, ow. cbn [snd fst].
  destruct x as [id cl key|id b|d p|d p|d|mm|id|r]; cbn [fst].
  - destruct (e_resolve e) as [[bid a]|]; cbn [fst]; rewrite sh_q_call, qw_app, Eq.
    + pose proof (qw_resolved (sh_mgr sh) now id bid a). lia.
    + pose proof (qw_abort (sh_mgr sh) now id). lia.
  - unfold on_open_upstream. destruct (negb (e_connect e)); cbn [fst].
    + rewrite sh_q_call, qw_app, Eq. pose proof (qw_abort (sh_mgr sh) now id). lia.
    + destruct (sinsert _ tt). cbn. rewrite Eq. lia.
  - unfold on_send_to_backend.
    destruct (match sh_iff sh with Some f => Some f | None => _ end) as [f|]; [|cbn; rewrite Eq; lia].
    destruct (sock_of_flow _ f) as [s0|]; [|cbn; rewrite Eq; lia].
    destruct (sock_of_tok _ (s_tok s0)) as [s|]; [|cbn; rewrite Eq; lia].
    destruct (match s_q s with Some q => negb (wq_is_empty q) | None => false end).
    + destruct (s_q s) as [q|]; [|cbn; rewrite Eq; lia]. destruct (wq_push q d p). cbn. rewrite Eq. lia.
    + destruct (next_outcome sched) as [o s']. destruct o; cbn [fst]; try (rewrite Eq; lia).
      destruct (wq_push _ d p). cbn. rewrite Eq. lia.
  - unfold on_send_to_client. destruct (negb (wq_is_empty _)).
    + destruct (wq_push _ d p). cbn. rewrite Eq. lia.
    + destruct (next_outcome sched) as [o s']. destruct o; cbn [fst]; try (rewrite Eq; lia).
      destruct (wq_push _ d p). cbn. rewrite Eq. lia.
  - cbn. rewrite Eq. lia.
  - rewrite Eq. lia.
  - unfold on_close_flow. destruct (sock_of_flow (sh_socks sh) id); cbn; rewrite Eq; lia.
  - rewrite Eq. lia.
Qed.

Lemma drain_completes tk fuel : forall sh sched now e,
  qw (sh_q sh) <= fuel -> sh_q (fst (fst (drain hash tk fuel sh sched now e))) = [].
Proof.
  induction fuel as [|fuel IH]; intros sh sched now e Hw; cbn.
  - destruct (sh_q sh) as [|x q]; [reflexivity|]. cbn in Hw. unfold ow in Hw. destruct (snd x); lia.
  - destruct (sh_q sh) as [|lo q'] eqn:Eq; [exact Eq|].
    pose proof (process_weight tk (with_mgr_q sh (sh_mgr sh) q') sched now e lo q' eq_refl) as H1.
    destruct (process hash tk (with_mgr_q sh (sh_mgr sh) q') sched now e lo) as [[sh1 sched1] w1]. cbn [fst] in *.
    cbn in Hw. specialize (IH sh1 sched1 now e ltac:(lia)).
    destruct (drain hash tk fuel sh1 sched1 now e) as [[sh2 sched2] w2]. exact IH.
Qed.

Lemma full_drain_completes tk sh sched now e :
  sh_q (fst (fst (full_drain hash tk sh sched now e))) = [].
Proof. unfold full_drain, drain_fuel. apply drain_completes. pose proof (qw_le (sh_q sh)). lia. Qed.

(** every event ends at rest *)
Lemma shell_step_at_rest tk sh now e sched ev :
  sh_q sh = [] -> sh_q (fst (shell_step hash tk sh now e sched ev)) = [].
Proof.
  intros Hq. destruct ev as [src p|tok p|tok| | | |i]; cbn [shell_step].
  - match goal with |- context [full_drain hash tk ?s sched now e] =>
      pose proof (full_drain_completes tk s sched now e) as H; destruct (full_drain hash tk s sched now e) as [[sh2 s2] w] end.
    exact H.
  - destruct (sock_of_tok (sh_socks sh) tok) as [s|]; [|exact Hq].
    match goal with |- context [full_drain hash tk ?s0 sched now e] =>
      pose proof (full_drain_completes tk s0 sched now e) as H; destruct (full_drain hash tk s0 sched now e) as [[sh2 s2] w] end.
    exact H.
  - destruct (sock_of_tok (sh_socks sh) tok) as [s|]; [|exact Hq]. destruct (s_q s) as [q|]; [|exact Hq].
    destruct (wq_drain_items (wq_items q) sched) as [[rest sent] s']. exact Hq.
  - destruct (wq_drain_items (wq_items (sh_clq sh)) sched) as [[rest sent] s']. exact Hq.
  - match goal with |- context [full_drain hash tk ?s0 sched now e] =>
      pose proof (full_drain_completes tk s0 sched now e) as H; destruct (full_drain hash tk s0 sched now e) as [[sh2 s2] w] end.
    exact H.
  - match goal with |- context [full_drain hash tk ?s0 sched now e] =>
      pose proof (full_drain_completes tk s0 sched now e) as H; destruct (full_drain hash tk s0 sched now e) as [[sh2 s2] w] end.
    exact H.
  - destruct i; try exact Hq;
    match goal with |- context [full_drain hash tk ?s0 sched now e] =>
      pose proof (full_drain_completes tk s0 sched now e) as H; destruct (full_drain hash tk s0 sched now e) as [[sh2 s2] w] end;
    exact H.
Qed.

End Termination.
