(** C19 — lemmas.  Part 1: the inductive invariant of the manager. *)
From Coq Require Import List NArith Bool Arith Lia.
From SV Require Import Common.Slab C19.Model.
Import ListNotations.

Ltac case_if := match goal with |- context [if ?c then _ else _] => destruct c eqn:? end.
Ltac inv H := inversion H; subst; clear H.

(* ------------------------------------------------------------ the table *)

Lemma addr_eqb_eq a b : addr_eqb a b = true <-> a = b.
Proof. unfold addr_eqb. destruct (addr_eq_dec a b); split; congruence. Qed.
Lemma addr_eqb_refl a : addr_eqb a a = true.
Proof. apply addr_eqb_eq. reflexivity. Qed.
Lemma addr_eqb_neq a b : addr_eqb a b = false <-> a <> b.
Proof. unfold addr_eqb. destruct (addr_eq_dec a b); split; congruence. Qed.

Lemma tget_tremove t k k' : tget (tremove t k) k' = if addr_eqb k k' then None else tget t k'.
Proof.
  unfold tremove. induction t as [|[k0 v] t IH]; cbn.
  - destruct (addr_eqb k k'); reflexivity.
  - destruct (addr_eqb k0 k) eqn:E0; cbn.
    + apply addr_eqb_eq in E0. subst k0. rewrite IH.
      destruct (addr_eqb k k'); reflexivity.
    + rewrite IH. destruct (addr_eqb k0 k') eqn:E1; auto.
      apply addr_eqb_eq in E1. subst k0.
      destruct (addr_eqb k k') eqn:E2; auto.
      apply addr_eqb_eq in E2. subst k. rewrite addr_eqb_refl in E0. discriminate.
Qed.

Lemma tget_tinsert t k v k' : tget (tinsert t k v) k' = if addr_eqb k k' then Some v else tget t k'.
Proof.
  unfold tinsert. cbn. destruct (addr_eqb k k') eqn:E; auto.
  rewrite tget_tremove, E. reflexivity.
Qed.

Lemma opt_nat_eqb_eq a b : opt_nat_eqb a b = true <-> a = b.
Proof.
  destruct a, b; cbn; try (split; congruence).
  rewrite Nat.eqb_eq. split; congruence.
Qed.
Lemma opt_N_eqb_eq a b : opt_N_eqb a b = true <-> a = b.
Proof.
  destruct a, b; cbn; try (split; congruence).
  rewrite N.eqb_eq. split; congruence.
Qed.

Lemma phase_eqb_eq a b : phase_eqb a b = true <-> a = b.
Proof. destruct a, b; cbn; split; congruence. Qed.

(* ------------------------------------------------------- min_deadline *)

Definition md_step (acc : option N) (kf : nat * flow) : option N :=
  if phase_eqb (f_phase (snd kf)) Closing then acc else opt_min acc (f_deadline (snd kf)).

Lemma md_fold_spec l : forall acc r,
  fold_left md_step l acc = r ->
  match r with
  | None => acc = None /\ (forall kf, In kf l -> f_phase (snd kf) = Closing)
  | Some d =>
    (acc = Some d \/ exists kf, In kf l /\ f_phase (snd kf) <> Closing /\ f_deadline (snd kf) = d) /\
    (forall a, acc = Some a -> (d <= a)%N) /\
    (forall kf, In kf l -> f_phase (snd kf) <> Closing -> (d <= f_deadline (snd kf))%N)
  end.
Proof.
  induction l as [|kf l IH]; intros acc r Hr; cbn in Hr.
  - subst r. destruct acc as [a|].
    + split; [left; reflexivity|]. split.
      * intros a' E. inv E. lia.
      * intros kf [].
    + split; [reflexivity | intros kf []].
  - specialize (IH _ _ Hr).
    destruct (phase_eqb (f_phase (snd kf)) Closing) eqn:Ep.
    + assert (md_step acc kf = acc) as Hm by (unfold md_step; rewrite Ep; reflexivity).
      rewrite Hm in IH. clear Hm.
      apply phase_eqb_eq in Ep. destruct r as [d|].
      * destruct IH as (H1 & H2 & H3). split; [|split].
        -- destruct H1 as [H1|(kf' & Hin & Hp & Hd)]; [left; exact H1|].
           right. exists kf'. split; [right; exact Hin | split; assumption].
        -- exact H2.
        -- intros kf' [<-|Hin] Hp; [congruence | apply H3; assumption].
      * destruct IH as (H1 & H2). split; [exact H1|].
        intros kf' [<-|Hin]; [exact Ep | apply H2; exact Hin].
    + assert (md_step acc kf = opt_min acc (f_deadline (snd kf))) as Hm
          by (unfold md_step; rewrite Ep; reflexivity).
      rewrite Hm in IH. clear Hm.
      assert (f_phase (snd kf) <> Closing) as Hnc.
      { intros E. apply phase_eqb_eq in E. congruence. }
      destruct r as [d|].
      * destruct IH as (H1 & H2 & H3).
        assert (d <= f_deadline (snd kf))%N as Hle.
        { destruct acc as [a|]; cbn in H2.
          - specialize (H2 _ eq_refl). lia.
          - specialize (H2 _ eq_refl). lia. }
        split; [|split].
        -- destruct H1 as [H1|(kf' & Hin & Hp & Hd)].
           ++ destruct acc as [a|]; cbn in H1; inv H1.
              ** destruct (N.le_ge_cases a (f_deadline (snd kf))) as [Hc|Hc].
                 --- left. f_equal. lia.
                 --- right. exists kf. split; [left; reflexivity|]. split; [exact Hnc|]. lia.
              ** right. exists kf. split; [left; reflexivity|]. split; [exact Hnc|reflexivity].
           ++ right. exists kf'. split; [right; exact Hin | split; assumption].
        -- intros a E. subst acc. cbn in H2. specialize (H2 _ eq_refl). lia.
        -- intros kf' [<-|Hin] Hp; [exact Hle | apply H3; assumption].
      * destruct IH as (H1 & _). destruct acc; discriminate.
Qed.

Lemma min_deadline_unfold s : min_deadline s = fold_left md_step (sitems s) None.
Proof. reflexivity. Qed.

Lemma min_deadline_some s d :
  min_deadline s = Some d ->
  (exists id f, sget s id = Some f /\ f_phase f <> Closing /\ f_deadline f = d) /\
  (forall id f, sget s id = Some f -> f_phase f <> Closing -> (d <= f_deadline f)%N).
Proof.
  intros H. rewrite min_deadline_unfold in H. apply md_fold_spec in H.
  destruct H as (H1 & _ & H3). split.
  - destruct H1 as [H1|((id, f) & Hin & Hp & Hd)]; [discriminate|].
    exists id, f. split; [apply sitems_spec; exact Hin | split; assumption].
  - intros id f Hg Hp. apply (H3 (id, f)); [apply sitems_spec; exact Hg | exact Hp].
Qed.

Lemma min_deadline_none s :
  min_deadline s = None -> forall id f, sget s id = Some f -> f_phase f = Closing.
Proof.
  intros H id f Hg. rewrite min_deadline_unfold in H. apply md_fold_spec in H.
  destruct H as (_ & H). apply (H (id, f)). apply sitems_spec. exact Hg.
Qed.

(* ------------------------------------------------------- the invariant *)

Definition own_key (f : flow) : addr := key_of (f_client f) (c_with_port (f_cfg f)).

Definition phase_ok (f : flow) : Prop :=
  match f_phase f with
  | Awaiting => f_backend_addr f = None /\ f_pending f <> None
  | Established => f_backend_addr f <> None /\ f_pending f = None
  | Closing => False
  end.

(** Everything [check_invariants] (manager.rs:685) asserts, and more:
    - [inv_tab_slab]/[inv_slab_tab]: the table and the slab are in bijection
      through each flow's OWN admission key (clauses 1, 2, plus: no orphan flow)
    - [inv_phase]: clauses 4 and 5 (no Closing flow; Established <-> backend)
    - [inv_caps]: clause 7 in its strong form: no live flow has an exhausted cap
    - [inv_armed]: clause 6: the armed deadline is the minimum flow deadline
    - [inv_hw]: the high-water bound. *)
Record Inv (m : mgr) : Prop := {
  inv_wf : slab_wf (m_flows m);
  inv_tab_slab : forall k id, tget (m_table m) k = Some id ->
                   exists f, sget (m_flows m) id = Some f /\ own_key f = k;
  inv_slab_tab : forall id f, sget (m_flows m) id = Some f -> tget (m_table m) (own_key f) = Some id;
  inv_phase : forall id f, sget (m_flows m) id = Some f -> phase_ok f;
  inv_caps : forall id f, sget (m_flows m) id = Some f -> teardown_due f = false;
  inv_armed : m_armed m = min_deadline (m_flows m);
  inv_hw : (N.of_nat (slen (m_flows m)) <= m_hw m)%N /\ (m_max_flows m <= m_hw m)%N;
  inv_inc : forall id f, sget (m_flows m) id = Some f -> (f_inc f < m_ninc m)%N;
  inv_inc_inj : forall id1 id2 f1 f2, sget (m_flows m) id1 = Some f1 -> sget (m_flows m) id2 = Some f2 ->
                  f_inc f1 = f_inc f2 -> id1 = id2;
}.

(** the three state shapes every entry point ends in *)
Definition rearmed (m : mgr) : mgr := set_armed m (min_deadline (m_flows m)).
Definition updated (m : mgr) (id : nat) (f' : flow) : mgr :=
  rearmed (set_flows m (sset (m_flows m) id f')).
Definition removed (m : mgr) (id : nat) (f : flow) : mgr :=
  rearmed (set_flows (set_table m (tremove (m_table m) (own_key f))) (sremove (m_flows m) id)).

Definition arms (o : list lout) : Prop := Forall (fun x => exists d, x = (None, ArmTimer d)) o.

Lemma reschedule_spec m : exists o, reschedule m = (rearmed m, o) /\ arms o.
Proof.
  unfold reschedule, rearmed. destruct (opt_N_eqb _ _) eqn:E.
  - apply opt_N_eqb_eq in E. exists []. split; [|constructor].
    rewrite E. destruct m; reflexivity.
  - destruct (min_deadline (m_flows m)) as [d|].
    + exists [(None, ArmTimer d)]. split; [reflexivity|]. constructor; [eauto|constructor].
    + exists []. split; [reflexivity|constructor].
Qed.

(** same client, config and incarnation: what every in-place update preserves *)
Definition same_id (f f' : flow) : Prop :=
  f_client f' = f_client f /\ f_cfg f' = f_cfg f /\ f_inc f' = f_inc f.

Lemma Inv_rearmed m :
  slab_wf (m_flows m) ->
  (forall k id, tget (m_table m) k = Some id -> exists f, sget (m_flows m) id = Some f /\ own_key f = k) ->
  (forall id f, sget (m_flows m) id = Some f -> tget (m_table m) (own_key f) = Some id) ->
  (forall id f, sget (m_flows m) id = Some f -> phase_ok f) ->
  (forall id f, sget (m_flows m) id = Some f -> teardown_due f = false) ->
  ((N.of_nat (slen (m_flows m)) <= m_hw m)%N /\ (m_max_flows m <= m_hw m)%N) ->
  (forall id f, sget (m_flows m) id = Some f -> (f_inc f < m_ninc m)%N) ->
  (forall id1 id2 f1 f2, sget (m_flows m) id1 = Some f1 -> sget (m_flows m) id2 = Some f2 ->
                  f_inc f1 = f_inc f2 -> id1 = id2) ->
  Inv (rearmed m).
Proof. intros. constructor; cbn; auto. Qed.

Lemma Inv_updated m id f f' :
  Inv m -> sget (m_flows m) id = Some f -> same_id f f' -> phase_ok f' -> teardown_due f' = false ->
  Inv (updated m id f').
Proof.
  intros HI Hg (Hc & Hcfg & Hinc) Hp Ht. unfold updated.
  assert (own_key f' = own_key f) as Hk by (unfold own_key; rewrite Hc, Hcfg; reflexivity).
  apply Inv_rearmed; cbn.
  - apply sset_wf. apply HI.
  - intros k j Hj. destruct (inv_tab_slab _ HI _ _ Hj) as (g & Hg1 & Hg2).
    rewrite sget_sset. destruct (Nat.eqb j id) eqn:E.
    + apply Nat.eqb_eq in E. subst j. rewrite Hg. exists f'. split; [reflexivity|]. congruence.
    + exists g. auto.
  - intros j g. rewrite sget_sset. destruct (Nat.eqb j id) eqn:E.
    + apply Nat.eqb_eq in E. subst j. rewrite Hg. intros H. inv H. rewrite Hk.
      apply (inv_slab_tab _ HI). exact Hg.
    + apply (inv_slab_tab _ HI).
  - intros j g. rewrite sget_sset. destruct (Nat.eqb j id) eqn:E.
    + rewrite Nat.eqb_eq in E. subst j. rewrite Hg. intros H. inv H. exact Hp.
    + apply (inv_phase _ HI).
  - intros j g. rewrite sget_sset. destruct (Nat.eqb j id) eqn:E.
    + rewrite Nat.eqb_eq in E. subst j. rewrite Hg. intros H. inv H. exact Ht.
    + apply (inv_caps _ HI).
  - rewrite slen_sset. apply HI.
  - intros j g. rewrite sget_sset. destruct (Nat.eqb j id) eqn:E.
    + rewrite Nat.eqb_eq in E. subst j. rewrite Hg. intros H. inv H. rewrite Hinc.
      apply (inv_inc _ HI _ _ Hg).
    + apply (inv_inc _ HI).
  - intros j1 j2 g1 g2. rewrite !sget_sset.
    destruct (Nat.eqb j1 id) eqn:E1; destruct (Nat.eqb j2 id) eqn:E2;
      rewrite ?Nat.eqb_eq in *; subst; rewrite ?Hg; intros H1 H2 He.
    + reflexivity.
    + inv H1. rewrite Hinc in He. apply (inv_inc_inj _ HI _ _ _ _ Hg H2 He).
    + inv H2. rewrite Hinc in He. apply (inv_inc_inj _ HI _ _ _ _ H1 Hg He).
    + apply (inv_inc_inj _ HI _ _ _ _ H1 H2 He).
Qed.

Lemma Inv_removed m id f :
  Inv m -> sget (m_flows m) id = Some f -> Inv (removed m id f).
Proof.
  intros HI Hg. unfold removed. apply Inv_rearmed; cbn.
  - apply sremove_wf. apply HI.
  - intros k j. rewrite tget_tremove. destruct (addr_eqb (own_key f) k) eqn:E; [discriminate|].
    intros Hj. destruct (inv_tab_slab _ HI _ _ Hj) as (g & Hg1 & Hg2).
    exists g. split; [|exact Hg2]. rewrite sget_sremove.
    destruct (Nat.eqb j id) eqn:Ej; [|exact Hg1].
    apply Nat.eqb_eq in Ej. subst j. rewrite Hg in Hg1. inv Hg1.
    rewrite addr_eqb_refl in E. discriminate.
  - intros j g. rewrite sget_sremove. destruct (Nat.eqb j id) eqn:Ej; [discriminate|].
    intros Hj. rewrite tget_tremove. destruct (addr_eqb (own_key f) (own_key g)) eqn:E.
    + apply addr_eqb_eq in E. pose proof (inv_slab_tab _ HI _ _ Hg) as H1.
      pose proof (inv_slab_tab _ HI _ _ Hj) as H2. rewrite E in H1. rewrite H1 in H2. inv H2.
      rewrite Nat.eqb_refl in Ej. discriminate.
    + apply (inv_slab_tab _ HI). exact Hj.
  - intros j g. rewrite sget_sremove. destruct (Nat.eqb j id); [discriminate|]. apply (inv_phase _ HI).
  - intros j g. rewrite sget_sremove. destruct (Nat.eqb j id); [discriminate|]. apply (inv_caps _ HI).
  - pose proof (slen_sremove _ _ Hg). destruct (inv_hw _ HI). split; [lia|assumption].
  - intros j g. rewrite sget_sremove. destruct (Nat.eqb j id); [discriminate|]. apply (inv_inc _ HI).
  - intros j1 j2 g1 g2. rewrite !sget_sremove.
    destruct (Nat.eqb j1 id); [discriminate|]. destruct (Nat.eqb j2 id); [discriminate|].
    apply (inv_inc_inj _ HI).
Qed.

Lemma phase_ok_not_closing f : phase_ok f -> phase_eqb (f_phase f) Closing = false.
Proof. unfold phase_ok. destruct (f_phase f); cbn; tauto. Qed.

(** [close_flow] in closed form *)
Lemma close_flow_live m id f :
  Inv m -> sget (m_flows m) id = Some f ->
  exists o, close_flow m id =
            (removed m id f, [(Some (f_inc f), Metric MEvicted); (Some (f_inc f), CloseFlow id)] ++ o)
            /\ arms o.
Proof.
  intros HI Hg. unfold close_flow. rewrite Hg.
  rewrite (phase_ok_not_closing _ (inv_phase _ HI _ _ Hg)).
  pose proof (inv_slab_tab _ HI _ _ Hg) as Hown. fold (own_key f). rewrite Hown.
  assert ((if opt_nat_eqb (tget (m_table m) (key_of (f_client f) (c_with_port (m_cluster m)))) (Some id)
           then tremove (m_table m) (key_of (f_client f) (c_with_port (m_cluster m)))
           else if opt_nat_eqb (Some id) (Some id) then tremove (m_table m) (own_key f) else m_table m)
          = tremove (m_table m) (own_key f)) as ->.
  { destruct (opt_nat_eqb (tget _ _) (Some id)) eqn:E.
    - apply opt_nat_eqb_eq in E. destruct (inv_tab_slab _ HI _ _ E) as (g & Hg1 & Hg2).
      rewrite Hg in Hg1. inv Hg1. rewrite Hg2. reflexivity.
    - cbn. rewrite Nat.eqb_refl. reflexivity. }
  destruct (reschedule_spec (set_flows (set_table m (tremove (m_table m) (own_key f))) (sremove (m_flows m) id)))
    as (o & Ho & Harm).
  rewrite Ho. exists o. split; [reflexivity | exact Harm].
Qed.

Lemma close_flow_dead m id : sget (m_flows m) id = None -> close_flow m id = (m, []).
Proof. intros H. unfold close_flow. rewrite H. reflexivity. Qed.

Lemma close_flow_inv m id : Inv m -> Inv (fst (close_flow m id)).
Proof.
  intros HI. destruct (sget (m_flows m) id) as [f|] eqn:Hg.
  - destruct (close_flow_live _ _ _ HI Hg) as (o & -> & _). cbn. apply Inv_removed; assumption.
  - rewrite close_flow_dead by assumption. exact HI.
Qed.

(** closing right after an in-place update of the same slot = closing *)
Lemma removed_after_sset m id f f' :
  sget (m_flows m) id = Some f -> same_id f f' ->
  removed (set_flows m (sset (m_flows m) id f')) id f' = removed m id f.
Proof.
  intros Hg (Hc & Hcfg & Hinc). unfold removed, own_key. cbn.
  rewrite sremove_sset, Hc, Hcfg. reflexivity.
Qed.

Lemma sget_sset_same (s : slab flow) id f f' : sget s id = Some f -> sget (sset s id f') id = Some f'.
Proof. intros H. rewrite sget_sset, Nat.eqb_refl, H. reflexivity. Qed.

(** an in-place update that leaves a cap exhausted is immediately followed by
    [close_flow]; the intermediate state only has to satisfy the part of the
    invariant [close_flow] relies on. *)
Lemma close_flow_after_sset m id f f' :
  Inv m -> sget (m_flows m) id = Some f -> same_id f f' -> f_phase f' <> Closing ->
  exists o, close_flow (set_flows m (sset (m_flows m) id f')) id =
            (removed m id f, [(Some (f_inc f), Metric MEvicted); (Some (f_inc f), CloseFlow id)] ++ o)
            /\ arms o.
Proof.
  intros HI Hg Hs Hp. pose proof Hs as (Hc & Hcfg & Hinc).
  unfold close_flow. cbn [m_flows set_flows m_table m_cluster].
  rewrite (sget_sset_same _ _ _ _ Hg).
  assert (phase_eqb (f_phase f') Closing = false) as ->.
  { destruct (phase_eqb (f_phase f') Closing) eqn:E; auto. apply phase_eqb_eq in E. congruence. }
  assert (own_key f' = own_key f) as Hk by (unfold own_key; rewrite Hc, Hcfg; reflexivity).
  pose proof (inv_slab_tab _ HI _ _ Hg) as Hown. fold (own_key f'). rewrite Hk, Hown.
  assert ((if opt_nat_eqb (tget (m_table m) (key_of (f_client f') (c_with_port (m_cluster m)))) (Some id)
           then tremove (m_table m) (key_of (f_client f') (c_with_port (m_cluster m)))
           else if opt_nat_eqb (Some id) (Some id) then tremove (m_table m) (own_key f) else m_table m)
          = tremove (m_table m) (own_key f)) as ->.
  { destruct (opt_nat_eqb (tget _ _) (Some id)) eqn:E.
    - apply opt_nat_eqb_eq in E. destruct (inv_tab_slab _ HI _ _ E) as (g & Hg1 & Hg2).
      rewrite Hg in Hg1. inv Hg1. rewrite Hg2. reflexivity.
    - cbn. rewrite Nat.eqb_refl. reflexivity. }
  match goal with |- context [reschedule ?x] => destruct (reschedule_spec x) as (o & Ho & Harm) end.
  rewrite Ho. exists o. split; [|exact Harm].
  rewrite Hinc. f_equal. unfold removed, rearmed. cbn. rewrite sremove_sset. reflexivity.
Qed.

(* ------------------------------------------------------------------ *)
(** Part 2: every entry point, in closed form ("shape"). *)

Definition evict_close (id : nat) (f : flow) : list lout :=
  [(Some (f_inc f), Metric MEvicted); (Some (f_inc f), CloseFlow id)].

(** what a forwarding site pushes before it re-arms or closes *)
Inductive pre_ok (inp : input) (id : nat) (f f' : flow) : list lout -> Prop :=
| pre_nil : f_backend_addr f' = f_backend_addr f -> pre_ok inp id f f' []
| pre_forward src p b hdr :
    inp = IClient src p -> f_backend_addr f = Some b -> f_backend_addr f' = Some b ->
    hdr = [] \/ hdr = dgram_header (f_client f) b ->
    pre_ok inp id f f' [(Some (f_inc f), Metric (MIn (N.of_nat (length p))));
                        (Some (f_inc f), SendToBackend b (hdr ++ p))]
| pre_resolve bid a p hdr :
    inp = IResolved id bid a -> f_backend_addr f = None -> f_pending f = Some p ->
    f_backend_addr f' = Some a -> hdr = [] \/ hdr = dgram_header (f_client f) a ->
    pre_ok inp id f f' [(Some (f_inc f), OpenUpstream id a);
                        (Some (f_inc f), Metric (MIn (N.of_nat (length p))));
                        (Some (f_inc f), SendToBackend a (hdr ++ p))]
| pre_resolve_empty bid a :
    inp = IResolved id bid a -> f_backend_addr f = None -> f_backend_addr f' = Some a ->
    pre_ok inp id f f' [(Some (f_inc f), OpenUpstream id a)]
| pre_reply p :
    inp = IBackend id p -> f_backend_addr f' = f_backend_addr f -> f_backend_addr f <> None ->
    pre_ok inp id f f' [(Some (f_inc f), Metric (MOut (N.of_nat (length p))));
                        (Some (f_inc f), SendToClient (f_client f) p)].

(** a run of teardowns (handle_timeout, close_all) *)
Inductive rems : mgr -> mgr -> list lout -> Prop :=
| rems_nil m : rems m m []
| rems_arms m m' a o : arms a -> rems m m' o -> rems m m' (a ++ o)
| rems_cons m id f m' o :
    sget (m_flows m) id = Some f -> rems (removed m id f) m' o ->
    rems m m' (evict_close id f ++ o).

Definition admit_flow (m : mgr) (src : addr) (p : list N) (now : N) : flow :=
  mkflow src None None Awaiting (m_cluster m) 0 0 (now + c_front (m_cluster m)) 0
         (c_send_pp (m_cluster m)) (Some p) (m_ninc m).

Definition admitted (m : mgr) (src : addr) (p : list N) (now : N) : mgr :=
  rearmed (mkmgr (tinsert (m_table m) (key_of src (c_with_port (m_cluster m))) (s_next (m_flows m)))
                 (fst (sinsert (m_flows m) (admit_flow m src p now)))
                 (m_max_flows m) (m_max_rx m) (m_cluster m) (m_draining m) (m_armed m) (m_hw m)
                 (m_ninc m + 1)).

Inductive shape (hash : bool -> addr -> N) (m : mgr) (now : N) (inp : input) : mgr -> list lout -> Prop :=
| sh_same o : Forall (fun x : lout => fst x = None) o ->
    Forall (fun x : lout => match snd x with Metric _ | Drop _ => True | _ => False end) o ->
    shape hash m now inp m o
| sh_cfg m' :
    m_flows m' = m_flows m -> m_table m' = m_table m -> m_armed m' = m_armed m ->
    m_ninc m' = m_ninc m -> (m_max_flows m' <= m_hw m')%N -> (m_hw m <= m_hw m')%N ->
    shape hash m now inp m' []
| sh_update id f f' pre o :
    sget (m_flows m) id = Some f -> same_id f f' -> phase_ok f' -> teardown_due f' = false ->
    pre_ok inp id f f' pre -> arms o ->
    (forall b, f_backend_addr f = Some b -> f_backend_addr f' = Some b) ->
    (forall p, f_pending f' = Some p -> f_pending f = Some p \/ exists src, inp = IClient src p) ->
    shape hash m now inp (updated m id f') (pre ++ o)
| sh_remove id f f' pre o :
    sget (m_flows m) id = Some f -> same_id f f' -> pre_ok inp id f f' pre -> arms o ->
    shape hash m now inp (removed m id f) (pre ++ evict_close id f ++ o)
| sh_rems m' o : rems m m' o -> shape hash m now inp m' o
| sh_admit src p o m' cl :
    inp = IClient src p -> tget (m_table m) (key_of src (c_with_port (m_cluster m))) = None ->
    m_draining m = false -> (N.of_nat (slen (m_flows m)) < m_max_flows m)%N -> arms o ->
    m' = admitted m src p now -> cl = c_cluster (m_cluster m) -> cl <> [] -> p <> [] ->
    shape hash m now inp m'
          ([(Some (m_ninc m), Metric MCreated);
            (Some (m_ninc m), SelectBackend (s_next (m_flows m)) cl
                                            (hash (c_with_port (m_cluster m)) (key_of src (c_with_port (m_cluster m)))))]
           ++ o).

(** flow-level facts *)
Lemma same_id_refl f : same_id f f.
Proof. repeat split. Qed.
Lemma same_id_trans f g h : same_id f g -> same_id g h -> same_id f h.
Proof. unfold same_id. intros (a & b & c) (d & e & i). repeat split; congruence. Qed.

Lemma take_pp_spec f b f' :
  take_pp f = (b, f') ->
  same_id f f' /\ f_phase f' = f_phase f /\ f_backend_addr f' = f_backend_addr f /\
  f_pending f' = f_pending f /\ f_req f' = f_req f /\ f_resp f' = f_resp f /\
  f_deadline f' = f_deadline f.
Proof.
  unfold take_pp. repeat case_if; intros H; inv H; cbn; repeat split.
Qed.

Lemma take_pp_teardown f b f' : take_pp f = (b, f') -> teardown_due f' = teardown_due f.
Proof.
  unfold take_pp. repeat case_if; intros H; inv H; reflexivity.
Qed.

Lemma rearmed_Inv m : Inv m -> rearmed m = m.
Proof. intros HI. unfold rearmed. rewrite <- (inv_armed _ HI). destruct m; reflexivity. Qed.

Lemma rearmed_set_armed m x : rearmed (set_armed m x) = rearmed m.
Proof. reflexivity. Qed.

Lemma finish_spec m id f f' :
  Inv m -> sget (m_flows m) id = Some f -> same_id f f' -> phase_ok f' ->
  exists o, arms o /\
    finish (set_flows m (sset (m_flows m) id f')) id (teardown_due f') =
    if teardown_due f' then (removed m id f, evict_close id f ++ o) else (updated m id f', o).
Proof.
  intros HI Hg Hs Hp. unfold finish. destruct (teardown_due f') eqn:Ht.
  - destruct (close_flow_after_sset m id f f' HI Hg Hs) as (o & Ho & Harm).
    { unfold phase_ok in Hp. destruct (f_phase f'); try discriminate; tauto. }
    exists o. split; [exact Harm | exact Ho].
  - match goal with |- context [reschedule ?x] => destruct (reschedule_spec x) as (o & Ho & Harm) end.
    exists o. split; [exact Harm | exact Ho].
Qed.

Lemma teardown_due_ext f f' :
  f_cfg f' = f_cfg f -> f_req f' = f_req f -> f_resp f' = f_resp f -> teardown_due f' = teardown_due f.
Proof.
  intros H1 H2 H3. unfold teardown_due, responses_exhausted, requests_exhausted.
  rewrite H1, H2, H3. reflexivity.
Qed.

Lemma rems_app m1 m2 m3 o1 o2 : rems m1 m2 o1 -> rems m2 m3 o2 -> rems m1 m3 (o1 ++ o2).
Proof.
  induction 1 as [m|m m' a o Ha H IH|m id f m' o Hg H IH]; intros H2; cbn [app].
  - exact H2.
  - rewrite <- app_assoc. apply rems_arms; auto.
  - unfold evict_close. cbn [app]. apply (rems_cons m id f); auto.
Qed.

Lemma rems_inv m m' o : rems m m' o -> Inv m -> Inv m'.
Proof.
  induction 1 as [m|m m' a o Ha H IH|m id f m' o Hg H IH]; intros HI; auto.
  apply IH. apply Inv_removed; assumption.
Qed.

Lemma close_flow_rems m id : Inv m -> rems m (fst (close_flow m id)) (snd (close_flow m id)).
Proof.
  intros HI. destruct (sget (m_flows m) id) as [f|] eqn:Hg.
  - destruct (close_flow_live _ _ _ HI Hg) as (o & -> & Harm). cbn [fst snd].
    apply (rems_cons m id f); auto. rewrite <- (app_nil_r o). apply rems_arms; [exact Harm|constructor].
  - rewrite close_flow_dead by assumption. constructor.
Qed.

Ltac drop_same := apply sh_same; repeat constructor.

Section HandlerShapes.
Variable hash : bool -> addr -> N.

Lemma on_backend_datagram_shape m id p now :
  Inv m ->
  shape hash m now (IBackend id p) (fst (on_backend_datagram m id p now)) (snd (on_backend_datagram m id p now)).
Proof.
  intros HI. unfold on_backend_datagram.
  case_if; [drop_same|].
  destruct (sget (m_flows m) id) as [f|] eqn:Hg; [|drop_same].
  destruct (phase_eqb (f_phase f) Established) eqn:Ep; cbn [negb]; [|drop_same].
  apply phase_eqb_eq in Ep.
  pose proof (inv_phase _ HI _ _ Hg) as Hp. unfold phase_ok in Hp. rewrite Ep in Hp. destruct Hp as (Hb & Hpend).
  set (f1 := flow_on_backend f now).
  assert (same_id f f1) as Hs by (repeat split).
  assert (phase_ok f1) as Hp1 by (unfold phase_ok; cbn; rewrite Ep; auto).
  destruct (finish_spec m id f f1 HI Hg Hs Hp1) as (o & Harm & Hf). rewrite Hf.
  destruct (teardown_due f1) eqn:Ht; cbn [fst snd].
  - apply (sh_remove hash m now _ id f f1
             [(Some (f_inc f), Metric (MOut (N.of_nat (length p)))); (Some (f_inc f), SendToClient (f_client f) p)] o);
      auto. apply pre_reply; auto.
  - apply (sh_update hash m now _ id f f1
             [(Some (f_inc f), Metric (MOut (N.of_nat (length p)))); (Some (f_inc f), SendToClient (f_client f) p)] o);
      auto; try (apply pre_reply; auto; fail); try (intros p0 Hp0; left; exact Hp0).
Qed.

Lemma forward_shape m id src p now :
  Inv m ->
  shape hash m now (IClient src p) (fst (forward_on_existing_flow m id p now))
        (snd (forward_on_existing_flow m id p now)).
Proof.
  intros HI. unfold forward_on_existing_flow.
  destruct (sget (m_flows m) id) as [f|] eqn:Hg; [|drop_same].
  pose proof (inv_phase _ HI _ _ Hg) as Hp. unfold phase_ok in Hp.
  destruct (f_phase f) eqn:Ep; [| |drop_same].
  - (* Awaiting: buffer, newest wins *)
    destruct Hp as (Hb & Hpend).
    match goal with |- context [reschedule (set_flows m (sset _ id ?g))] => set (f1 := g) end.
    destruct (reschedule_spec (set_flows m (sset (m_flows m) id f1))) as (o & Ho & Harm).
    rewrite Ho. cbn [fst snd]. change o with ([] ++ o).
    apply (sh_update hash m now _ id f f1 [] o); auto.
    + repeat split.
    + unfold phase_ok. cbn. rewrite ?Ep. split; [exact Hb | discriminate].
    + rewrite <- (inv_caps _ HI _ _ Hg). apply teardown_due_ext; reflexivity.
    + constructor. reflexivity.
    + intros p0 Hp0. right. exists src. cbn in Hp0. inversion Hp0. reflexivity.
  - (* Established: forward *)
    destruct Hp as (Hb & Hpend).
    destruct (f_backend_addr f) as [b|] eqn:Eb; [|congruence].
    cbn [flow_on_client touch f_backend_addr]. rewrite Eb.
    destruct (take_pp (flow_on_client f now)) as [pp f2] eqn:Etp.
    destruct (take_pp_spec _ _ _ Etp) as (Hs2 & Hph2 & Hb2 & Hpe2 & _).
    assert (same_id f f2) as Hs.
    { eapply same_id_trans; [|exact Hs2]. repeat split. }
    assert (phase_ok f2) as Hp2.
    { unfold phase_ok. rewrite Hph2, Hb2, Hpe2. cbn. rewrite Ep, Eb. split; [discriminate|exact Hpend]. }
    destruct (finish_spec m id f f2 HI Hg Hs Hp2) as (o & Harm & Hf). rewrite Hf.
    assert (f_client f2 = f_client f) as Hc by apply Hs.
    assert (f_backend_addr f2 = Some b) as Hb2' by (rewrite Hb2; cbn; exact Eb).
    set (hdr := if pp then dgram_header (f_client f) b else []).
    assert ((if pp then dgram_header (f_client f2) b ++ p else p) = hdr ++ p) as ->.
    { unfold hdr. rewrite Hc. destruct pp; reflexivity. }
    assert (hdr = [] \/ hdr = dgram_header (f_client f) b) as Hh by (unfold hdr; destruct pp; auto).
    destruct (teardown_due f2) eqn:Ht; cbn [fst snd].
    + apply (sh_remove hash m now _ id f f2 _ o); auto. eapply pre_forward; eauto.
    + apply (sh_update hash m now _ id f f2 _ o); auto; [eapply pre_forward; eauto| |].
      * intros b0 Hb0. congruence.
      * intros p0 Hp0. rewrite Hpe2 in Hp0. cbn in Hp0. left. exact Hp0.
Qed.

Lemma on_client_datagram_shape m src p now :
  Inv m ->
  shape hash m now (IClient src p) (fst (on_client_datagram hash m src p now))
        (snd (on_client_datagram hash m src p now)).
Proof.
  intros HI. unfold on_client_datagram.
  case_if; [drop_same|].
  destruct (c_cluster (m_cluster m)) as [|c0 cl] eqn:Ecl; [drop_same|].
  destruct p as [|p0 p']; [drop_same|].
  destruct (tget (m_table m) (key_of src (c_with_port (m_cluster m)))) as [id|] eqn:Et.
  - apply forward_shape. exact HI.
  - destruct (m_draining m) eqn:Ed; [drop_same|].
    destruct (N.leb (m_max_flows m) (N.of_nat (slen (m_flows m)))) eqn:Ecap; [drop_same|].
    apply N.leb_gt in Ecap.
    change (set_flow_live (flow_new src (m_cluster m) now (m_ninc m)) _ _ _ (Some (p0 :: p')))
      with (admit_flow m src (p0 :: p') now).
    cbn [f_cfg f_client admit_flow].
    destruct (sinsert (m_flows m) (admit_flow m src (p0 :: p') now)) as [s' id] eqn:Eins.
    assert (id = s_next (m_flows m)) as -> by (rewrite <- (sinsert_key (m_flows m) (admit_flow m src (p0 :: p') now)), Eins; reflexivity).
    assert (s' = fst (sinsert (m_flows m) (admit_flow m src (p0 :: p') now))) as -> by (rewrite Eins; reflexivity).
    match goal with |- context [reschedule ?x] => destruct (reschedule_spec x) as (o & Ho & Harm) end.
    rewrite Ho. cbn [fst snd].
    apply (sh_admit hash m now _ src (p0 :: p') o); auto; try discriminate.
    unfold admitted. rewrite Ed. reflexivity.
Qed.

Lemma on_backend_resolved_shape m id bid a now :
  Inv m ->
  shape hash m now (IResolved id bid a) (fst (on_backend_resolved m id bid a now))
        (snd (on_backend_resolved m id bid a now)).
Proof.
  intros HI. unfold on_backend_resolved.
  destruct (sget (m_flows m) id) as [f|] eqn:Hg; [|drop_same].
  destruct (phase_eqb (f_phase f) Awaiting) eqn:Ep; cbn [negb]; [|drop_same].
  apply phase_eqb_eq in Ep.
  pose proof (inv_phase _ HI _ _ Hg) as Hp. unfold phase_ok in Hp. rewrite Ep in Hp. destruct Hp as (Hb & Hpend).
  cbn [set_flow_live f_pending].
  destruct (f_pending f) as [payload|] eqn:Epe; [|congruence].
  match goal with |- context [take_pp ?x] => set (f3 := x) end.
  destruct (take_pp f3) as [pp f4] eqn:Etp.
  destruct (take_pp_spec _ _ _ Etp) as (Hs4 & Hph4 & Hb4 & Hpe4 & _).
  assert (same_id f f4) as Hs.
  { eapply same_id_trans; [|exact Hs4]. repeat split. }
  assert (phase_ok f4) as Hp4.
  { unfold phase_ok. rewrite Hph4, Hb4, Hpe4. cbn. split; [discriminate|reflexivity]. }
  destruct (finish_spec m id f f4 HI Hg Hs Hp4) as (o & Harm & Hf). rewrite Hf.
  assert (f_client f4 = f_client f) as Hc by apply Hs.
  assert (f_backend_addr f4 = Some a) as Hb4' by (rewrite Hb4; reflexivity).
  set (hdr := if pp then dgram_header (f_client f) a else []).
  assert ((if pp then dgram_header (f_client f4) a ++ payload else payload) = hdr ++ payload) as ->.
  { unfold hdr. rewrite Hc. destruct pp; reflexivity. }
  assert (hdr = [] \/ hdr = dgram_header (f_client f) a) as Hh by (unfold hdr; destruct pp; auto).
  destruct (teardown_due f4) eqn:Ht; cbn [fst snd].
  - apply (sh_remove hash m now _ id f f4
             [(Some (f_inc f), OpenUpstream id a); (Some (f_inc f), Metric (MIn (N.of_nat (length payload))));
              (Some (f_inc f), SendToBackend a (hdr ++ payload))] o); auto.
    eapply pre_resolve; eauto.
  - apply (sh_update hash m now _ id f f4
             [(Some (f_inc f), OpenUpstream id a); (Some (f_inc f), Metric (MIn (N.of_nat (length payload))));
              (Some (f_inc f), SendToBackend a (hdr ++ payload))] o); auto.
    + eapply pre_resolve; eauto.
    + intros b0 Hb0. congruence.
    + intros p0 Hp0. rewrite Hpe4 in Hp0. cbn in Hp0. discriminate.
Qed.

Lemma timeout_fold m now due : forall outs,
  Inv m ->
  exists m' o, fold_left (timeout_one now) due (m, outs) = (m', outs ++ o) /\ rems m m' o.
Proof.
  revert m. induction due as [|id due IH]; intros m outs HI; cbn [fold_left].
  - exists m, []. rewrite app_nil_r. split; [reflexivity|constructor].
  - assert (exists m1 o1, timeout_one now (m, outs) id = (m1, outs ++ o1) /\ rems m m1 o1) as (m1 & o1 & E1 & R1).
    { unfold timeout_one. destruct (sget (m_flows m) id) as [f|] eqn:Hg.
      - destruct (N.leb (f_deadline f) now && negb (phase_eqb (f_phase f) Closing)).
        + pose proof (close_flow_rems m id HI) as R. destruct (close_flow m id) as [m1 o1].
          exists m1, o1. split; [reflexivity|exact R].
        + exists m, []. rewrite app_nil_r. split; [reflexivity|constructor].
      - exists m, []. rewrite app_nil_r. split; [reflexivity|constructor]. }
    rewrite E1. destruct (IH m1 (outs ++ o1) (rems_inv _ _ _ R1 HI)) as (m2 & o2 & E2 & R2).
    exists m2, (o1 ++ o2). rewrite E2, app_assoc. split; [reflexivity|].
    eapply rems_app; eauto.
Qed.

Lemma handle_timeout_shape m now :
  Inv m -> rems m (fst (handle_timeout m now)) (snd (handle_timeout m now)).
Proof.
  intros HI. unfold handle_timeout.
  match goal with |- context [fold_left (timeout_one now) ?d _] =>
    destruct (timeout_fold m now d [] HI) as (m1 & o1 & E1 & R1) end.
  rewrite E1. cbn [app].
  destruct (reschedule_spec (set_armed m1 None)) as (o2 & E2 & Harm). rewrite E2. cbn [fst snd].
  rewrite rearmed_set_armed, (rearmed_Inv m1 (rems_inv _ _ _ R1 HI)).
  eapply rems_app; [exact R1|]. rewrite <- (app_nil_r o2). apply rems_arms; [exact Harm|constructor].
Qed.

Lemma close_all_fold m ids : forall outs,
  Inv m ->
  exists m' o, fold_left close_one ids (m, outs) = (m', outs ++ o) /\ rems m m' o.
Proof.
  revert m. induction ids as [|id ids IH]; intros m outs HI; cbn [fold_left].
  - exists m, []. rewrite app_nil_r. split; [reflexivity|constructor].
  - unfold close_one at 2. pose proof (close_flow_rems m id HI) as R1.
    destruct (close_flow m id) as [m1 o1]. cbn [fst snd] in R1.
    destruct (IH m1 (outs ++ o1) (rems_inv _ _ _ R1 HI)) as (m2 & o2 & E2 & R2).
    exists m2, (o1 ++ o2). rewrite E2, app_assoc. split; [reflexivity|].
    eapply rems_app; eauto.
Qed.

Lemma close_all_shape m : Inv m -> rems m (fst (close_all m)) (snd (close_all m)).
Proof.
  intros HI. unfold close_all.
  match goal with |- context [fold_left close_one ?d _] =>
    destruct (close_all_fold m d [] HI) as (m1 & o1 & E1 & R1) end.
  rewrite E1. exact R1.
Qed.

Theorem step_shape m now inp :
  Inv m -> shape hash m now inp (fst (step hash m now inp)) (snd (step hash m now inp)).
Proof.
  intros HI. destruct inp as [src p|id p|id bid a|c|n|n| | |id| ]; cbn [step].
  - apply on_client_datagram_shape; exact HI.
  - apply on_backend_datagram_shape; exact HI.
  - apply on_backend_resolved_shape; exact HI.
  - cbn [fst snd]. apply sh_cfg; cbn; try reflexivity; try lia. apply HI.
  - cbn [fst snd]. apply sh_cfg; cbn; try reflexivity; lia.
  - cbn [fst snd]. apply sh_cfg; cbn; try reflexivity; try lia. apply HI.
  - cbn [fst snd]. apply sh_cfg; cbn; try reflexivity; try lia. apply HI.
  - apply sh_rems. apply handle_timeout_shape; exact HI.
  - apply sh_rems. apply close_flow_rems; exact HI.
  - apply sh_rems. apply close_all_shape; exact HI.
Qed.

End HandlerShapes.

(* ------------------------------------------------------------------ *)
(** Part 3: the invariant is inductive. *)

Lemma exhausted_zero c x : (negb (N.eqb c 0) && N.leb c x)%bool = true -> (c <> 0 /\ c <= x)%N.
Proof.
  rewrite andb_true_iff, negb_true_iff, N.eqb_neq, N.leb_le. tauto.
Qed.

Lemma admit_flow_fresh_caps m src p now : teardown_due (admit_flow m src p now) = false.
Proof.
  unfold teardown_due, responses_exhausted, requests_exhausted. cbn.
  destruct (N.eqb_spec (c_responses (m_cluster m)) 0) as [->|H1];
  destruct (N.eqb_spec (c_requests (m_cluster m)) 0) as [->|H2]; cbn; auto.
  - destruct (N.leb_spec (c_requests (m_cluster m)) 0); auto. lia.
  - destruct (N.leb_spec (c_responses (m_cluster m)) 0); auto. lia.
  - destruct (N.leb_spec (c_responses (m_cluster m)) 0); [lia|].
    destruct (N.leb_spec (c_requests (m_cluster m)) 0); auto. lia.
Qed.

Lemma Inv_admitted m src p now :
  Inv m -> tget (m_table m) (key_of src (c_with_port (m_cluster m))) = None ->
  (N.of_nat (slen (m_flows m)) < m_max_flows m)%N ->
  Inv (admitted m src p now).
Proof.
  intros HI Ht Hcap. unfold admitted.
  set (f := admit_flow m src p now). set (key := key_of src (c_with_port (m_cluster m))).
  pose proof (inv_wf _ HI) as Hwf.
  pose proof (sinsert_fresh Hwf) as Hfresh.
  assert (own_key f = key) as Hk by reflexivity.
  apply Inv_rearmed; cbn [m_flows m_table m_hw m_max_flows m_ninc].
  - apply sinsert_wf. exact Hwf.
  - intros k j. rewrite tget_tinsert. rewrite (sget_sinsert _ _ Hwf).
    destruct (addr_eqb key k) eqn:E.
    + apply addr_eqb_eq in E. intros H. inv H. rewrite Nat.eqb_refl. exists f. auto.
    + intros Hj. destruct (inv_tab_slab _ HI _ _ Hj) as (g & Hg1 & Hg2).
      destruct (Nat.eqb j (s_next (m_flows m))) eqn:Ej.
      * apply Nat.eqb_eq in Ej. subst j. congruence.
      * exists g. auto.
  - intros j g. rewrite (sget_sinsert _ _ Hwf). rewrite tget_tinsert.
    destruct (Nat.eqb j (s_next (m_flows m))) eqn:Ej.
    + apply Nat.eqb_eq in Ej. subst j. intros H. inv H. rewrite Hk, addr_eqb_refl. reflexivity.
    + intros Hj. pose proof (inv_slab_tab _ HI _ _ Hj) as H1.
      destruct (addr_eqb key (own_key g)) eqn:E; [|exact H1].
      apply addr_eqb_eq in E. rewrite <- E in H1. unfold key in H1. congruence.
  - intros j g. rewrite (sget_sinsert _ _ Hwf).
    destruct (Nat.eqb j (s_next (m_flows m))); [|apply (inv_phase _ HI)].
    intros H. inv H. unfold phase_ok. cbn. split; [reflexivity|discriminate].
  - intros j g. rewrite (sget_sinsert _ _ Hwf).
    destruct (Nat.eqb j (s_next (m_flows m))); [|apply (inv_caps _ HI)].
    intros H. inv H. apply admit_flow_fresh_caps.
  - rewrite (slen_sinsert f Hwf). destruct (inv_hw _ HI). split; lia.
  - intros j g. rewrite (sget_sinsert _ _ Hwf).
    destruct (Nat.eqb j (s_next (m_flows m))).
    + intros H. inv H. cbn. lia.
    + intros H. pose proof (inv_inc _ HI _ _ H). lia.
  - intros j1 j2 g1 g2. rewrite !(sget_sinsert _ _ Hwf).
    destruct (Nat.eqb j1 (s_next (m_flows m))) eqn:E1; destruct (Nat.eqb j2 (s_next (m_flows m))) eqn:E2;
      rewrite ?Nat.eqb_eq in *; subst; intros H1 H2 He.
    + reflexivity.
    + inv H1. pose proof (inv_inc _ HI _ _ H2). cbn in He. lia.
    + inv H2. pose proof (inv_inc _ HI _ _ H1). cbn in He. lia.
    + apply (inv_inc_inj _ HI _ _ _ _ H1 H2 He).
Qed.

Lemma shape_inv hash m now inp m' o : Inv m -> shape hash m now inp m' o -> Inv m'.
Proof.
  intros HI H. destruct H as [o Ho|m' E1 E2 E3 E4 H5 H6|id f f' pre o Hg Hs Hp Ht Hpre Ho Hmono Hpend'
                              |id f f' pre o Hg Hs Hpre Ho|m' o Hr|src p o m' cl Ei Ht Hd Hc Ho Em Ecl Hne Hpne].
  - exact HI.
  - destruct HI. constructor; rewrite ?E1, ?E2, ?E3, ?E4; auto.
    destruct inv_hw0. split; [lia|assumption].
  - eapply Inv_updated; eauto.
  - apply Inv_removed; assumption.
  - eapply rems_inv; eauto.
  - subst m'. apply Inv_admitted; assumption.
Qed.

Lemma Inv_new c mf mrx : Inv (mgr_new c mf mrx).
Proof.
  constructor; cbn; try discriminate; try (intros; discriminate).
  - apply sempty_wf.
  - intros id f H. unfold sget in H. cbn in H. destruct id; discriminate.
  - intros id f H. unfold sget in H. cbn in H. destruct id; discriminate.
  - intros id f H. unfold sget in H. cbn in H. destruct id; discriminate.
  - reflexivity.
  - split; lia.
  - intros id f H. unfold sget in H. cbn in H. destruct id; discriminate.
  - intros id1 id2 f1 f2 H. unfold sget in H. cbn in H. destruct id1; discriminate.
Qed.

Lemma step_inv hash m now inp : Inv m -> Inv (fst (step hash m now inp)).
Proof. intros HI. eapply shape_inv; [exact HI | apply step_shape; exact HI]. Qed.

Lemma run_inv hash h : forall m, Inv m -> Inv (fst (run hash m h)).
Proof.
  induction h as [|[now i] h IH]; intros m HI; cbn [run]; [exact HI|].
  pose proof (step_inv hash m now i HI) as H1.
  destruct (step hash m now i) as [m1 o]. cbn [fst] in H1.
  specialize (IH m1 H1). destruct (run hash m1 h) as [m2 tr]. exact IH.
Qed.

(** consequences spelled out *)
Lemma table_injective m k1 k2 id : Inv m -> tget (m_table m) k1 = Some id -> tget (m_table m) k2 = Some id -> k1 = k2.
Proof.
  intros HI H1 H2. destruct (inv_tab_slab _ HI _ _ H1) as (f1 & G1 & K1).
  destruct (inv_tab_slab _ HI _ _ H2) as (f2 & G2 & K2). congruence.
Qed.

Lemma armed_coherent m : Inv m ->
  match m_armed m with
  | None => forall id, sget (m_flows m) id = None
  | Some d => (exists id f, sget (m_flows m) id = Some f /\ f_deadline f = d) /\
              (forall id f, sget (m_flows m) id = Some f -> (d <= f_deadline f)%N)
  end.
Proof.
  intros HI. rewrite (inv_armed _ HI). destruct (min_deadline (m_flows m)) as [d|] eqn:E.
  - destruct (min_deadline_some _ _ E) as ((id & f & Hg & _ & Hd) & Hle). split; [eauto|].
    intros j g Hj. apply (Hle j g Hj). pose proof (inv_phase _ HI _ _ Hj) as Hp.
    unfold phase_ok in Hp. destruct (f_phase g); try discriminate; tauto.
  - intros id. destruct (sget (m_flows m) id) as [f|] eqn:Hg; auto.
    pose proof (min_deadline_none _ E _ _ Hg) as Hc. pose proof (inv_phase _ HI _ _ Hg) as Hp.
    unfold phase_ok in Hp. rewrite Hc in Hp. destruct Hp.
Qed.

(* ------------------------------------------------------------------ *)
(** Part 4: step-level properties (bounded, teardown, stale resolutions). *)

Lemma arms_in o x : arms o -> In x o -> exists d, x = (None, ArmTimer d).
Proof. intros H Hin. unfold arms in H. rewrite Forall_forall in H. auto. Qed.

Lemma pre_ok_in inp id f f' pre x :
  pre_ok inp id f f' pre -> In x pre ->
  fst x = Some (f_inc f) /\
  match snd x with
  | Metric (MIn _) | Metric (MOut _) | SendToBackend _ _ | SendToClient _ _ | OpenUpstream _ _ => True
  | _ => False
  end.
Proof.
  intros H Hin. destruct H; cbn in Hin;
    repeat (destruct Hin as [<-|Hin]; [cbn; auto|]); destruct Hin.
Qed.

Lemma rems_mono m m' o : rems m m' o ->
  forall j g, sget (m_flows m') j = Some g -> sget (m_flows m) j = Some g.
Proof.
  induction 1 as [m|m m' a o Ha H IH|m id f m' o Hg H IH]; intros j g Hj; auto.
  specialize (IH _ _ Hj). cbn in IH. rewrite sget_sremove in IH.
  destruct (Nat.eqb j id); [discriminate|exact IH].
Qed.

Lemma rems_in m m' o x : rems m m' o -> In x o ->
  (exists d, x = (None, ArmTimer d)) \/
  (exists id f, sget (m_flows m) id = Some f /\
                (x = (Some (f_inc f), Metric MEvicted) \/ x = (Some (f_inc f), CloseFlow id))).
Proof.
  induction 1 as [m|m m' a o Ha H IH|m id f m' o Hg H IH]; intros Hin.
  - destruct Hin.
  - apply in_app_or in Hin. destruct Hin as [Hin|Hin]; [left; eapply arms_in; eauto | auto].
  - cbn in Hin. destruct Hin as [<-|[<-|Hin]].
    + right. exists id, f. auto.
    + right. exists id, f. auto.
    + destruct (IH Hin) as [?|(id' & f' & Hg' & Hx)]; [left; assumption|].
      right. exists id', f'. split; [|exact Hx].
      cbn in Hg'. rewrite sget_sremove in Hg'. destruct (Nat.eqb id' id); [discriminate|exact Hg'].
Qed.

Section StepProps.
Variable hash : bool -> addr -> N.

(** bounded (1): a flow is created only by a client datagram, under the live cap, not draining *)
Lemma created_only_under_cap m now inp i :
  Inv m -> In (Some i, Metric MCreated) (snd (step hash m now inp)) ->
  m_draining m = false /\ (N.of_nat (slen (m_flows m)) < m_max_flows m)%N /\
  (exists src p, inp = IClient src p /\ p <> [] /\
                 tget (m_table m) (key_of src (c_with_port (m_cluster m))) = None) /\
  i = m_ninc m.
Proof.
  intros HI Hin. pose proof (step_shape hash m now inp HI) as Hs.
  destruct Hs as [o Ho|m' E1 E2 E3 E4 H5 H6|id f f' pre o Hg Hs Hp Ht Hpre Ho Hmono Hpend'
                 |id f f' pre o Hg Hs Hpre Ho|m' o Hr|src p o m' cl Ei Ht Hd Hc Ho Em Ecl Hne Hpne].
  - rewrite Forall_forall in Ho. specialize (Ho _ Hin). discriminate.
  - destruct Hin.
  - apply in_app_or in Hin. destruct Hin as [Hin|Hin].
    + destruct (pre_ok_in _ _ _ _ _ _ Hpre Hin) as (_ & H). destruct H.
    + destruct (arms_in _ _ Ho Hin). discriminate.
  - apply in_app_or in Hin. destruct Hin as [Hin|Hin].
    + destruct (pre_ok_in _ _ _ _ _ _ Hpre Hin) as (_ & H). destruct H.
    + apply in_app_or in Hin. destruct Hin as [Hin|Hin].
      * cbn in Hin. destruct Hin as [H|[H|[]]]; discriminate.
      * destruct (arms_in _ _ Ho Hin). discriminate.
  - destruct (rems_in _ _ _ _ Hr Hin) as [(d & H)|(id & f & _ & [H|H])]; discriminate.
  - cbn in Hin. destruct Hin as [H|[H|Hin]].
    + inv H. repeat split; auto. exists src, p. auto.
    + discriminate.
    + destruct (arms_in _ _ Ho Hin). discriminate.
Qed.

(** bounded (3): an established flow keeps forwarding whatever the cap and the drain flag *)
Lemma established_keeps_forwarding m now src p id f b :
  Inv m ->
  (N.of_nat (length p) <= m_max_rx m)%N -> c_cluster (m_cluster m) <> [] -> p <> [] ->
  tget (m_table m) (key_of src (c_with_port (m_cluster m))) = Some id ->
  sget (m_flows m) id = Some f -> f_backend_addr f = Some b ->
  exists hdr, (hdr = [] \/ hdr = dgram_header (f_client f) b) /\
    In (Some (f_inc f), SendToBackend b (hdr ++ p)) (snd (step hash m now (IClient src p))).
Proof.
  intros HI Hlen Hcl Hp Ht Hg Hb. cbn [step]. unfold on_client_datagram.
  assert (N.ltb (m_max_rx m) (N.of_nat (length p)) = false) as -> by (apply N.ltb_ge; exact Hlen).
  destruct (c_cluster (m_cluster m)) as [|c0 cl]; [congruence|].
  destruct p as [|p0 p']; [congruence|]. rewrite Ht.
  unfold forward_on_existing_flow. rewrite Hg.
  pose proof (inv_phase _ HI _ _ Hg) as Hph. unfold phase_ok in Hph.
  destruct (f_phase f) eqn:Ep; [destruct Hph; congruence| |destruct Hph].
  cbn [flow_on_client touch f_backend_addr]. rewrite Hb.
  destruct (take_pp _) as [pp f2] eqn:Etp.
  destruct (take_pp_spec _ _ _ Etp) as (Hs2 & _).
  assert (f_client f2 = f_client f) as Hc by (destruct Hs2 as (H & _); rewrite H; reflexivity).
  destruct (finish _ _ _) as [m2 o].
  exists (if pp then dgram_header (f_client f) b else []). split; [destruct pp; auto|].
  cbn [snd]. right. left. rewrite Hc. destruct pp; reflexivity.
Qed.

(** teardown: after handle_timeout(now) no flow is due and the armed deadline is past now *)
Lemma timeout_fold_gone now due : forall m outs m' outs',
  Inv m -> fold_left (timeout_one now) due (m, outs) = (m', outs') ->
  forall id g, In id due -> sget (m_flows m') id = Some g -> (now < f_deadline g)%N.
Proof.
  induction due as [|id0 due IH]; intros m outs m' outs' HI Hf id g Hin Hg; [destruct Hin|].
  cbn [fold_left] in Hf.
  destruct (timeout_one now (m, outs) id0) as [m1 o1] eqn:E1.
  assert (Inv m1 /\ (forall g1, sget (m_flows m1) id0 = Some g1 -> (now < f_deadline g1)%N)) as (HI1 & H1).
  { unfold timeout_one in E1. destruct (sget (m_flows m) id0) as [f|] eqn:Hg0.
    - destruct (N.leb (f_deadline f) now) eqn:Ed; cbn [andb] in E1.
      + rewrite (phase_ok_not_closing _ (inv_phase _ HI _ _ Hg0)) in E1. cbn [negb] in E1.
        destruct (close_flow_live _ _ _ HI Hg0) as (o & Hc & _). rewrite Hc in E1. inv E1.
        split; [apply Inv_removed; assumption|].
        intros g1. cbn. rewrite sget_sremove, Nat.eqb_refl. discriminate.
      + inv E1. split; [exact HI|]. intros g1 Hg1. rewrite Hg0 in Hg1. inv Hg1.
        apply N.leb_gt in Ed. exact Ed.
    - inv E1. split; [exact HI|]. intros g1 Hg1. congruence. }
  destruct Hin as [<-|Hin].
  - apply H1.
    destruct (timeout_fold m1 now due o1 HI1) as (m2 & o2 & E2 & R2).
    rewrite Hf in E2. inv E2. eapply rems_mono; eauto.
  - eapply IH; eauto.
Qed.

Lemma timeout_advances m now :
  Inv m ->
  let m' := fst (step hash m now ITimeout) in
  (forall id g, sget (m_flows m') id = Some g -> (now < f_deadline g)%N) /\
  (forall d, m_armed m' = Some d -> (now < d)%N).
Proof.
  intros HI m'. assert (Inv m') as HI' by (apply step_inv; exact HI).
  assert (forall id g, sget (m_flows m') id = Some g -> (now < f_deadline g)%N) as H.
  { intros id g Hg. subst m'. cbn [step] in Hg.
    pose proof (handle_timeout_shape m now HI) as R.
    pose proof (rems_mono _ _ _ R _ _ Hg) as Hg0.
    destruct (N.leb (f_deadline g) now) eqn:Ed; [|apply N.leb_gt in Ed; exact Ed].
    unfold handle_timeout in Hg.
    set (due := map fst (filter (fun kf => N.leb (f_deadline (snd kf)) now) (sitems (m_flows m)))) in *.
    destruct (fold_left (timeout_one now) due (m, [])) as [m1 o1] eqn:Ef.
    destruct (reschedule_spec (set_armed m1 None)) as (o2 & E2 & _). rewrite E2 in Hg. cbn [fst] in Hg.
    change (m_flows (rearmed (set_armed m1 None))) with (m_flows m1) in Hg.
    eapply (timeout_fold_gone now due m [] m1 o1 HI Ef id g); [|exact Hg].
    unfold due. apply in_map_iff. exists (id, g). split; [reflexivity|].
    apply filter_In. split; [apply sitems_spec; exact Hg0 | exact Ed]. }
  split; [exact H|].
  intros d Hd. pose proof (armed_coherent _ HI') as Hc. rewrite Hd in Hc.
  destruct Hc as ((id & f & Hg & <-) & _). eapply H; eauto.
Qed.

(** teardown: every firing re-emits the timer request while a flow remains, so a
    firing that found nothing due (the wheel fires up to half a tick early) does
    not leave the flows without a timer *)
Lemma timeout_rearms m now :
  match m_armed (fst (step hash m now ITimeout)) with
  | Some d => In (None, ArmTimer d) (snd (step hash m now ITimeout))
  | None => True
  end.
Proof.
  cbn [step]. unfold handle_timeout.
  destruct (fold_left _ _ _) as [m1 o1]. unfold reschedule. cbn [m_armed set_armed m_flows].
  destruct (min_deadline (m_flows m1)) as [d|]; cbn; [|exact I].
  apply in_or_app. right. left. reflexivity.
Qed.

(** teardown: close_all leaves no flow, no table entry and no armed timer *)
Lemma close_all_fold_gone ids : forall m outs m' outs',
  Inv m -> fold_left close_one ids (m, outs) = (m', outs') ->
  forall id, In id ids -> sget (m_flows m') id = None.
Proof.
  induction ids as [|id0 ids IH]; intros m outs m' outs' HI Hf id Hin; [destruct Hin|].
  cbn [fold_left] in Hf. unfold close_one at 2 in Hf.
  pose proof (close_flow_rems m id0 HI) as R1. pose proof (close_flow_inv m id0 HI) as HI1.
  assert (sget (m_flows (fst (close_flow m id0))) id0 = None) as H0.
  { destruct (sget (m_flows m) id0) as [f|] eqn:Hg0.
    - destruct (close_flow_live _ _ _ HI Hg0) as (o & Hc & _). rewrite Hc. cbn.
      rewrite sget_sremove, Nat.eqb_refl. reflexivity.
    - rewrite close_flow_dead by assumption. exact Hg0. }
  destruct (close_flow m id0) as [m1 o1]. cbn [fst snd] in *.
  destruct Hin as [<-|Hin].
  - destruct (close_all_fold m1 ids (outs ++ o1) HI1) as (m2 & o2 & E2 & R2).
    rewrite Hf in E2. inv E2.
    destruct (sget (m_flows m2) id0) as [g|] eqn:Hg; auto.
    pose proof (rems_mono _ _ _ R2 _ _ Hg). congruence.
  - eapply IH; eauto.
Qed.

Lemma close_all_leaves_nothing m now :
  Inv m ->
  let m' := fst (step hash m now ICloseAll) in
  (forall id, sget (m_flows m') id = None) /\ slen (m_flows m') = 0 /\
  (forall k, tget (m_table m') k = None) /\ m_armed m' = None.
Proof.
  intros HI m'. assert (Inv m') as HI' by (apply step_inv; exact HI).
  assert (forall id, sget (m_flows m') id = None) as H.
  { intros id. destruct (sget (m_flows m') id) as [g|] eqn:Hg; auto. exfalso.
    subst m'. cbn [step] in Hg.
    pose proof (rems_mono _ _ _ (close_all_shape m HI) _ _ Hg) as Hg0.
    unfold close_all in Hg.
    destruct (fold_left close_one (map fst (sitems (m_flows m))) (m, [])) as [m1 o1] eqn:Ef.
    cbn [fst] in Hg.
    rewrite (close_all_fold_gone _ m [] m1 o1 HI Ef id) in Hg; [discriminate|].
    apply in_map_iff. exists (id, g). split; [reflexivity | apply sitems_spec; exact Hg0]. }
  split; [exact H|]. split; [|split].
  - unfold slen. rewrite (slen_zero _ H). reflexivity.
  - intros k. destruct (tget (m_table m') k) as [id|] eqn:E; auto.
    destruct (inv_tab_slab _ HI' _ _ E) as (f & Hg & _). rewrite H in Hg. discriminate.
  - rewrite (inv_armed _ HI'). unfold min_deadline. rewrite (slen_zero _ H). reflexivity.
Qed.

(** sticky: a resolution for a flow that is not awaiting one changes nothing *)
Lemma stale_resolution_noop m now id bid a :
  (forall f, sget (m_flows m) id = Some f -> f_phase f <> Awaiting) ->
  fst (step hash m now (IResolved id bid a)) = m /\
  forall x, In x (snd (step hash m now (IResolved id bid a))) -> fst x = None.
Proof.
  intros H. cbn [step]. unfold on_backend_resolved.
  destruct (sget (m_flows m) id) as [f|] eqn:Hg.
  - specialize (H f eq_refl).
    assert (phase_eqb (f_phase f) Awaiting = false) as ->.
    { destruct (phase_eqb (f_phase f) Awaiting) eqn:E; auto. apply phase_eqb_eq in E. congruence. }
    cbn. split; [reflexivity | intros x []].
  - cbn. split; [reflexivity|]. intros x [<-|[<-|[]]]; reflexivity.
Qed.

End StepProps.

(* ------------------------------------------------------------------ *)
(** Part 5: what one step does to incarnations ("step facts"). *)

Definition live_inc (m : mgr) (i : N) : Prop :=
  exists id f, sget (m_flows m) id = Some f /\ f_inc f = i.

Definition is_close (i : N) (x : lout) : bool :=
  match x with
  | (Some j, CloseFlow _) => N.eqb j i
  | _ => false
  end.
Definition closes (i : N) (o : list lout) : nat := length (filter (is_close i) o).

Lemma closes_app i a b : closes i (a ++ b) = closes i a + closes i b.
Proof. unfold closes. rewrite filter_app, app_length. reflexivity. Qed.

Lemma closes_zero i o : (forall x, In x o -> is_close i x = false) -> closes i o = 0.
Proof.
  intros H. unfold closes. induction o as [|x o IH]; cbn; auto.
  rewrite (H x (or_introl eq_refl)). apply IH. intros y Hy. apply H. right. exact Hy.
Qed.

Lemma closes_arms i o : arms o -> closes i o = 0.
Proof. intros H. apply closes_zero. intros x Hx. destruct (arms_in _ _ H Hx) as (d & ->). reflexivity. Qed.

Lemma closes_pre i inp id f f' pre : pre_ok inp id f f' pre -> closes i pre = 0.
Proof.
  intros H. apply closes_zero. intros x Hx. destruct (pre_ok_in _ _ _ _ _ _ H Hx) as (_ & H2).
  destruct x as [l o]. cbn in H2. destruct l; destruct o; auto; destruct H2.
Qed.

Lemma closes_evict i id f : closes i (evict_close id f) = if N.eqb (f_inc f) i then 1 else 0.
Proof. unfold closes, evict_close. cbn. destruct (N.eqb (f_inc f) i); reflexivity. Qed.

Lemma live_inc_dec m i : live_inc m i \/ ~ live_inc m i.
Proof.
  destruct (Exists_dec (fun kf : nat * flow => f_inc (snd kf) = i) (sitems (m_flows m))) as [H|H].
  - intros kf. apply N.eq_dec.
  - left. apply Exists_exists in H. destruct H as ((id, f) & Hin & He).
    exists id, f. split; [apply sitems_spec; exact Hin | exact He].
  - right. intros (id & f & Hg & He). apply H. apply Exists_exists.
    exists (id, f). split; [apply sitems_spec; exact Hg | exact He].
Qed.

(** the payloads incarnation [i] forwarded, in order *)
Fixpoint fwd (i : N) (o : list lout) : list (list N) :=
  match o with
  | [] => []
  | (Some j, SendToBackend _ q) :: o' => if N.eqb j i then q :: fwd i o' else fwd i o'
  | _ :: o' => fwd i o'
  end.

Lemma fwd_app i a b : fwd i (a ++ b) = fwd i a ++ fwd i b.
Proof.
  induction a as [|[l x] a IH]; cbn; auto.
  destruct l as [j|]; destruct x; auto. destruct (N.eqb j i); cbn; rewrite IH; reflexivity.
Qed.

Lemma fwd_none i o :
  (forall x, In x o -> match snd x with SendToBackend _ _ => False | _ => True end) -> fwd i o = [].
Proof.
  induction o as [|[l x] o IH]; intros H; cbn; auto.
  pose proof (H (l, x) (or_introl eq_refl)) as Hx. cbn in Hx.
  assert (fwd i o = []) as E by (apply IH; intros y Hy; apply H; right; exact Hy).
  destruct l; destruct x; auto. destruct Hx.
Qed.

Lemma fwd_nolabel i o : (forall x, In x o -> fst x = None) -> fwd i o = [].
Proof.
  induction o as [|[l x] o IH]; intros H; cbn; auto.
  pose proof (H (l, x) (or_introl eq_refl)) as Hx. cbn in Hx. subst l.
  apply IH. intros y Hy. apply H. right. exact Hy.
Qed.

Lemma fwd_in i o q : In q (fwd i o) -> exists d, In (Some i, SendToBackend d q) o.
Proof.
  induction o as [|[l x] o IH]; cbn; [intros []|].
  assert (In q (fwd i o) -> exists d, (l, x) = (Some i, SendToBackend d q) \/ In (Some i, SendToBackend d q) o) as Hrec.
  { intros H. destruct (IH H) as (d & Hd). exists d. right. exact Hd. }
  destruct l as [j|]; destruct x; auto.
  destruct (N.eqb_spec j i) as [->|Hne]; auto.
  intros [<-|H]; [exists dst; left; reflexivity | auto].
Qed.

Definition hdr_ok (hdr : list N) : Prop := hdr = [] \/ exists c d, hdr = dgram_header c d.

(** where a forwarded payload comes from: the client datagram being handled, or
    the one buffered for the flow being resolved *)
Definition fwd_origin (m : mgr) (inp : input) (i : N) (q : list N) : Prop :=
  (exists src p hdr, inp = IClient src p /\ q = hdr ++ p /\ hdr_ok hdr) \/
  (exists id bid a f p hdr, inp = IResolved id bid a /\ sget (m_flows m) id = Some f /\ f_inc f = i /\
      f_backend_addr f = None /\ f_pending f = Some p /\ q = hdr ++ p /\ hdr_ok hdr).

Lemma fwd_pre m inp id f f' pre i :
  pre_ok inp id f f' pre -> sget (m_flows m) id = Some f ->
  fwd i pre = [] \/ exists q, fwd i pre = [q] /\ fwd_origin m inp i q.
Proof.
  intros H Hg. destruct H as [|src p b hdr Ei Hb Hb' Hh|bid a p hdr Ei Hb Hpe Hb' Hh|bid a Ei Hb Hb'|p Ei Hb' Hb]; cbn; auto.
  - destruct (N.eqb_spec (f_inc f) i) as [E|E]; auto. right. eexists. split; [reflexivity|].
    left. exists src, p, hdr. repeat split; auto. destruct Hh as [-> | ->]; [left; reflexivity | right; eauto].
  - destruct (N.eqb_spec (f_inc f) i) as [E|E]; auto. right. eexists. split; [reflexivity|].
    right. exists id, bid, a, f, p, hdr. repeat split; auto.
    destruct Hh as [-> | ->]; [left; reflexivity | right; eauto].
Qed.

Record SF (m m' : mgr) (inp : input) (o : list lout) : Prop := {
  sf_ninc : (m_ninc m <= m_ninc m')%N;
  sf_lbl : forall i x, In (Some i, x) o ->
             (i < m_ninc m')%N /\ (live_inc m i \/ (i = m_ninc m /\ m_ninc m' = (m_ninc m + 1)%N));
  sf_flows : forall id f', sget (m_flows m') id = Some f' ->
      (exists f, sget (m_flows m) id = Some f /\ same_id f f' /\
                 (forall b, f_backend_addr f = Some b -> f_backend_addr f' = Some b)) \/
      (f_inc f' = m_ninc m /\ m_ninc m' = (m_ninc m + 1)%N /\ f_backend_addr f' = None /\
       exists p, inp = IClient (f_client f') p /\ In (Some (m_ninc m), Metric MCreated) o);
  sf_tob : forall i d p, In (Some i, SendToBackend d p) o ->
      exists id f, sget (m_flows m) id = Some f /\ f_inc f = i /\
        (f_backend_addr f = Some d \/ f_backend_addr f = None) /\
        (forall id' f', sget (m_flows m') id' = Some f' -> f_inc f' = i -> f_backend_addr f' = Some d) /\
        (forall d' p', In (Some i, SendToBackend d' p') o -> d' = d);
  sf_close0 : forall i, live_inc m' i -> closes i o = 0;
  sf_close1 : forall i, live_inc m i -> ~ live_inc m' i -> closes i o = 1;
  sf_close_dead : forall i, ~ live_inc m i -> closes i o = 0;
  sf_created : forall i, In (Some i, Metric MCreated) o ->
      i = m_ninc m /\ exists src p, inp = IClient src p /\
        (forall id f, sget (m_flows m') id = Some f -> f_inc f = i -> f_client f = src);
  sf_newinc : m_ninc m' <> m_ninc m -> m_ninc m' = (m_ninc m + 1)%N /\ live_inc m' (m_ninc m);
  sf_toc : forall i d p, In (Some i, SendToClient d p) o ->
      exists id f, inp = IBackend id p /\ sget (m_flows m) id = Some f /\ f_inc f = i /\ f_client f = d;
  sf_open : forall i id a, In (Some i, OpenUpstream id a) o ->
      exists f bid, inp = IResolved id bid a /\ sget (m_flows m) id = Some f /\ f_inc f = i /\
        f_backend_addr f = None /\
        (forall j g, sget (m_flows m') j = Some g -> f_inc g = i -> f_backend_addr g = Some a) /\
        (forall d p, In (Some i, SendToBackend d p) o -> d = a);
  sf_pending : forall id f' p, sget (m_flows m') id = Some f' -> f_pending f' = Some p ->
      (exists f, sget (m_flows m) id = Some f /\ f_pending f = Some p) \/ (exists src, inp = IClient src p);
  sf_fwd : forall i, fwd i o = [] \/ exists q, fwd i o = [q] /\ fwd_origin m inp i q;
}.

Lemma live_inc_updated m id f f' i :
  sget (m_flows m) id = Some f -> f_inc f' = f_inc f -> (live_inc (updated m id f') i <-> live_inc m i).
Proof.
  intros Hg Hinc. unfold live_inc, updated. cbn. split.
  - intros (j & g & Hj & He). rewrite sget_sset in Hj. destruct (Nat.eqb j id) eqn:E.
    + apply Nat.eqb_eq in E. subst j. rewrite Hg in Hj. inv Hj. exists id, f. split; congruence.
    + exists j, g. auto.
  - intros (j & g & Hj & He). destruct (Nat.eqb j id) eqn:E.
    + apply Nat.eqb_eq in E. subst j. exists id, f'. rewrite sget_sset, Nat.eqb_refl, Hg.
      split; [reflexivity|]. congruence.
    + exists j, g. rewrite sget_sset, E. auto.
Qed.

Lemma live_inc_removed m id f i :
  Inv m -> sget (m_flows m) id = Some f ->
  (live_inc (removed m id f) i <-> live_inc m i /\ i <> f_inc f).
Proof.
  intros HI Hg. unfold live_inc, removed. cbn. split.
  - intros (j & g & Hj & He). rewrite sget_sremove in Hj. destruct (Nat.eqb j id) eqn:E; [discriminate|].
    split; [exists j, g; auto|]. intros Hc. subst i.
    pose proof (inv_inc_inj _ HI _ _ _ _ Hj Hg Hc). subst j. rewrite Nat.eqb_refl in E. discriminate.
  - intros ((j & g & Hj & He) & Hne). exists j, g. split; [|exact He].
    rewrite sget_sremove. destruct (Nat.eqb j id) eqn:E; [|exact Hj].
    apply Nat.eqb_eq in E. subst j. congruence.
Qed.

Lemma rems_closes m m' o : rems m m' o -> Inv m ->
  forall i, (live_inc m' i -> closes i o = 0) /\
            (live_inc m i -> ~ live_inc m' i -> closes i o = 1) /\
            (~ live_inc m i -> closes i o = 0).
Proof.
  induction 1 as [m|m m' a o Ha H IH|m id f m' o Hg H IH]; intros HI i.
  - repeat split; auto. intros H1 H2. contradiction.
  - rewrite closes_app, (closes_arms _ _ Ha). cbn. apply IH. exact HI.
  - rewrite closes_app, closes_evict.
    specialize (IH (Inv_removed _ _ _ HI Hg) i). destruct IH as (I0 & I1 & Id).
    pose proof (live_inc_removed m id f i HI Hg) as Hl.
    assert (forall j, live_inc m' j -> live_inc (removed m id f) j) as Hmono.
    { intros j (k & g & Hk & He). exists k, g. split; [eapply rems_mono; eauto | exact He]. }
    split; [|split].
    + intros H1. pose proof (Hmono _ H1) as H2. apply Hl in H2. destruct H2 as (_ & Hne).
      destruct (N.eqb_spec (f_inc f) i); [congruence|]. rewrite (I0 H1). reflexivity.
    + intros H1 H2. destruct (N.eqb_spec (f_inc f) i) as [E|E].
      * rewrite Id; [reflexivity|]. rewrite Hl. intros (_ & Hne). congruence.
      * rewrite I1; [reflexivity| |exact H2]. apply Hl. split; [exact H1|congruence].
    + intros H1. destruct (N.eqb_spec (f_inc f) i) as [E|E].
      * exfalso. apply H1. exists id, f. auto.
      * rewrite Id; [reflexivity|]. rewrite Hl. tauto.
Qed.

Lemma in_pre_tob inp id f f' pre i d p :
  pre_ok inp id f f' pre -> In (Some i, SendToBackend d p) pre ->
  i = f_inc f /\ f_backend_addr f' = Some d /\ (f_backend_addr f = Some d \/ f_backend_addr f = None) /\
  (forall i' d' p', In (Some i', SendToBackend d' p') pre -> d' = d).
Proof.
  intros H Hin. destruct H; cbn in Hin.
  - destruct Hin.
  - destruct Hin as [Hin|[Hin|[]]]; [discriminate|]. inv Hin. repeat split; auto.
    intros i' d' p' H'. cbn in H'.
    destruct H' as [H'|[H'|[]]]; [discriminate|inv H'; reflexivity].
  - destruct Hin as [Hin|[Hin|[Hin|[]]]]; [discriminate|discriminate|]. inv Hin. repeat split; auto.
    intros i' d' p' H'. cbn in H'.
    destruct H' as [H'|[H'|[H'|[]]]]; try discriminate. inv H'. reflexivity.
  - destruct Hin as [Hin|[]]; discriminate.
  - destruct Hin as [Hin|[Hin|[]]]; discriminate.
Qed.

Lemma in_pre_toc inp id f f' pre i d p :
  pre_ok inp id f f' pre -> In (Some i, SendToClient d p) pre ->
  i = f_inc f /\ inp = IBackend id p /\ d = f_client f.
Proof.
  intros H Hin. destruct H; cbn in Hin.
  - destruct Hin.
  - destruct Hin as [Hin|[Hin|[]]]; discriminate.
  - destruct Hin as [Hin|[Hin|[Hin|[]]]]; discriminate.
  - destruct Hin as [Hin|[]]; discriminate.
  - destruct Hin as [Hin|[Hin|[]]]; [discriminate|]. inv Hin. auto.
Qed.

Lemma in_pre_open inp id f f' pre i id' a :
  pre_ok inp id f f' pre -> In (Some i, OpenUpstream id' a) pre ->
  i = f_inc f /\ id' = id /\ (exists bid, inp = IResolved id bid a) /\ f_backend_addr f = None /\
  f_backend_addr f' = Some a /\ (forall i' d p, In (Some i', SendToBackend d p) pre -> d = a).
Proof.
  intros H Hin. destruct H; cbn in Hin.
  - destruct Hin.
  - destruct Hin as [Hin|[Hin|[]]]; discriminate.
  - destruct Hin as [Hin|[Hin|[Hin|[]]]]; [|discriminate|discriminate]. inv Hin.
    repeat split; eauto. intros i' d q H'. cbn in H'.
    destruct H' as [H'|[H'|[H'|[]]]]; try discriminate. inv H'. reflexivity.
  - destruct Hin as [Hin|[]]. inv Hin. repeat split; eauto.
    intros i' d q H'. cbn in H'. destruct H' as [H'|[]]. discriminate.
  - destruct Hin as [Hin|[Hin|[]]]; discriminate.
Qed.

Lemma in_pre_lbl inp id f f' pre i x : pre_ok inp id f f' pre -> In (Some i, x) pre -> i = f_inc f.
Proof. intros H Hin. destruct (pre_ok_in _ _ _ _ _ _ H Hin) as (E & _). cbn in E. congruence. Qed.

Lemma shape_SF hash m now inp m' o : Inv m -> shape hash m now inp m' o -> SF m m' inp o.
Proof.
  intros HI H. pose proof (shape_inv _ _ _ _ _ _ HI H) as HI'.
  destruct H as [o Ho|m' E1 E2 E3 E4 H5 H6|id f f' pre o Hg Hs Hp Ht Hpre Ho Hmono Hpend'
                |id f f' pre o Hg Hs Hpre Ho|m' o Hr|src p o m' cl Ei Ht Hd Hc Ho Em Ecl Hne Hpne].
  - (* unchanged *)
    rewrite Forall_forall in Ho.
    assert (forall i x, ~ In (Some i, x) o) as Hno by (intros i x Hin; specialize (Ho _ Hin); discriminate).
    assert (forall i, closes i o = 0) as Hc0.
    { intros i. apply closes_zero. intros [l x] Hx. specialize (Ho _ Hx). cbn in Ho. subst l. reflexivity. }
    constructor; auto; try (intros; exfalso; eapply Hno; eauto; fail).
    + lia.
    + intros id f' Hg. left. exists f'. split; [exact Hg|]. split; [apply same_id_refl|auto].
    + intros i H1 H2. contradiction.
    + intros Hc. congruence.
    + intros id f' p Hg Hpe. left. eauto.
    + intros i. left. apply fwd_nolabel. exact Ho.
  - (* config *)
    constructor; try (intros; cbn in *; contradiction); try (intros; reflexivity).
    + lia.
    + intros id f'. rewrite E1. intros Hg. left. exists f'. split; [exact Hg|]. split; [apply same_id_refl|auto].
    + intros i H1 H2. exfalso. apply H2. unfold live_inc in *. rewrite E1. exact H1.
    + intros id f' p. rewrite E1. intros Hg Hpe. left. eauto.
    + intros i. left. reflexivity.
  - (* in-place update *)
    pose proof Hs as (Hcl & Hcfg & Hinc).
    assert (forall i, closes i (pre ++ o) = 0) as Hc0.
    { intros i. rewrite closes_app, (closes_pre _ _ _ _ _ _ Hpre), (closes_arms _ _ Ho). reflexivity. }
    assert (forall i x, In (Some i, x) (pre ++ o) -> In (Some i, x) pre /\ i = f_inc f) as Hin_pre.
    { intros i x Hin. apply in_app_or in Hin. destruct Hin as [Hin|Hin].
      - split; [exact Hin | eapply in_pre_lbl; eauto].
      - destruct (arms_in _ _ Ho Hin). discriminate. }
    constructor; auto.
    + cbn. lia.
    + intros i x Hin. destruct (Hin_pre _ _ Hin) as (_ & ->). cbn.
      split; [apply (inv_inc _ HI _ _ Hg)|]. left. exists id, f. auto.
    + intros j g. unfold updated. cbn. rewrite sget_sset. destruct (Nat.eqb j id) eqn:E.
      * apply Nat.eqb_eq in E. subst j. rewrite Hg. intros H. inv H. left. exists f. auto.
      * intros Hj. left. exists g. split; [exact Hj|]. split; [apply same_id_refl|auto].
    + intros i d p Hin. destruct (Hin_pre _ _ Hin) as (Hin' & ->).
      destruct (in_pre_tob _ _ _ _ _ _ _ _ Hpre Hin') as (_ & Hb' & Hb & Huniq).
      exists id, f. split; [exact Hg|]. split; [reflexivity|]. split; [exact Hb|]. split.
      * intros j g. unfold updated. cbn. rewrite sget_sset. destruct (Nat.eqb j id) eqn:E.
        -- rewrite Hg. intros H _. inv H. exact Hb'.
        -- intros Hj He. pose proof (inv_inc_inj _ HI _ _ _ _ Hj Hg He). subst j.
           rewrite Nat.eqb_refl in E. discriminate.
      * intros d' p' Hin2. destruct (Hin_pre _ _ Hin2) as (Hin2' & _). eapply Huniq; eauto.
    + intros i H1 H2. exfalso. apply H2. apply (live_inc_updated m id f f' i Hg Hinc). exact H1.
    + intros i Hin. destruct (Hin_pre _ _ Hin) as (Hin' & _).
      destruct (pre_ok_in _ _ _ _ _ _ Hpre Hin') as (_ & Hx). destruct Hx.
    + cbn. intros Hc. congruence.
    + intros i d p Hin. destruct (Hin_pre _ _ Hin) as (Hin' & ->).
      destruct (in_pre_toc _ _ _ _ _ _ _ _ Hpre Hin') as (_ & Hi & Hd').
      exists id, f. auto.
    + intros i id' a Hin. destruct (Hin_pre _ _ Hin) as (Hin' & ->).
      destruct (in_pre_open _ _ _ _ _ _ _ _ Hpre Hin') as (_ & -> & (bid & Hi) & Hb0 & Hb' & Hu).
      exists f, bid. repeat split; auto.
      * intros j g. unfold updated. cbn. rewrite sget_sset. destruct (Nat.eqb j id) eqn:E.
        -- rewrite Hg. intros H _. inv H. exact Hb'.
        -- intros Hj He. pose proof (inv_inc_inj _ HI _ _ _ _ Hj Hg He). subst j.
           rewrite Nat.eqb_refl in E. discriminate.
      * intros d q Hin2. destruct (Hin_pre _ _ Hin2) as (Hin2' & _). eapply Hu; eauto.
    + intros j g p. unfold updated. cbn. rewrite sget_sset. destruct (Nat.eqb j id) eqn:E.
      * apply Nat.eqb_eq in E. subst j. rewrite Hg. intros H Hpe. inv H.
        destruct (Hpend' _ Hpe) as [H|H]; [left; eauto | right; exact H].
      * intros Hj Hpe. left. eauto.
    + intros i. rewrite fwd_app, (fwd_nolabel i o), app_nil_r.
      * eapply fwd_pre; eauto.
      * intros x Hx. destruct (arms_in _ _ Ho Hx) as (d & ->). reflexivity.
  - (* teardown of one flow *)
    pose proof Hs as (Hcl & Hcfg & Hinc).
    assert (forall i, closes i (pre ++ evict_close id f ++ o) = if N.eqb (f_inc f) i then 1 else 0) as Hcl0.
    { intros i. rewrite !closes_app, (closes_pre _ _ _ _ _ _ Hpre), (closes_arms _ _ Ho), closes_evict. lia. }
    assert (forall i x, In (Some i, x) (pre ++ evict_close id f ++ o) -> i = f_inc f) as Hlbl.
    { intros i x Hin. apply in_app_or in Hin. destruct Hin as [Hin|Hin]; [eapply in_pre_lbl; eauto|].
      apply in_app_or in Hin. destruct Hin as [Hin|Hin].
      - cbn in Hin. destruct Hin as [H|[H|[]]]; inv H; reflexivity.
      - destruct (arms_in _ _ Ho Hin). discriminate. }
    assert (forall i x, In (Some i, x) (pre ++ evict_close id f ++ o) ->
                        match x with SendToBackend _ _ | SendToClient _ _ | Metric MCreated | OpenUpstream _ _ => True | _ => False end ->
                        In (Some i, x) pre) as Hin_pre.
    { intros i x Hin Hx. apply in_app_or in Hin. destruct Hin as [Hin|Hin]; [exact Hin|].
      apply in_app_or in Hin. destruct Hin as [Hin|Hin].
      - cbn in Hin. destruct Hin as [H|[H|[]]]; inv H; destruct Hx.
      - destruct (arms_in _ _ Ho Hin) as (d & E). inv E. }
    pose proof (live_inc_removed m id f) as Hl.
    constructor; auto.
    + cbn. lia.
    + intros i x Hin. rewrite (Hlbl _ _ Hin). cbn.
      split; [apply (inv_inc _ HI _ _ Hg)|]. left. exists id, f. auto.
    + intros j g. unfold removed. cbn. rewrite sget_sremove. destruct (Nat.eqb j id); [discriminate|].
      intros Hj. left. exists g. split; [exact Hj|]. split; [apply same_id_refl|auto].
    + intros i d p Hin. pose proof (Hlbl _ _ Hin) as ->. pose proof (Hin_pre _ _ Hin I) as Hin'.
      destruct (in_pre_tob _ _ _ _ _ _ _ _ Hpre Hin') as (_ & Hb' & Hb & Huniq).
      exists id, f. split; [exact Hg|]. split; [reflexivity|]. split; [exact Hb|]. split.
      * intros j g Hj He. exfalso. assert (live_inc (removed m id f) (f_inc f)) as Hli by (exists j, g; auto).
        apply (Hl _ HI Hg) in Hli. destruct Hli as (_ & Hne). congruence.
      * intros d' p' Hin2. pose proof (Hin_pre _ _ Hin2 I) as Hin2'. eapply Huniq; eauto.
    + intros i Hli. apply (Hl _ HI Hg) in Hli. destruct Hli as (_ & Hne). rewrite Hcl0.
      destruct (N.eqb_spec (f_inc f) i); congruence.
    + intros i H1 H2. rewrite Hcl0. destruct (N.eqb_spec (f_inc f) i) as [E|E]; [reflexivity|].
      exfalso. apply H2. apply (Hl _ HI Hg). split; [exact H1|congruence].
    + intros i H1. rewrite Hcl0. destruct (N.eqb_spec (f_inc f) i) as [E|E]; [|reflexivity].
      exfalso. apply H1. exists id, f. auto.
    + intros i Hin. pose proof (Hin_pre _ _ Hin I) as Hin'.
      destruct (pre_ok_in _ _ _ _ _ _ Hpre Hin') as (_ & Hx). destruct Hx.
    + cbn. intros Hc. congruence.
    + intros i d p Hin. pose proof (Hlbl _ _ Hin) as ->. pose proof (Hin_pre _ _ Hin I) as Hin'.
      destruct (in_pre_toc _ _ _ _ _ _ _ _ Hpre Hin') as (_ & Hi & Hd').
      exists id, f. auto.
    + intros i id' a Hin. pose proof (Hlbl _ _ Hin) as ->. pose proof (Hin_pre _ _ Hin I) as Hin'.
      destruct (in_pre_open _ _ _ _ _ _ _ _ Hpre Hin') as (_ & -> & (bid & Hi) & Hb0 & Hb' & Hu).
      exists f, bid. repeat split; auto.
      * intros j g Hj He. exfalso. assert (live_inc (removed m id f) (f_inc f)) as Hli by (exists j, g; auto).
        apply (Hl _ HI Hg) in Hli. destruct Hli as (_ & Hne). congruence.
      * intros d q Hin2. pose proof (Hin_pre _ _ Hin2 I) as Hin2'. eapply Hu; eauto.
    + intros j g p. unfold removed. cbn. rewrite sget_sremove. destruct (Nat.eqb j id); [discriminate|].
      intros Hj Hpe. left. eauto.
    + intros i. rewrite !fwd_app, (fwd_nolabel i o).
      * cbn [evict_close fwd]. rewrite !app_nil_r. eapply fwd_pre; eauto.
      * intros x Hx. destruct (arms_in _ _ Ho Hx) as (d & ->). reflexivity.
  - (* a run of teardowns *)
    assert (m_ninc m' = m_ninc m) as Hn.
    { clear HI HI'. induction Hr as [m|m m' a o Ha H IH|m id f m' o Hg H IH]; auto. }
    assert (forall i x, In (Some i, x) o ->
              live_inc m i /\ match x with Metric MEvicted | CloseFlow _ => True | _ => False end) as Hin.
    { intros i x Hx. destruct (rems_in _ _ _ _ Hr Hx) as [(d & E)|(id & f & Hg & [E|E])]; inv E.
      - split; [exists id, f; auto | exact I].
      - split; [exists id, f; auto | exact I]. }
    pose proof (rems_closes _ _ _ Hr HI) as Hcl.
    constructor.
    + lia.
    + intros i x Hx. destruct (Hin _ _ Hx) as ((id & f & Hg & <-) & _).
      split; [rewrite Hn; apply (inv_inc _ HI _ _ Hg)|]. left. exists id, f. auto.
    + intros j g Hj. left. exists g. split; [eapply rems_mono; eauto|]. split; [apply same_id_refl|auto].
    + intros i d p Hx. destruct (Hin _ _ Hx) as (_ & []).
    + intros i. apply Hcl.
    + intros i. apply Hcl.
    + intros i. apply Hcl.
    + intros i Hx. destruct (Hin _ _ Hx) as (_ & []).
    + intros Hc. congruence.
    + intros i d p Hx. destruct (Hin _ _ Hx) as (_ & []).
    + intros i d p Hx. destruct (Hin _ _ Hx) as (_ & []).
    + intros j g p Hj Hpe. left. exists g. split; [eapply rems_mono; eauto | exact Hpe].
    + intros i. left. apply fwd_none. intros [l x] Hx. cbn. destruct l as [j|].
      * destruct (Hin _ _ Hx) as (_ & Hk). destruct x; auto.
      * destruct x; auto. destruct (rems_in _ _ _ _ Hr Hx) as [(d & E)|(id & f & _ & [E|E])]; discriminate.
  - (* admission *)
    subst m' inp. set (f := admit_flow m src p now). pose proof (inv_wf _ HI) as Hwf.
    pose proof (sinsert_fresh Hwf) as Hfresh.
    assert (forall j g, sget (m_flows (admitted m src p now)) j = Some g ->
              (j = s_next (m_flows m) /\ g = f) \/ (j <> s_next (m_flows m) /\ sget (m_flows m) j = Some g)) as Hget.
    { intros j g. unfold admitted. cbn. rewrite (sget_sinsert _ _ Hwf).
      destruct (Nat.eqb j (s_next (m_flows m))) eqn:E.
      - apply Nat.eqb_eq in E. intros H. inv H. left. auto.
      - apply Nat.eqb_neq in E. intros H. right. auto. }
    assert (live_inc (admitted m src p now) (m_ninc m)) as Hlive_new.
    { exists (s_next (m_flows m)), f. split; [|reflexivity]. unfold admitted. cbn.
      rewrite (sget_sinsert _ _ Hwf), Nat.eqb_refl. reflexivity. }
    assert (forall i, live_inc m i -> live_inc (admitted m src p now) i) as Hlive_old.
    { intros i (j & g & Hj & He). exists j, g. split; [|exact He]. unfold admitted. cbn.
      rewrite (sget_sinsert _ _ Hwf). destruct (Nat.eqb j (s_next (m_flows m))) eqn:E; [|exact Hj].
      apply Nat.eqb_eq in E. subst j. congruence. }
    match goal with |- SF _ _ _ ?oo => set (outs := oo) end.
    assert (forall i, closes i outs = 0) as Hc0.
    { intros i. unfold outs. rewrite closes_app, (closes_arms _ _ Ho). reflexivity. }
    assert (forall i x, In (Some i, x) outs -> i = m_ninc m /\
              match x with Metric MCreated | SelectBackend _ _ _ => True | _ => False end) as Hin.
    { intros i x Hx. unfold outs in Hx. cbn in Hx. destruct Hx as [H|[H|Hx]].
      - inv H. auto.
      - inv H. auto.
      - destruct (arms_in _ _ Ho Hx). discriminate. }
    constructor; auto.
    + cbn. lia.
    + intros i x Hx. destruct (Hin _ _ Hx) as (-> & _). cbn. split; [lia|]. right. auto.
    + intros j g Hj. destruct (Hget _ _ Hj) as [(-> & ->)|(Hne2 & Hj0)].
      * right. cbn. repeat split; auto. exists p. split; [reflexivity|]. left. reflexivity.
      * left. exists g. split; [exact Hj0|]. split; [apply same_id_refl|auto].
    + intros i d q Hx. destruct (Hin _ _ Hx) as (_ & []).
    + intros i H1 H2. exfalso. apply H2. apply Hlive_old. exact H1.
    + intros i Hx. destruct (Hin _ _ Hx) as (-> & _). split; [reflexivity|].
      exists src, p. split; [reflexivity|]. intros j g Hj He.
      destruct (Hget _ _ Hj) as [(-> & ->)|(Hne' & Hj0)]; [reflexivity|].
      pose proof (inv_inc _ HI _ _ Hj0). lia.
    + intros i d q Hx. destruct (Hin _ _ Hx) as (_ & []).
    + intros i d q Hx. destruct (Hin _ _ Hx) as (_ & []).
    + intros j g q Hj Hpe. destruct (Hget _ _ Hj) as [(-> & ->)|(Hne2 & Hj0)].
      * right. exists src. cbn in Hpe. inversion Hpe. reflexivity.
      * left. eauto.
    + intros i. left. apply fwd_none. intros [l x] Hx. cbn. destruct l as [j|].
      * destruct (Hin _ _ Hx) as (_ & Hk). destruct x; auto.
      * destruct x; auto. unfold outs in Hx. cbn in Hx. destruct Hx as [H|[H|Hx]]; try discriminate.
        destruct (arms_in _ _ Ho Hx). discriminate.
Qed.

(* ------------------------------------------------------------------ *)
(** Part 6: invariants over whole traces. *)

Definition event : Type := (N * input * list lout)%type.
Definition ev_in (e : event) : input := snd (fst e).
Definition ev_out (e : event) : list lout := snd e.
Definition allouts (tr : list event) : list lout := flat_map ev_out tr.

Lemma allouts_snoc tr e : allouts (tr ++ [e]) = allouts tr ++ ev_out e.
Proof. unfold allouts. rewrite flat_map_app. cbn. rewrite app_nil_r. reflexivity. Qed.

Lemma in_allouts tr e x : In e tr -> In x (ev_out e) -> In x (allouts tr).
Proof. intros H1 H2. unfold allouts. apply in_flat_map. eauto. Qed.

Inductive sublist {A : Type} : list A -> list A -> Prop :=
| sl_nil : sublist [] []
| sl_skip x l1 l2 : sublist l1 l2 -> sublist l1 (x :: l2)
| sl_take x l1 l2 : sublist l1 l2 -> sublist (x :: l1) (x :: l2).

Lemma sublist_nil_l {A} (l : list A) : sublist [] l.
Proof. induction l; [apply sl_nil | apply sl_skip; auto]. Qed.

Lemma sublist_app_r {A} (a l r : list A) : sublist a l -> sublist a (l ++ r).
Proof.
  induction 1; cbn.
  - apply sublist_nil_l.
  - apply sl_skip; auto.
  - apply sl_take; auto.
Qed.

Lemma sublist_snoc {A} (a l : list A) x : sublist a l -> sublist (a ++ [x]) (l ++ [x]).
Proof.
  induction 1; cbn.
  - apply sl_take. apply sl_nil.
  - apply sl_skip; auto.
  - apply sl_take; auto.
Qed.

Lemma sublist_single {A} (l : list A) x : In x l -> sublist [x] l.
Proof.
  induction l as [|y l IH]; intros Hin; [destruct Hin|].
  destruct Hin as [->|Hin]; [apply sl_take; apply sublist_nil_l | apply sl_skip; auto].
Qed.

(** the forwarded payload [q] is the datagram of the client event [e],
    optionally behind a PROXY v2 header *)
Definition carried (e : event) (q : list N) : Prop :=
  exists src p hdr, ev_in e = IClient src p /\ q = hdr ++ p /\ hdr_ok hdr.

Record TI (m : mgr) (tr : list event) : Prop := {
  ti_fresh : forall i x, In (Some i, x) (allouts tr) -> (i < m_ninc m)%N;
  ti_live_tob : forall id f, sget (m_flows m) id = Some f ->
      forall d p, In (Some (f_inc f), SendToBackend d p) (allouts tr) -> f_backend_addr f = Some d;
  ti_live_open : forall id f, sget (m_flows m) id = Some f -> closes (f_inc f) (allouts tr) = 0;
  ti_live_creator : forall id f, sget (m_flows m) id = Some f ->
      exists e p0, In e tr /\ ev_in e = IClient (f_client f) p0 /\ In (Some (f_inc f), Metric MCreated) (ev_out e);
  ti_sticky : forall i d1 p1 d2 p2,
      In (Some i, SendToBackend d1 p1) (allouts tr) -> In (Some i, SendToBackend d2 p2) (allouts tr) -> d1 = d2;
  ti_closed : forall i, (i < m_ninc m)%N -> ~ live_inc m i -> closes i (allouts tr) = 1;
  ti_creator_unique : forall i e1 e2, In e1 tr -> In e2 tr ->
      In (Some i, Metric MCreated) (ev_out e1) -> In (Some i, Metric MCreated) (ev_out e2) ->
      exists src p1 p2, ev_in e1 = IClient src p1 /\ ev_in e2 = IClient src p2;
  ti_iso : forall e i d p, In e tr -> In (Some i, SendToClient d p) (ev_out e) ->
      (exists id, ev_in e = IBackend id p) /\
      exists e0 p0, In e0 tr /\ ev_in e0 = IClient d p0 /\ In (Some i, Metric MCreated) (ev_out e0);
  ti_live_opened : forall id f, sget (m_flows m) id = Some f ->
      forall id' a, In (Some (f_inc f), OpenUpstream id' a) (allouts tr) -> f_backend_addr f = Some a;
  ti_open_tob : forall i id a d p,
      In (Some i, OpenUpstream id a) (allouts tr) -> In (Some i, SendToBackend d p) (allouts tr) -> d = a;
  ti_open_res : forall e i id a, In e tr -> In (Some i, OpenUpstream id a) (ev_out e) ->
      exists bid, ev_in e = IResolved id bid a;
  ti_pending : forall id f p, sget (m_flows m) id = Some f -> f_pending f = Some p ->
      exists e src, In e tr /\ ev_in e = IClient src p;
  ti_order : forall i, exists es, sublist es tr /\ Forall2 carried es (fwd i (allouts tr));
}.

Lemma TI_nil c mf mrx : TI (mgr_new c mf mrx) [].
Proof.
  assert (forall id f, sget (m_flows (mgr_new c mf mrx)) id = Some f -> False) as Hno.
  { intros id f H. unfold sget in H. cbn in H. destruct id; discriminate. }
  constructor; cbn; try (intros; contradiction); try (intros; exfalso; eapply Hno; eauto; fail).
  - intros i H. lia.
  - intros i. exists []. split; constructor.
Qed.

Lemma closes_fresh i o : (forall j x, In (Some j, x) o -> j <> i) -> closes i o = 0.
Proof.
  intros H. apply closes_zero. intros [l x] Hx. destruct l as [j|]; [|reflexivity].
  destruct x; try reflexivity. cbn. apply N.eqb_neq. eapply H; eauto.
Qed.

Lemma TI_step m tr m' now inp o :
  Inv m -> TI m tr -> SF m m' inp o -> TI m' (tr ++ [(now, inp, o)]).
Proof.
  intros HI HT HS.
  assert (forall i x, In (Some i, x) (allouts tr) -> ~ (m_ninc m <= i)%N) as Hfr.
  { intros i x Hin Hle. pose proof (ti_fresh _ _ HT _ _ Hin). lia. }
  constructor; try rewrite allouts_snoc; cbn [ev_out snd].
  - (* fresh *)
    intros i x Hin. apply in_app_or in Hin. destruct Hin as [Hin|Hin].
    + pose proof (ti_fresh _ _ HT _ _ Hin). pose proof (sf_ninc _ _ _ _ HS). lia.
    + apply (sf_lbl _ _ _ _ HS _ _ Hin).
  - (* live flows: forwarded only to their backend *)
    intros id f' Hg d p Hin.
    destruct (sf_flows _ _ _ _ HS _ _ Hg) as [(f & Hg0 & (Hc & Hcfg & Hinc) & Hmono)|(Hinc & Hn & Hb & _)].
    + apply in_app_or in Hin. destruct Hin as [Hin|Hin].
      * apply Hmono. rewrite Hinc in Hin. eapply (ti_live_tob _ _ HT); eauto.
      * destruct (sf_tob _ _ _ _ HS _ _ _ Hin) as (j & g & _ & _ & _ & Hall & _). eapply Hall; eauto.
    + exfalso. apply in_app_or in Hin. destruct Hin as [Hin|Hin].
      * apply (Hfr _ _ Hin). lia.
      * destruct (sf_tob _ _ _ _ HS _ _ _ Hin) as (j & g & Hj & He & _).
        pose proof (inv_inc _ HI _ _ Hj). lia.
  - (* live flows: never closed *)
    intros id f' Hg. rewrite closes_app.
    rewrite (sf_close0 _ _ _ _ HS (f_inc f')) by (exists id, f'; auto).
    destruct (sf_flows _ _ _ _ HS _ _ Hg) as [(f & Hg0 & (Hc & Hcfg & Hinc) & Hmono)|(Hinc & Hn & Hb & _)].
    + rewrite Hinc, (ti_live_open _ _ HT _ _ Hg0). reflexivity.
    + rewrite closes_fresh; [reflexivity|]. intros j x Hin E. subst j. apply (Hfr _ _ Hin). lia.
  - (* live flows: created by a datagram from their client *)
    intros id f' Hg.
    destruct (sf_flows _ _ _ _ HS _ _ Hg) as [(f & Hg0 & (Hc & Hcfg & Hinc) & Hmono)|(Hinc & Hn & Hb & p0 & Hi & Hcr)].
    + destruct (ti_live_creator _ _ HT _ _ Hg0) as (e & p0 & He & Hin & Hcr).
      exists e, p0. rewrite Hc, Hinc. split; [apply in_or_app; left; exact He | auto].
    + exists (now, inp, o), p0. split; [apply in_or_app; right; left; reflexivity|].
      split; [exact Hi|]. rewrite Hinc. exact Hcr.
  - (* sticky *)
    intros i d1 p1 d2 p2 H1 H2. apply in_app_or in H1. apply in_app_or in H2.
    destruct H1 as [H1|H1]; destruct H2 as [H2|H2].
    + eapply (ti_sticky _ _ HT); eauto.
    + destruct (sf_tob _ _ _ _ HS _ _ _ H2) as (j & g & Hj & He & Hb & _). subst i.
      pose proof (ti_live_tob _ _ HT _ _ Hj _ _ H1) as Hb1. destruct Hb as [Hb|Hb]; congruence.
    + destruct (sf_tob _ _ _ _ HS _ _ _ H1) as (j & g & Hj & He & Hb & _). subst i.
      pose proof (ti_live_tob _ _ HT _ _ Hj _ _ H2) as Hb2. destruct Hb as [Hb|Hb]; congruence.
    + destruct (sf_tob _ _ _ _ HS _ _ _ H1) as (j & g & _ & _ & _ & _ & Hu). symmetry. eapply Hu; eauto.
  - (* every dead incarnation was closed exactly once *)
    intros i Hlt Hnl. rewrite closes_app.
    destruct (N.lt_ge_cases i (m_ninc m)) as [Hi|Hi].
    + destruct (live_inc_dec m i) as [Hl|Hl].
      * destruct Hl as (j & g & Hj & <-).
        rewrite (ti_live_open _ _ HT _ _ Hj), (sf_close1 _ _ _ _ HS (f_inc g)); auto. exists j, g. auto.
      * rewrite (ti_closed _ _ HT _ Hi Hl), (sf_close_dead _ _ _ _ HS _ Hl). reflexivity.
    + exfalso. assert (m_ninc m' <> m_ninc m) as Hne by lia.
      destruct (sf_newinc _ _ _ _ HS Hne) as (Hn & Hlive). apply Hnl.
      replace i with (m_ninc m) by lia. exact Hlive.
  - (* one creator per incarnation *)
    intros i e1 e2 H1 H2 C1 C2. apply in_app_or in H1. apply in_app_or in H2.
    assert (forall e, In e tr -> In (Some i, Metric MCreated) (ev_out e) -> (i < m_ninc m)%N) as Hold.
    { intros e He Hc. eapply (ti_fresh _ _ HT). eapply in_allouts; eauto. }
    destruct H1 as [H1|[<-|[]]]; destruct H2 as [H2|[<-|[]]]; cbn [ev_in ev_out fst snd] in *.
    + eapply (ti_creator_unique _ _ HT); eauto.
    + exfalso. pose proof (Hold _ H1 C1). destruct (sf_created _ _ _ _ HS _ C2) as (-> & _). lia.
    + exfalso. pose proof (Hold _ H2 C2). destruct (sf_created _ _ _ _ HS _ C1) as (-> & _). lia.
    + destruct (sf_created _ _ _ _ HS _ C1) as (_ & src & p & -> & _). exists src, p, p. auto.
  - (* isolation *)
    intros e i d p He Hin. apply in_app_or in He. destruct He as [He|[<-|[]]].
    + destruct (ti_iso _ _ HT _ _ _ _ He Hin) as (H1 & e0 & p0 & H0 & H2 & H3).
      split; [exact H1|]. exists e0, p0. split; [apply in_or_app; left; exact H0 | auto].
    + cbn [ev_in ev_out fst snd] in *.
      destruct (sf_toc _ _ _ _ HS _ _ _ Hin) as (id & f & -> & Hg & <- & <-).
      split; [eauto|]. destruct (ti_live_creator _ _ HT _ _ Hg) as (e0 & p0 & H0 & H2 & H3).
      exists e0, p0. split; [apply in_or_app; left; exact H0 | auto].
  - (* live flows: opened towards their backend *)
    intros id f' Hg id' a Hin.
    destruct (sf_flows _ _ _ _ HS _ _ Hg) as [(f & Hg0 & (Hc & Hcfg & Hinc) & Hmono)|(Hinc & Hn & Hb & _)].
    + apply in_app_or in Hin. destruct Hin as [Hin|Hin].
      * apply Hmono. rewrite Hinc in Hin. eapply (ti_live_opened _ _ HT); eauto.
      * destruct (sf_open _ _ _ _ HS _ _ _ Hin) as (g & bid & _ & _ & _ & _ & Hall & _). eapply Hall; eauto.
    + exfalso. apply in_app_or in Hin. destruct Hin as [Hin|Hin].
      * apply (Hfr _ _ Hin). lia.
      * destruct (sf_open _ _ _ _ HS _ _ _ Hin) as (g & bid & _ & Hj & He & _).
        pose proof (inv_inc _ HI _ _ Hj). lia.
  - (* the destination is the resolved address *)
    intros i id a d p H1 H2. apply in_app_or in H1. apply in_app_or in H2.
    destruct H1 as [H1|H1]; destruct H2 as [H2|H2].
    + eapply (ti_open_tob _ _ HT); eauto.
    + destruct (sf_tob _ _ _ _ HS _ _ _ H2) as (j & g & Hj & He & Hb & _). subst i.
      pose proof (ti_live_opened _ _ HT _ _ Hj _ _ H1) as Hb1. destruct Hb as [Hb|Hb]; congruence.
    + destruct (sf_open _ _ _ _ HS _ _ _ H1) as (g & bid & _ & Hj & He & Hb & _). subst i.
      pose proof (ti_live_tob _ _ HT _ _ Hj _ _ H2) as Hb2. congruence.
    + destruct (sf_open _ _ _ _ HS _ _ _ H1) as (g & bid & _ & _ & _ & _ & _ & Hu). eapply Hu; eauto.
  - (* an upstream is opened only by a resolution, towards the resolved address *)
    intros e i id a He Hin. apply in_app_or in He. destruct He as [He|[<-|[]]].
    + eapply (ti_open_res _ _ HT); eauto.
    + cbn [ev_in ev_out fst snd] in *.
      destruct (sf_open _ _ _ _ HS _ _ _ Hin) as (g & bid & -> & _). eauto.
  - (* a buffered datagram is some earlier client datagram *)
    intros id f' p Hg Hpe. destruct (sf_pending _ _ _ _ HS _ _ _ Hg Hpe) as [(f & Hg0 & Hpe0)|(src & Hi)].
    + destruct (ti_pending _ _ HT _ _ _ Hg0 Hpe0) as (e & src & He & Hin). exists e, src.
      split; [apply in_or_app; left; exact He | exact Hin].
    + exists (now, inp, o), src. split; [apply in_or_app; right; left; reflexivity | exact Hi].
  - (* forwarded payloads = an in-order, duplicate-free selection of the client datagrams *)
    intros i. rewrite fwd_app. destruct (ti_order _ _ HT i) as (es & Hsub & Hcar).
    destruct (sf_fwd _ _ _ _ HS i) as [E|(q & E & [(src & p & hdr & Hi & Hq & Hh)|(id & bid & a & f & p & hdr & Hi & Hg & Hinc & Hb & Hpe & Hq & Hh)])];
      rewrite E.
    + rewrite app_nil_r. exists es. split; [apply sublist_app_r; exact Hsub | exact Hcar].
    + exists (es ++ [(now, inp, o)]). split; [apply sublist_snoc; exact Hsub|].
      apply Forall2_app; [exact Hcar|]. constructor; [|constructor].
      exists src, p, hdr. auto.
    + (* the flush at resolution: nothing was forwarded before *)
      assert (fwd i (allouts tr) = []) as E0.
      { destruct (fwd i (allouts tr)) as [|q0 l] eqn:Ef; auto. exfalso.
        assert (In q0 (fwd i (allouts tr))) as Hq0 by (rewrite Ef; left; reflexivity).
        destruct (fwd_in _ _ _ Hq0) as (d & Hd). subst i.
        pose proof (ti_live_tob _ _ HT _ _ Hg _ _ Hd). congruence. }
      rewrite E0. cbn [app].
      destruct (ti_pending _ _ HT _ _ _ Hg Hpe) as (e & src & He & Hin).
      exists [e]. split; [apply sublist_app_r; apply sublist_single; exact He|].
      constructor; [|constructor]. exists src, p, hdr. auto.
Qed.

Lemma run_TI hash h : forall m tr0,
  Inv m -> TI m tr0 ->
  Inv (fst (run hash m h)) /\ TI (fst (run hash m h)) (tr0 ++ snd (run hash m h)).
Proof.
  induction h as [|[now i] h IH]; intros m tr0 HI HT; cbn [run].
  - cbn. rewrite app_nil_r. auto.
  - pose proof (step_shape hash m now i HI) as Hsh.
    pose proof (shape_inv _ _ _ _ _ _ HI Hsh) as HI1.
    pose proof (TI_step m tr0 _ now i _ HI HT (shape_SF _ _ _ _ _ _ HI Hsh)) as HT1.
    destruct (step hash m now i) as [m1 o]. cbn [fst snd] in *.
    specialize (IH m1 _ HI1 HT1). destruct (run hash m1 h) as [m2 tr]. cbn [fst snd] in *.
    rewrite <- app_assoc in IH. exact IH.
Qed.

Lemma run_TI_init hash c mf mrx h :
  TI (fst (run hash (mgr_new c mf mrx) h)) (snd (run hash (mgr_new c mf mrx) h)).
Proof. apply (run_TI hash h (mgr_new c mf mrx) [] (Inv_new _ _ _) (TI_nil _ _ _)). Qed.

Lemma closes_le_one m tr i : Inv m -> TI m tr ->
  closes i (allouts tr) <= 1 /\
  (closes i (allouts tr) = 1 <-> (i < m_ninc m)%N /\ ~ live_inc m i).
Proof.
  intros HI HT. destruct (N.lt_ge_cases i (m_ninc m)) as [Hi|Hi].
  - destruct (live_inc_dec m i) as [Hl|Hl].
    + destruct Hl as (j & g & Hj & <-). rewrite (ti_live_open _ _ HT _ _ Hj).
      split; [lia|]. split; [discriminate|]. intros (_ & Hn). exfalso. apply Hn. exists j, g. auto.
    + rewrite (ti_closed _ _ HT _ Hi Hl). split; [lia|]. tauto.
  - rewrite closes_fresh.
    + split; [lia|]. split; [discriminate|]. intros (H & _). lia.
    + intros j x Hin E. subst j. pose proof (ti_fresh _ _ HT _ _ Hin). lia.
Qed.

(* ------------------------------------------------------------------ *)
(** Part 7: payload exactness of one step (no duplication, merge, truncation). *)

Section Exact.
Variable hash : bool -> addr -> N.

Definition is_pp_header (hdr : list N) (d : addr) : Prop :=
  hdr = [] \/ exists c, hdr = dgram_header c d.

(** every datagram sent to a backend in a step is the (optionally PROXY-prefixed)
    payload of the client datagram being handled, or the buffered one being
    flushed by the resolution; and there is at most one per step *)
Lemma forward_exact m now inp i d q :
  Inv m -> In (Some i, SendToBackend d q) (snd (step hash m now inp)) ->
  (exists hdr, is_pp_header hdr d /\
     ((exists src p, inp = IClient src p /\ q = hdr ++ p) \/
      (exists id bid p f, inp = IResolved id bid d /\ sget (m_flows m) id = Some f /\
                          f_inc f = i /\ f_pending f = Some p /\ q = hdr ++ p))) /\
  (forall i' d' q', In (Some i', SendToBackend d' q') (snd (step hash m now inp)) ->
                    i' = i /\ d' = d /\ q' = q).
Proof.
  intros HI Hin. pose proof (step_shape hash m now inp HI) as Hs.
  assert (forall id f f' pre rest,
            sget (m_flows m) id = Some f -> pre_ok inp id f f' pre ->
            (forall x, In x rest -> match snd x with SendToBackend _ _ => False | _ => True end) ->
            In (Some i, SendToBackend d q) (pre ++ rest) ->
            (exists hdr, is_pp_header hdr d /\
               ((exists src p, inp = IClient src p /\ q = hdr ++ p) \/
                (exists id bid p f, inp = IResolved id bid d /\ sget (m_flows m) id = Some f /\
                                    f_inc f = i /\ f_pending f = Some p /\ q = hdr ++ p))) /\
            (forall i' d' q', In (Some i', SendToBackend d' q') (pre ++ rest) -> i' = i /\ d' = d /\ q' = q)) as Hpre.
  { intros id f f' pre rest Hg Hp Hrest Hi.
    assert (forall y, In y (pre ++ rest) -> match snd y with SendToBackend _ _ => In y pre | _ => True end) as Hsplit.
    { intros y Hy. apply in_app_or in Hy. destruct Hy as [Hy|Hy].
      - destruct (snd y); auto.
      - specialize (Hrest _ Hy). destruct (snd y); auto. destruct Hrest. }
    pose proof (Hsplit _ Hi) as Hi'. cbn in Hi'.
    destruct Hp as [|src p b hdr Ei Hb Hb' Hh|bid a p hdr Ei Hb Hpe Hb' Hh|bid a Ei Hb Hb'|p Ei Hb' Hb]; cbn in Hi'.
    - destruct Hi'.
    - destruct Hi' as [H|[H|[]]]; [discriminate|]. inv H. split.
      + exists hdr. split; [destruct Hh; [left|right]; eauto|]. left. eauto.
      + intros i' d' q' Hy. specialize (Hsplit _ Hy). cbn in Hsplit.
        destruct Hsplit as [H|[H|[]]]; [discriminate|]. inv H. auto.
    - destruct Hi' as [H|[H|[H|[]]]]; [discriminate|discriminate|]. inv H. split.
      + exists hdr. split; [destruct Hh; [left|right]; eauto|]. right. exists id, bid, p, f. auto.
      + intros i' d' q' Hy. specialize (Hsplit _ Hy). cbn in Hsplit.
        destruct Hsplit as [H|[H|[H|[]]]]; [discriminate|discriminate|]. inv H. auto.
    - destruct Hi' as [H|[]]. discriminate.
    - destruct Hi' as [H|[H|[]]]; discriminate. }
  assert (forall o, arms o -> forall x, In x o -> match snd x with SendToBackend _ _ => False | _ => True end) as Harms.
  { intros o Ho x Hx. destruct (arms_in _ _ Ho Hx) as (dd & ->). exact I. }
  destruct Hs as [o Ho|m' E1 E2 E3 E4 H5 H6|id f f' pre o Hg Hs Hp Ht Hpre' Ho Hmono Hpend'
                 |id f f' pre o Hg Hs Hpre' Ho|m' o Hr|src p o m' cl Ei Ht Hd Hc Ho Em Ecl Hne Hpne].
  - rewrite Forall_forall in Ho. specialize (Ho _ Hin). discriminate.
  - destruct Hin.
  - eapply Hpre; eauto. intros x Hx. eapply Harms; eauto.
  - eapply Hpre; eauto. intros x Hx. apply in_app_or in Hx. destruct Hx as [Hx|Hx].
    + cbn in Hx. destruct Hx as [<-|[<-|[]]]; exact I.
    + eapply Harms; eauto.
  - destruct (rems_in _ _ _ _ Hr Hin) as [(dd & H)|(id & f & _ & [H|H])]; discriminate.
  - cbn in Hin. destruct Hin as [H|[H|Hin]]; try discriminate.
    destruct (arms_in _ _ Ho Hin). discriminate.
Qed.

(** newest-wins buffering while awaiting, and nothing is forwarded yet *)
Lemma buffer_newest_wins m now src p id f :
  Inv m ->
  (N.of_nat (length p) <= m_max_rx m)%N -> c_cluster (m_cluster m) <> [] -> p <> [] ->
  tget (m_table m) (key_of src (c_with_port (m_cluster m))) = Some id ->
  sget (m_flows m) id = Some f -> f_phase f = Awaiting ->
  (exists f', sget (m_flows (fst (step hash m now (IClient src p)))) id = Some f' /\
              f_pending f' = Some p /\ f_phase f' = Awaiting /\ f_inc f' = f_inc f) /\
  (forall x, In x (snd (step hash m now (IClient src p))) -> exists dd, x = (None, ArmTimer dd)).
Proof.
  intros HI Hlen Hcl Hp Ht Hg Hph. cbn [step]. unfold on_client_datagram.
  assert (N.ltb (m_max_rx m) (N.of_nat (length p)) = false) as -> by (apply N.ltb_ge; exact Hlen).
  destruct (c_cluster (m_cluster m)) as [|c0 cl]; [congruence|].
  destruct p as [|p0 p']; [congruence|]. rewrite Ht.
  unfold forward_on_existing_flow. rewrite Hg, Hph.
  match goal with |- context [reschedule ?x] => destruct (reschedule_spec x) as (o & Ho & Harm) end.
  rewrite Ho. cbn [fst snd]. split.
  - eexists. split; [cbn; rewrite sget_sset, Nat.eqb_refl, Hg; reflexivity|]. cbn. auto.
  - intros x Hx. eapply arms_in; eauto.
Qed.

(** the admitted flow buffers exactly the admitting datagram *)
Lemma admission_buffers m now src p :
  Inv m ->
  (N.of_nat (length p) <= m_max_rx m)%N -> c_cluster (m_cluster m) <> [] -> p <> [] ->
  tget (m_table m) (key_of src (c_with_port (m_cluster m))) = None ->
  m_draining m = false -> (N.of_nat (slen (m_flows m)) < m_max_flows m)%N ->
  sget (m_flows (fst (step hash m now (IClient src p)))) (s_next (m_flows m)) = Some (admit_flow m src p now) /\
  In (Some (m_ninc m), Metric MCreated) (snd (step hash m now (IClient src p))).
Proof.
  intros HI Hlen Hcl Hp Ht Hd Hcap. cbn [step]. unfold on_client_datagram.
  assert (N.ltb (m_max_rx m) (N.of_nat (length p)) = false) as -> by (apply N.ltb_ge; exact Hlen).
  destruct (c_cluster (m_cluster m)) as [|c0 cl]; [congruence|].
  destruct p as [|p0 p']; [congruence|]. rewrite Ht, Hd.
  assert (N.leb (m_max_flows m) (N.of_nat (slen (m_flows m))) = false) as -> by (apply N.leb_gt; exact Hcap).
  change (set_flow_live (flow_new src (m_cluster m) now (m_ninc m)) _ _ _ (Some (p0 :: p')))
    with (admit_flow m src (p0 :: p') now).
  destruct (sinsert (m_flows m) (admit_flow m src (p0 :: p') now)) as [s' id] eqn:Eins.
  match goal with |- context [reschedule ?x] => destruct (reschedule_spec x) as (o & Ho & Harm) end.
  rewrite Ho. cbn [fst snd]. split; [|left; reflexivity].
  cbn. assert (s' = fst (sinsert (m_flows m) (admit_flow m src (p0 :: p') now))) as -> by (rewrite Eins; reflexivity).
  rewrite (sget_sinsert _ _ (inv_wf _ HI)), Nat.eqb_refl. reflexivity.
Qed.

End Exact.

(* ------------------------------------------------------------------ *)
(** Part 8: the timer contract with the shell.  The shell owns ONE one-shot
    timer; every [ArmTimer] replaces it, a firing ([ITimeout]) spends it. *)

Fixpoint last_arm (os : list lout) (acc : option N) : option N :=
  match os with
  | [] => acc
  | (_, ArmTimer d) :: os' => last_arm os' (Some d)
  | _ :: os' => last_arm os' acc
  end.

Definition spend (i : input) (t : option N) : option N :=
  match i with ITimeout => None | _ => t end.

Fixpoint shell_timer (tr : list event) (t : option N) : option N :=
  match tr with
  | [] => t
  | e :: tr' => shell_timer tr' (last_arm (ev_out e) (spend (ev_in e) t))
  end.

(** the shell timer shows the armed deadline whenever there is one *)
Definition TP (m : mgr) (t : option N) : Prop :=
  match m_armed m with Some d => t = Some d | None => True end.

(** "running [f] keeps the shell timer in step with the armed deadline" *)
Definition keeps (m : mgr) (r : mgr * list lout) : Prop :=
  forall t, TP m t -> TP (fst r) (last_arm (snd r) t).

Lemma last_arm_app a b t : last_arm (a ++ b) t = last_arm b (last_arm a t).
Proof.
  revert t. induction a as [|[l x] a IH]; intros t; cbn; auto.
  destruct x; auto.
Qed.

Lemma keeps_reschedule m : keeps m (reschedule m).
Proof.
  unfold keeps, reschedule, TP. intros t Ht.
  destruct (opt_N_eqb (min_deadline (m_flows m)) (m_armed m)) eqn:E; cbn [fst snd].
  - exact Ht.
  - destruct (min_deadline (m_flows m)) as [d|]; cbn; auto.
Qed.

Lemma TP_same_armed m m' t : m_armed m' = m_armed m -> TP m t -> TP m' t.
Proof. unfold TP. intros ->. auto. Qed.

(** [reschedule] after any change that leaves [m_armed] alone *)
Lemma keeps_reschedule_after m m1 :
  m_armed m1 = m_armed m -> keeps m (reschedule m1).
Proof. intros E t Ht. apply keeps_reschedule. eapply TP_same_armed; eauto. Qed.

Lemma keeps_prefix m r pre :
  (forall x, In x pre -> match snd x with ArmTimer _ => False | _ => True end) ->
  keeps m r -> keeps m (fst r, pre ++ snd r).
Proof.
  intros Hpre H t Ht. cbn [fst snd]. rewrite last_arm_app.
  assert (last_arm pre t = t) as ->.
  { clear H Ht. revert t. induction pre as [|[l x] pre IH]; intros t; cbn; auto.
    pose proof (Hpre (l, x) (or_introl eq_refl)) as Hx. cbn in Hx.
    destruct x; try (apply IH; intros y Hy; apply Hpre; right; exact Hy). destruct Hx. }
  apply H. exact Ht.
Qed.

Lemma keeps_close_flow m m1 id :
  m_armed m1 = m_armed m -> keeps m (close_flow m1 id).
Proof.
  intros E. unfold close_flow.
  destruct (sget (m_flows m1) id) as [f|]; [|intros t Ht; cbn; eapply TP_same_armed; eauto].
  destruct (phase_eqb (f_phase f) Closing); [intros t Ht; cbn; eapply TP_same_armed; eauto|].
  match goal with |- context [reschedule ?x] =>
    pose proof (keeps_reschedule_after m x) as H; destruct (reschedule x) as [m2 o] end.
  specialize (H E).
  apply (keeps_prefix m (m2, o) [(Some (f_inc f), Metric MEvicted); (Some (f_inc f), CloseFlow id)]); auto.
  intros x [<-|[<-|[]]]; exact I.
Qed.

Lemma keeps_finish m m1 id td : m_armed m1 = m_armed m -> keeps m (finish m1 id td).
Proof.
  intros E. unfold finish. destruct td; [apply keeps_close_flow | apply keeps_reschedule_after]; exact E.
Qed.

Lemma keeps_drop m (o : list lout) :
  (forall x, In x o -> match snd x with ArmTimer _ => False | _ => True end) -> keeps m (m, o).
Proof.
  intros H. apply (keeps_prefix m (m, []) o) in H.
  - cbn in H. rewrite app_nil_r in H. exact H.
  - intros t Ht. exact Ht.
Qed.

Ltac no_arm := let x := fresh "x" in let Hx := fresh "Hx" in
  intros x Hx; cbn in Hx; repeat (destruct Hx as [<-|Hx]; [exact I|]); destruct Hx.

Section TimerContract.
Variable hash : bool -> addr -> N.

Lemma keeps_step_prefix m (r : mgr * list lout) pre :
  (forall x, In x pre -> match snd x with ArmTimer _ => False | _ => True end) ->
  keeps m r -> keeps m (let '(m2, o) := r in (m2, pre ++ o)).
Proof. intros H K. destruct r as [m2 o]. apply (keeps_prefix m (m2, o) pre H K). Qed.

Lemma keeps_forward m id p now : keeps m (forward_on_existing_flow m id p now).
Proof.
  unfold forward_on_existing_flow.
  destruct (sget (m_flows m) id) as [f|]; [|apply keeps_drop; no_arm].
  destruct (f_phase f).
  - apply keeps_reschedule_after. reflexivity.
  - destruct (f_backend_addr (flow_on_client f now)) as [b|]; [|apply keeps_drop; no_arm].
    destruct (take_pp (flow_on_client f now)) as [pp f2].
    apply keeps_step_prefix; [no_arm|]. apply keeps_finish. reflexivity.
  - apply keeps_drop; no_arm.
Qed.

Lemma keeps_client m src p now : keeps m (on_client_datagram hash m src p now).
Proof.
  unfold on_client_datagram.
  case_if; [apply keeps_drop; no_arm|].
  destruct (c_cluster (m_cluster m)); [apply keeps_drop; no_arm|].
  destruct p as [|p0 p']; [apply keeps_drop; no_arm|].
  destruct (tget (m_table m) _) as [id|]; [apply keeps_forward|].
  destruct (m_draining m); [apply keeps_drop; no_arm|].
  case_if; [apply keeps_drop; no_arm|].
  destruct (sinsert _ _) as [s' id].
  apply keeps_step_prefix; [no_arm|]. apply keeps_reschedule_after. reflexivity.
Qed.

Lemma keeps_resolved m id bid a now : keeps m (on_backend_resolved m id bid a now).
Proof.
  unfold on_backend_resolved.
  destruct (sget (m_flows m) id) as [f|]; [|apply keeps_drop; no_arm].
  destruct (negb (phase_eqb (f_phase f) Awaiting)); [apply keeps_drop; no_arm|].
  cbn [set_flow_live f_pending].
  destruct (f_pending f) as [payload|].
  - destruct (take_pp _) as [pp f4].
    apply keeps_step_prefix; [no_arm|]. apply keeps_finish. reflexivity.
  - match goal with |- context [reschedule ?x] =>
      pose proof (keeps_reschedule_after m x eq_refl) as H; destruct (reschedule x) as [m2 o] end.
    apply (keeps_prefix m (m2, o) [(Some (f_inc f), OpenUpstream id a)]); auto. no_arm.
Qed.

Lemma keeps_backend m id p now : keeps m (on_backend_datagram m id p now).
Proof.
  unfold on_backend_datagram.
  case_if; [apply keeps_drop; no_arm|].
  destruct (sget (m_flows m) id) as [f|]; [|apply keeps_drop; no_arm].
  destruct (negb (phase_eqb (f_phase f) Established)); [apply keeps_drop; no_arm|].
  apply keeps_step_prefix; [no_arm|]. apply keeps_finish. reflexivity.
Qed.

(** folds: the accumulated outputs grow at the end *)
Lemma keeps_close_all_fold ids : forall m outs t,
  TP m (last_arm outs t) ->
  TP (fst (fold_left close_one ids (m, outs))) (last_arm (snd (fold_left close_one ids (m, outs))) t).
Proof.
  induction ids as [|id ids IH]; intros m outs t Ht; cbn [fold_left]; [exact Ht|].
  pose proof (keeps_close_flow m m id eq_refl) as K. destruct (close_flow m id) as [m1 o1] eqn:Ec.
  assert (close_one (m, outs) id = (m1, outs ++ o1)) as E by (unfold close_one; rewrite Ec; reflexivity).
  rewrite E. apply IH. rewrite last_arm_app. apply (K _ Ht).
Qed.

Lemma keeps_timeout_fold now ids : forall m outs t,
  TP m (last_arm outs t) ->
  TP (fst (fold_left (timeout_one now) ids (m, outs)))
     (last_arm (snd (fold_left (timeout_one now) ids (m, outs))) t).
Proof.
  induction ids as [|id ids IH]; intros m outs t Ht; cbn [fold_left]; [exact Ht|].
  assert (exists m1 o1, timeout_one now (m, outs) id = (m1, outs ++ o1) /\ TP m1 (last_arm (outs ++ o1) t))
    as (m1 & o1 & E & H1).
  { unfold timeout_one. destruct (sget (m_flows m) id) as [f|].
    - destruct (N.leb (f_deadline f) now && negb (phase_eqb (f_phase f) Closing)).
      + pose proof (keeps_close_flow m m id eq_refl) as K. destruct (close_flow m id) as [m1 o1].
        exists m1, o1. split; [reflexivity|]. rewrite last_arm_app. apply (K _ Ht).
      + exists m, []. rewrite app_nil_r. auto.
    - exists m, []. rewrite app_nil_r. auto. }
  rewrite E. apply IH. exact H1.
Qed.

(** one step: a firing spends the timer first *)
Lemma step_keeps_timer m now i t :
  TP m t -> TP (fst (step hash m now i)) (last_arm (snd (step hash m now i)) (spend i t)).
Proof.
  intros Ht. destruct i as [src p|id p|id bid a|c|n|n| | |id| ]; cbn [step spend].
  - apply keeps_client; exact Ht.
  - apply keeps_backend; exact Ht.
  - apply keeps_resolved; exact Ht.
  - exact Ht.
  - exact Ht.
  - exact Ht.
  - exact Ht.
  - (* handle_timeout: whatever the timer showed, it is spent; the final reschedule
       starts from "nothing armed" and re-emits the request *)
    unfold handle_timeout.
    destruct (fold_left (timeout_one now) _ (m, [])) as [m1 o1].
    pose proof (keeps_reschedule (set_armed m1 None)) as K.
    destruct (reschedule (set_armed m1 None)) as [m2 o2]. cbn [fst snd].
    rewrite last_arm_app. apply K. exact I.
  - apply (keeps_close_flow m m id eq_refl). exact Ht.
  - unfold close_all. apply (keeps_close_all_fold _ m [] t). exact Ht.
Qed.

Lemma run_keeps_timer h : forall m t,
  TP m t -> TP (fst (run hash m h)) (shell_timer (snd (run hash m h)) t).
Proof.
  induction h as [|[now i] h IH]; intros m t Ht; cbn [run]; [exact Ht|].
  pose proof (step_keeps_timer m now i t Ht) as H1.
  destruct (step hash m now i) as [m1 o]. cbn [fst snd] in H1.
  specialize (IH m1 _ H1). destruct (run hash m1 h) as [m2 tr]. cbn [fst snd shell_timer ev_out ev_in] in *.
  exact IH.
Qed.

End TimerContract.
