(** CfgState — the generated step lists as the [steps] parameter of the model. *)
From SV Require Import CfgState.Model CfgState.Gen.

Definition steps_of (k : lkind) : list step :=
  match k with LHttp => steps_http | LHttps => steps_https | LTcp => steps_tcp | LUdp => steps_udp end.
