(** C19 — the ROUTING LIFECYCLE of one UDP listener in [UdpProxy] (lib/src/udp.rs):
    which [ConfigEvent]s the control-plane requests AddUdpFrontend / RemoveUdpFrontend /
    AddCluster / RemoveCluster / UpdateUdpListener commit into the listener's manager.

    One listener (the shell model of [C19/Shell.v] has one manager).  State mirrored:
    - [px_front px_back px_max_flows px_max_rx]: [UdpListener::config] (timeouts in SECONDS)
    - [px_cluster]: [UdpListener::cluster_id]
    - [px_route]:   [UdpProxy::cluster_for_listener\[token\]]
    - [px_cache]:   [UdpProxy::cluster_udp_config] (cluster id -> udp block of the last AddCluster)
    - [px_buffer_size px_max_conn]: the worker's global buffer_size / max_connections
    - [px_auto]: what [effective_max_flows] derives from RLIMIT_NOFILE (environment, a datum)

    Every operation returns the new proxy state and the inputs handed to the manager, in order.
    No proofs in this file beyond the lemmas used by [ShellProps.v]. *)
From Coq Require Import List NArith Bool Arith Lia.
From SV Require Import Common.Slab C19.Model C19.Shell.
Import ListNotations.

Definition cid := list N.
Definition cid_eqb (a b : cid) : bool := if list_eq_dec N.eq_dec a b then true else false.
Lemma cid_eqb_refl a : cid_eqb a a = true.
Proof. unfold cid_eqb. destruct (list_eq_dec N.eq_dec a a); congruence. Qed.
Lemma cid_eqb_eq a b : cid_eqb a b = true <-> a = b.
Proof. unfold cid_eqb. destruct (list_eq_dec N.eq_dec a b); split; congruence. Qed.

Lemma cid_eqb_sym a b : cid_eqb a b = cid_eqb b a.
Proof. unfold cid_eqb. destruct (list_eq_dec N.eq_dec a b), (list_eq_dec N.eq_dec b a); congruence. Qed.

Record proxy := mkproxy {
  px_front : N; px_back : N; px_max_flows : N; px_max_rx : N;
  px_cluster : option cid;
  px_route : option cid;
  px_cache : list (cid * udp_block);
  px_buffer_size : N; px_max_conn : N; px_auto : N }.

(** [UpdateUdpListenerConfig]: absent fields leave the listener's value *)
Record patch := mkpatch {
  pa_front : option N; pa_back : option N; pa_max_rx : option N; pa_max_flows : option N }.

Fixpoint cache_get (c : list (cid * udp_block)) (k : cid) : option udp_block :=
  match c with
  | [] => None
  | (k', u) :: c' => if cid_eqb k' k then Some u else cache_get c' k
  end.
Fixpoint cache_remove (c : list (cid * udp_block)) (k : cid) : list (cid * udp_block) :=
  match c with
  | [] => []
  | (k', u) :: c' => if cid_eqb k' k then cache_remove c' k else (k', u) :: cache_remove c' k
  end.
Definition cache_set (c : list (cid * udp_block)) (k : cid) (u : option udp_block) : list (cid * udp_block) :=
  match u with
  | Some u => (k, u) :: cache_remove c k
  | None => cache_remove c k
  end.

Lemma cache_get_remove c k k' : cache_get (cache_remove c k) k' = if cid_eqb k k' then None else cache_get c k'.
Proof.
  induction c as [|[a u] c IH]; simpl.
  - destruct (cid_eqb k k'); reflexivity.
  - destruct (cid_eqb a k) eqn:E.
    + apply cid_eqb_eq in E; subst a. rewrite IH. destruct (cid_eqb k k'); reflexivity.
    + simpl. rewrite IH. destruct (cid_eqb a k') eqn:E2; [|reflexivity].
      apply cid_eqb_eq in E2; subst a. rewrite cid_eqb_sym, E. reflexivity.
Qed.
Lemma cache_get_set c k u k' : cache_get (cache_set c k u) k' = if cid_eqb k k' then u else cache_get c k'.
Proof.
  destruct u as [u|]; simpl; rewrite cache_get_remove; destruct (cid_eqb k k'); reflexivity.
Qed.

(** [ClusterConfig::default()] (protocol/udp/mod.rs): no cluster, 30 s timeouts *)
Definition default_cfg : cfg := mkcfg [] false 0 0 30000 30000 false false.

(** [cluster_config_for] (udp.rs) on this listener: the cluster is [listener.cluster_id] (empty when there is
    none), the timeouts are the listener's, the knobs are the cached block OF THAT CLUSTER NAME *)
Definition px_cfg (p : proxy) : cfg :=
  let cluster := match px_cluster p with Some c => c | None => [] end in
  cluster_config_for cluster (px_front p * 1000) (px_back p * 1000) (cache_get (px_cache p) cluster).

(** [effective_max_flows] (udp.rs): an explicit value is used as is; 0 means the RLIMIT-derived value,
    capped by the slab headroom when there is one, never below 1 *)
Definition effective_max_flows (configured headroom auto : N) : N :=
  if N.eqb configured 0 then
    (if N.eqb headroom 0 then auto else N.max (N.min auto headroom) 1)
  else configured.

(** [clamp_max_rx] (udp.rs) *)
Definition clamp_max_rx (configured buffer_size : N) : N :=
  if N.eqb buffer_size 0 then configured else N.min configured buffer_size.

(** [UdpProxy::add_udp_front] *)
Definition px_add_front (p : proxy) (c : cid) : proxy * list input :=
  let p' := mkproxy (px_front p) (px_back p) (px_max_flows p) (px_max_rx p) (Some c) (Some c) (px_cache p)
                    (px_buffer_size p) (px_max_conn p) (px_auto p) in
  (p', [ISetCluster (px_cfg p')]).

(** [UdpProxy::remove_udp_front]: the manager goes back to [ClusterConfig::default()] *)
Definition px_remove_front (p : proxy) : proxy * list input :=
  (mkproxy (px_front p) (px_back p) (px_max_flows p) (px_max_rx p) None None (px_cache p)
           (px_buffer_size p) (px_max_conn p) (px_auto p),
   [ISetCluster default_cfg]).

(** [UdpProxy::apply_cluster] steps 1c and 2: cache the block (or clear it), then rebuild the configuration of
    the manager if the listener routes to this cluster *)
Definition px_add_cluster (p : proxy) (c : cid) (u : option udp_block) : proxy * list input :=
  let p' := mkproxy (px_front p) (px_back p) (px_max_flows p) (px_max_rx p) (px_cluster p) (px_route p)
                    (cache_set (px_cache p) c u) (px_buffer_size p) (px_max_conn p) (px_auto p) in
  (p', match px_route p with
       | Some r => if cid_eqb r c then [ISetCluster (px_cfg p')] else []
       | None => []
       end).

(** [RequestType::RemoveCluster] in [UdpProxy::notify]: the manager goes back to the default configuration and
    the cached block is dropped; [cluster_for_listener] and [listener.cluster_id] are NOT touched *)
Definition px_remove_cluster (p : proxy) (c : cid) : proxy * list input :=
  (mkproxy (px_front p) (px_back p) (px_max_flows p) (px_max_rx p) (px_cluster p) (px_route p)
           (cache_remove (px_cache p) c) (px_buffer_size p) (px_max_conn p) (px_auto p),
   match px_route p with
   | Some r => if cid_eqb r c then [ISetCluster default_cfg] else []
   | None => []
   end).

(** [UdpProxy::update_listener] (+ [UdpListener::update_config]): patch the listener, clamp the stored rx size,
    then SetCluster / SetMaxFlows / SetMaxRxDatagramSize in this order *)
Definition px_update_listener (p : proxy) (pa : patch) : proxy * list input :=
  let ov (o : option N) (d : N) := match o with Some v => v | None => d end in
  let rx := clamp_max_rx (ov (pa_max_rx pa) (px_max_rx p)) (px_buffer_size p) in
  let p' := mkproxy (ov (pa_front pa) (px_front p)) (ov (pa_back pa) (px_back p))
                    (ov (pa_max_flows pa) (px_max_flows p)) rx
                    (px_cluster p) (px_route p) (px_cache p) (px_buffer_size p) (px_max_conn p) (px_auto p) in
  (p', [ISetCluster (px_cfg p');
        ISetMaxFlows (effective_max_flows (px_max_flows p') (px_max_conn p') (px_auto p'));
        ISetMaxRx (clamp_max_rx rx (px_buffer_size p'))]).

(** feeding a list of configuration inputs to the manager (no output is produced by any of them) *)
Section Feed.
Variable hash : bool -> addr -> N.
Fixpoint feed (m : mgr) (now : N) (l : list input) : mgr :=
  match l with
  | [] => m
  | i :: l' => feed (fst (step hash m now i)) now l'
  end.
End Feed.

Inductive is_config : input -> Prop :=
| ic_cluster c : is_config (ISetCluster c)
| ic_flows n : is_config (ISetMaxFlows n)
| ic_rx n : is_config (ISetMaxRx n).

Lemma feed_config_spares_flows hash m now l :
  Forall is_config l ->
  m_flows (feed hash m now l) = m_flows m /\ m_table (feed hash m now l) = m_table m /\
  m_armed (feed hash m now l) = m_armed m /\ m_draining (feed hash m now l) = m_draining m.
Proof.
  intros H. revert m. induction H as [|i l Hi _ IH]; intros m; simpl; [auto|].
  destruct (IH (fst (step hash m now i))) as (A & B & C & D).
  rewrite A, B, C, D. destruct Hi; simpl; auto.
Qed.
