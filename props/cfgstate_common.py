"""Shared by C05 / C06 / C07 (one Coq model: coq/CfgState).

* T-steps translator: reads `update_{http,https,tcp,udp}_listener`,
  `validate_h2_flood_knobs_{http,https}`, `merge_custom_http_answers`,
  `add_certificate`, `replace_certificate` in /repo/command/src/state.rs and
  (re)writes coq/CfgState/Gen.v: the ordered step lists the model *interprets*
  (so a field added upstream, or a validation moved below an assignment, changes
  the model on the next run and the `atomic ... = true` lemmas decide whether
  the rejected-command theorem still applies).
* the seeded case generator for the `ConfigState` op language understood by
  harness/src/cfgstate.rs and coq/CfgState/Run.v.
"""
import os, re, subprocess
import vlib
from vlib import Case

STATE_RS = os.path.join(vlib.REPO, "command/src/state.rs")
GEN_V = os.path.join(vlib.COQ, "CfgState", "Gen.v")


class TieError(Exception):
    """the source was read and says something the model cannot follow (hard failure)"""


class Unreadable(TieError):
    """a construct is no longer recognised: nothing was read (soft: snapshot + differential run)"""


def fn_body(src, name):
    m = re.search(r"\bfn\s+%s\s*(?:<[^>]*>)?\s*\(" % re.escape(name), src)
    if not m:
        raise Unreadable("fn %s not found" % name)
    i = src.index("{", _sig_end(src, m.end()))
    return src[i + 1:_match(src, i)]


def _sig_end(src, i):
    # skip the parameter list and return type up to the body's opening brace
    depth = 1
    while depth:
        c = src[i]
        depth += (c == "(") - (c == ")")
        i += 1
    return i


def _match(src, i):
    assert src[i] == "{"
    depth = 0
    j = i
    while True:
        c = src[j]
        if c == "{":
            depth += 1
        elif c == "}":
            depth -= 1
            if depth == 0:
                return j
        j += 1


def strip_comments(s):
    s = re.sub(r"//[^\n]*", "", s)
    return re.sub(r"/\*.*?\*/", "", s, flags=re.S)


IFLET = re.compile(r"if\s+let\s+Some\(\s*(?:ref\s+)?(\w+)\s*\)\s*=\s*&?\s*patch\.(\w+)(?:\.as_ref\(\)|\.as_deref\(\)|\.clone\(\))?\s*\{")


def update_steps(src, fname):
    """-> list of step tuples, in source order:
       ('knobs',) ('validate', field) ('lookup',) ('assign', field, wrap) ('merge', field)"""
    body = strip_comments(fn_body(src, fname))
    steps = []
    i = 0
    n = len(body)
    looked = False
    lvar = "listener"
    while i < n:
        rest = body[i:]
        m = re.match(r"\s+", rest)
        if m:
            i += m.end()
            continue
        m = re.match(r"validate_h2_flood_knobs_\w+\(patch\)\?;", rest)
        if m:
            steps.append(("knobs",))
            i += m.end()
            continue
        # a pure binding of the address (any spelling that cannot fail and touches nothing)
        m = re.match(r"let\s+(\w+)\s*(?::\s*SocketAddr)?\s*=\s*(?:patch\.address\.into\(\)|SocketAddr::from\(patch\.address\))\s*;", rest)
        if m:
            addr_var = m.group(1)
            i += m.end()
            continue
        # the lookup: `let l = self.x_listeners.get_mut(&a).ok_or[_else](..)?;` or `let Some(l) = .. else { .. return Err .. };`
        m = re.match(r"let\s+(\w+)\s*=\s*self\s*\.\s*\w+_listeners\s*\.\s*get_mut\(&\s*(\w+)\)\s*\.\s*ok_or(?:_else)?\(", rest)
        if m:
            j = rest.index(";", _paren_end(rest, m.end() - 1))
            if not rest[:j].rstrip().endswith("?"):
                raise Unreadable("%s: listener lookup without `?`" % fname)
            lvar = m.group(1)
            steps.append(("lookup",))
            looked = True
            i += j + 1
            continue
        m = re.match(r"let\s+Some\(\s*(\w+)\s*\)\s*=\s*self\s*\.\s*\w+_listeners\s*\.\s*get_mut\(&\s*(\w+)\)\s*else\s*\{", rest)
        if m:
            ob = m.end() - 1
            cb = _match(rest, ob)
            if not re.search(r"return\s+Err", rest[ob:cb]):
                raise Unreadable("%s: `let Some(..) = get_mut(..) else` does not return an error" % fname)
            j = rest.index(";", cb)
            lvar = m.group(1)
            steps.append(("lookup",))
            looked = True
            i += j + 1
            continue
        m = IFLET.match(rest)
        if m:
            var, field = m.group(1), m.group(2)
            ob = m.end() - 1
            cb = _match(rest, ob)
            inner = rest[ob + 1:cb]
            for st in [x.strip() for x in inner.split(";") if x.strip()]:
                mv = re.fullmatch(r"(validate_\w+)\((.*)\)\?", st, flags=re.S)
                if mv:
                    steps.append(("validate", field))
                    continue
                ma = re.fullmatch(re.escape(lvar) + r"\.(\w+)\s*=\s*(.*)", st, flags=re.S)
                if ma:
                    if ma.group(1) != field:
                        raise TieError("%s: patch.%s assigns listener.%s" % (fname, field, ma.group(1)))
                    if not looked:
                        raise TieError("%s: assignment before the lookup" % fname)
                    rhs = ma.group(2).strip()
                    steps.append(("assign", field, rhs.startswith("Some(")))
                    continue
                mm = re.fullmatch(r"merge_custom_http_answers\(\s*&mut\s+" + re.escape(lvar) + r"\.(\w+)\s*,\s*&?\w+\s*\)", st, flags=re.S)
                if mm:
                    steps.append(("merge", field))
                    continue
                raise Unreadable("%s: statement not understood inside `if let Some(..) = patch.%s`: %s" % (fname, field, st[:80]))
            i += cb + 1
            continue
        m = re.match(r"Ok\(\(\)\)", rest)
        if m:
            i += m.end()
            continue
        raise Unreadable("%s: construct not understood: %s" % (fname, rest[:80].replace("\n", " ")))
    return steps


def _paren_end(s, i):
    assert s[i] == "("
    depth = 0
    while True:
        depth += (s[i] == "(") - (s[i] == ")")
        if depth == 0:
            return i
        i += 1


def _local_macro(body, must_contain, what):
    """name of the macro_rules! defined in `body` whose expansion contains `must_contain`"""
    for m in re.finditer(r"macro_rules!\s+(\w+)\s*\{", body):
        ob = m.end() - 1
        if re.search(must_contain, body[ob:_match(body, ob)]):
            return m.group(1), (m.start(), _match(body, ob) + 1)
    raise Unreadable(what)


def knob_table(src, fname):
    """validate_h2_flood_knobs_*: [(field, minimum)] in source order"""
    body = strip_comments(fn_body(src, fname))
    mac, (m0, m1) = _local_macro(body, r"Some\(\s*0\s*\)", "%s: no local macro testing `Some(0)`" % fname)
    rest = body[:m0] + " " * (m1 - m0) + body[m1:]
    v = r"\w+"
    pat = re.compile(
        r"(?P<mac>\b" + re.escape(mac) + r"!\(\s*patch\.(?P<f1>\w+)\s*,\s*\"\w+\"\s*,?\s*\)\s*;)"
        r"|if\s+let\s+Some\(" + v + r"\)\s*=\s*patch\.(?P<f2>\w+)\s*\{\s*if\s+" + v + r"\s*<\s*(?P<n2>\d+)\s*\{"
        r"|matches!\(\s*patch\.(?P<f3>\w+)\s*,\s*Some\(" + v + r"\)\s+if\s+" + v + r"\s*<\s*(?P<n3>\d+)\s*\)"
        r"|patch\.(?P<f4>\w+)\.(?:is_some_and|map_or)\((?:\s*false\s*,)?\s*\|" + v + r"\|\s*" + v + r"\s*<\s*(?P<n4>\d+)\s*\)")
    out = []
    for m in pat.finditer(rest):
        if m.group("mac"):
            out.append((m.group("f1"), 1))
        else:
            for k in "234":
                if m.group("f" + k):
                    out.append((m.group("f" + k), int(m.group("n" + k))))
    # every rejection site must be one we accounted for (the macro's own + one per explicit minimum)
    n_err = len(re.findall(r"return\s+Err", body))
    want = 1 + sum(1 for f, mn in out if mn != 1)
    if n_err != want or not out:
        raise Unreadable("%s: %d `return Err` sites, %d understood" % (fname, n_err, want))
    return out


def merge_fields(src):
    body = strip_comments(fn_body(src, "merge_custom_http_answers"))
    if not re.search(r"get_or_insert_with\(", body):
        raise Unreadable("merge_custom_http_answers: target no longer initialised with get_or_insert_with(..)")
    mac, _ = _local_macro(body, r"Some\(", "merge_custom_http_answers: no local merge macro")
    out = re.findall(r"\b" + re.escape(mac) + r"!\((\w+)\)\s*;", body)
    if not out:
        raise Unreadable("merge_custom_http_answers: no field merged")
    return out


def _bal(depth=5):
    r = r"[^()]"
    for _ in range(depth):
        r = r"(?:[^()]|\((?:%s)*\))" % r
    return r"\((?:%s)*\)" % r


B = _bal()
CERT_EVENTS = [
    # (regex, event name, kind)   kind: F = fallible (may return Err), M = mutates self.certificates
    (r"\.fingerprint\(\)\s*\.map_err" + B + r"\?", "fingerprint", "F"),
    (r"hex::decode\(&\w+\.old_fingerprint\)\s*\.map_err" + B + r"\?", "old_hex", "F"),
    (r"self\s*\.certificates\s*\.entry" + B + r"\s*\.or_default\(\)", "bucket_create", "M"),
    (r"\.apply_overriding_names\(\)\s*\.map_err" + B + r"\?", "apply_names", "F"),
    (r"self\s*\.certificates\s*\.get_mut\(&\w+\)\s*\.ok_or(?:_else)?" + B + r"\?", "lookup_mut", "F"),
    (r"let\s+Some\(\w+\)\s*=\s*self\s*\.certificates\s*\.get_mut\(&\w+\)\s*else\s*\{[^{}]*return\s+Err[^{}]*(?:\{[^{}]*\}[^{}]*)*\}", "lookup_mut", "F"),
    (r"self\s*\.certificates\s*\.get\(&\w+\)\s*\.ok_or(?:_else)?" + B + r"\?", "lookup_bucket", "F"),
    (r"\.remove\(&\w+\)", "remove_old", "M"),
    (r"calculate_fingerprint" + B + r"\s*\.map_err" + B + r"\?", "new_fingerprint", "F"),
    (r"\b\w+\.insert\(", "insert", "M"),
    (r"return\s+Err\(StateError::ReplaceCertificate\(format!", "postcheck", "F"),
    # the expiration override that comes with a certificate is recorded / forgotten next to it
    (r"self\s*\.set_certificate_expiration" + B, "expiry", "M"),
]


def cert_events(src, fname):
    body = strip_comments(fn_body(src, fname))
    body = re.sub(r"debug_assert(?:_eq)?!\((?:[^()]|\((?:[^()]|\((?:[^()]|\([^()]*\))*\))*\))*\);", "", body)
    found = []
    for rx, name, kind in CERT_EVENTS:
        for m in re.finditer(rx, body, flags=re.S):
            found.append((m.start(), m.end(), name, kind))
    found.sort()
    out, last_end = [], -1
    for st, en, name, kind in found:
        if st < last_end:      # nested inside a longer match
            continue
        out.append((name, kind))
        last_end = en
    # every `?` must be inside a recognised fallible event
    q = body.count("?")
    covered = 0
    last_end = -1
    for st, en, name, kind in found:
        if st < last_end:
            continue
        covered += body[st:en].count("?")
        last_end = en
    if q != covered:
        raise Unreadable("%s: %d `?` operators, only %d inside recognised constructs" % (fname, q, covered))
    return out


def coq_str(s):
    return '"%s"' % s


SNAPSHOT = os.path.join(vlib.ROOT, "props", "cfgstate_facts.json")


def read_facts(src):
    """-> (summary, unreadable messages).  A piece that is no longer recognised is taken from the committed
    snapshot of the facts last read (props/cfgstate_facts.json; `python3 props/cfgstate_common.py --snapshot`)."""
    import json
    try:
        snap = json.load(open(SNAPSHOT))
    except Exception:
        snap = {}
    summary, unreadable = {}, []

    def piece(key, f):
        try:
            v = f()
            summary[key] = json.loads(json.dumps(v))     # tuples -> lists, as in the snapshot
        except Unreadable as ex:
            if not (key.startswith("steps_") or key.startswith("knobs_")):
                # no soft pin without a proof that the differential observes the fact: hard
                raise TieError("%s: %s" % (key, ex))
            if key not in snap:
                raise TieError("%s unreadable (%s) and no snapshot" % (key, ex))
            summary[key] = snap[key]
            unreadable.append("unreadable: %s: %s; the model keeps the facts last read (props/cfgstate_facts.json)" % (key, ex))

    piece("knobs_http", lambda: knob_table(src, "validate_h2_flood_knobs_http"))
    piece("knobs_https", lambda: knob_table(src, "validate_h2_flood_knobs_https"))
    piece("merge_fields", lambda: merge_fields(src))
    for kind in ("http", "https", "tcp", "udp"):
        piece("steps_" + kind, lambda kind=kind: update_steps(src, "update_%s_listener" % kind))
    for fn in ("add_certificate", "replace_certificate"):
        piece("events_" + fn, lambda fn=fn: cert_events(src, fn))
    return summary, unreadable


def gen_v_text(src):
    summary, unreadable = read_facts(src)
    lines = ["(** GENERATED by props/cfgstate_common.py from /repo/command/src/state.rs — do not edit. *)",
             "From Coq Require Import List NArith String.",
             "From SV Require Import CfgState.Steps.",
             "Import ListNotations.",
             "Open Scope string_scope.",
             "Open Scope N_scope.", ""]
    for kind in ("http", "https"):
        tbl = summary["knobs_" + kind]
        lines.append("Definition knobs_%s : list (string * N) :=\n  [%s]." % (
            kind, ";\n   ".join("(%s, %d)" % (coq_str(f), mn) for f, mn in tbl)))
    mf = summary["merge_fields"]
    lines.append("Definition answers_fields : list string :=\n  [%s]." % "; ".join(coq_str(f) for f in mf))
    for kind in ("http", "https", "tcp", "udp"):
        st = summary["steps_" + kind]
        items = []
        for s in st:
            if s[0] == "knobs":
                if kind not in ("http", "https"):
                    raise TieError("update_%s_listener validates flood knobs: no table" % kind)
                items.append("SKnobs knobs_%s" % kind)
            elif s[0] == "validate":
                items.append("SValidate %s" % coq_str(s[1]))
            elif s[0] == "lookup":
                items.append("SLookup")
            elif s[0] == "assign":
                items.append("SAssign %s %s" % (coq_str(s[1]), "true" if s[2] else "false"))
            elif s[0] == "merge":
                items.append("SMerge %s answers_fields" % coq_str(s[1]))
        lines.append("Definition steps_%s : list step :=\n  [%s]." % (kind, ";\n   ".join(items)))
    for fn in ("add_certificate", "replace_certificate"):
        ev = summary["events_" + fn]
        lines.append("Definition events_%s : list (string * bool * bool) :=\n  [%s]." % (
            fn, ";\n   ".join("(%s, %s, %s)" % (coq_str(n), "true" if "F" in k else "false", "true" if "M" in k else "false") for n, k in ev)))
    return "\n".join(lines) + "\n", summary, unreadable


# the event order the hand-written certificate handlers of CfgState/Model.v mirror
MODEL_CERT_EVENTS = {
    "add_certificate": ["fingerprint", "apply_names", "bucket_create", "insert", "expiry"],
    "replace_certificate": ["old_hex", "new_fingerprint", "apply_names", "lookup_mut", "remove_old", "insert", "lookup_bucket", "postcheck", "expiry", "expiry"],
}


def _before(body, first_rx, then_rx):
    """True / False when both constructs are found (is `first` before `then`?), None when one is not recognised"""
    a, b = re.search(first_rx, body), re.search(then_rx, body)
    if not a or not b:
        return None
    return a.start() < b.start()


def translate():
    fails = []
    src = open(STATE_RS).read()
    try:
        text, summary, unreadable = gen_v_text(src)
    except TieError as ex:
        return ["T-steps: " + str(ex)], {}
    fails += unreadable
    vlib.write_if_changed(GEN_V, text)
    for kind in ("http", "https"):
        try:
            body = strip_comments(fn_body(src, "add_%s_listener" % kind))
            order = _before(body, r"validate_sozu_id_header\(", r"\.entry\(|\.insert\(")
        except TieError:
            order = None
        if order is None:
            fails.append("T-steps: add_%s_listener: validation of sozu_id_header / map insertion not recognised; the model validates before inserting" % kind)
        elif not order:
            fails.append("T-steps: add_%s_listener no longer validates listener.sozu_id_header before the map entry (model: add_listener)" % kind)
    for kind in ("tcp", "udp"):
        try:
            body = strip_comments(fn_body(src, "add_%s_frontend" % kind))
            order = _before(body, r"(?:cluster_id|\w+)\s*!=\s*&?\s*\w*\.?cluster_id|&?\w+\.cluster_id\s*!=\s*\w+", r"\.or_default\(\)|\.or_insert")
        except TieError:
            order = None
        if order is None:
            fails.append("T-steps: add_%s_frontend: the other-cluster test / bucket creation not recognised; the model refuses an address bound to another cluster before creating the bucket" % kind)
        elif not order:
            fails.append("T-steps: add_%s_frontend no longer refuses an address bound to another cluster before creating the bucket (model: addr_elsewhere)" % kind)
    for fn, want in MODEL_CERT_EVENTS.items():
        got = [n for n, k in summary["events_" + fn]]
        if got != want:
            fails.append("T-steps: %s performs %s; coq/CfgState/Model.v mirrors %s" % (fn, got, want))
    return fails, summary


TRANSLATE_FALLBACK = ("soft pins: the step lists of the four update_*_listener handlers and the flood-knob minima. Both are observed by "
                      "the differential run: every patch is applied to the real listener and the whole listener is dumped field by "
                      "field and compared with the model (a dropped / extra / reordered assignment, or a validation moved below an "
                      "assignment, changes a dump or makes the C07 oracle report a rejected patch that changed a field); the "
                      "generator draws knob values at minimum-1, minimum, minimum+1 so a changed minimum flips a result code. "
                      "Tested with breaking variants in unreadable spellings (harmless/ in the report). Every other pin is hard")


if __name__ == "__main__":
    import json, sys
    if "--snapshot" in sys.argv:
        summ, unread = read_facts(open(STATE_RS).read())
        if unread:
            sys.exit("cannot snapshot: " + "; ".join(unread))
        json.dump(summ, open(SNAPSHOT, "w"), indent=1, sort_keys=True)
        print("wrote", SNAPSHOT)


# ---------------------------------------------------------------------------
# pools / oracle facts (asked from the real code through the driver)

_FACTS = None


def facts():
    """what the real parsers / validators say about the fixed pools of harness/src/cfgstate.rs"""
    global _FACTS
    if _FACTS is not None:
        return _FACTS
    exe = None
    for b in ("c07", "c05", "c06"):
        p = vlib.harness_path(b)
        if os.path.exists(p):
            exe = p
            break
    if exe is None:
        raise RuntimeError("no ConfigState driver built yet")
    out = subprocess.run([exe, "--oracle"], capture_output=True, text=True, timeout=60).stdout
    f = dict(cert={}, hc={}, sozu_id={}, alpn={}, hsts={}, sizes={}, fields={})
    for line in out.splitlines():
        w = line.split()
        if not w:
            continue
        if w[0] == "cert":
            f["cert"][int(w[1])] = (int(w[2]), int(w[3]), [int(x) for x in w[4:]])
        elif w[0] in ("hc", "sozu_id", "alpn", "hsts"):
            f[w[0]][int(w[1])] = int(w[2])
        elif w[0] == "sizes":
            for k, v in zip(w[1::2], w[2::2]):
                f["sizes"][k] = int(v)
        elif w[0] == "fields":
            f["fields"][int(w[1])] = [(x.split("=")[0], int(x.split("=")[1])) for x in w[2:]]
    _FACTS = f
    return f


KINDS = ("http", "https", "tcp", "udp")


def oracle_ops(pems=None, hcs=None):
    F = facts()
    ops = []
    for i in sorted(F["cert"] if pems is None else pems):
        fp, ok, names = F["cert"][i]
        ops.append(["oracle_cert", i, fp, ok] + names)
    for v in sorted(F["hc"] if hcs is None else hcs):
        ops.append(["oracle_hc", v, F["hc"][v]])
    return ops


def add_listener(kind, addr, active=0, rest=0, **over):
    F = facts()
    sid = over.get("sozu_id_header", dict(F["fields"][kind]).get("sozu_id_header", 0))
    sid_ok = 1 if (kind > 1 or sid == 0) else F["sozu_id"][(sid - 1) % len(F["sozu_id"])]
    op = ["add_listener", kind, addr, active, rest, sid_ok]
    names = [n for n, _ in F["fields"][kind]]
    for k in over:
        assert k in names, k
    for n, d in F["fields"][kind]:
        op += [n, over.get(n, d)]
    return op


def patch_ok(name, v):
    F = facts()
    if name == "sozu_id_header":
        return F["sozu_id"][v % len(F["sozu_id"])]
    if name == "alpn_protocols":
        return F["alpn"][v % len(F["alpn"])]
    if name == "hsts":
        return F["hsts"][v % len(F["hsts"])]
    return 1


def update_listener(kind, addr, patch):
    op = ["update_listener", kind, addr]
    for n, v in patch:
        op += [n, v, patch_ok(n, v)]
    return op


# ---------------------------------------------------------------------------
# seeded generators (every random choice from rng)

_SUMMARY = None


def summary():
    global _SUMMARY
    if _SUMMARY is None:
        _SUMMARY = read_facts(open(STATE_RS).read())[0]
    return _SUMMARY


def patchable(kind):
    """[(field, minimum or None, validated?)] of update_<kind>_listener, from the translator"""
    S = summary()
    k = KINDS[kind]
    mins = dict(S.get("knobs_" + k, []))
    validated = {s[1] for s in S["steps_" + k] if s[0] == "validate"}
    out = []
    for s in S["steps_" + k]:
        if s[0] == "assign":
            out.append((s[1], mins.get(s[1]), s[1] in validated))
        elif s[0] == "merge":
            out.append((s[1], None, False))
    return out


NUMS = [0, 1, 2, 3, 7, 60, 4294967295]


def patch_value(rng, name, want_bad=None):
    F = facts()
    if name == "sozu_id_header":
        good = [i for i, ok in F["sozu_id"].items() if ok]
        bad = [i for i, ok in F["sozu_id"].items() if not ok]
        return rng.choice(bad if want_bad else good) if want_bad is not None else rng.choice(good + bad)
    if name == "alpn_protocols":
        good = [i for i, ok in F["alpn"].items() if ok]
        bad = [i for i, ok in F["alpn"].items() if not ok]
        return rng.choice(bad if want_bad else good) if want_bad is not None else rng.choice(good + bad)
    if name == "hsts":
        good = [i for i, ok in F["hsts"].items() if ok]
        bad = [i for i, ok in F["hsts"].items() if not ok]
        return rng.choice(bad if want_bad else good) if want_bad is not None else rng.choice(good + bad)
    if name == "public_address":
        return rng.randrange(4)
    if name in ("expect_proxy", "strict_sni_binding", "disable_http11", "elide_x_real_ip", "send_x_real_ip"):
        return rng.randrange(2)
    if name == "sticky_name":
        return rng.choice([0, 1, 2])
    if name.startswith("answer_"):
        return rng.choice([0, 8, 9])
    if name == "http_answers":
        return 0
    if "lifetime" in name and rng.random() < 0.2:
        return 1 << 40
    mn = dict(summary().get("knobs_http", []) + summary().get("knobs_https", [])).get(name)
    if mn is not None:
        if want_bad is True:
            return rng.choice([0, mn - 1])
        if want_bad is False:
            return rng.choice([mn, mn, mn + 1, 7, 60, 4294967295])
        return rng.choice([0, mn - 1, mn, mn + 1, 7])
    if want_bad is True:
        return 0
    if want_bad is False:
        return rng.choice([1, 2, 3, 7, 60, 4294967295])
    return rng.choice(NUMS)


def rand_patch(rng, kind, bad_rate=0.35):
    fields = patchable(kind)
    n = rng.choice([0, 1, 1, 2, 2, 3, 4, 6])
    chosen = rng.sample(fields, min(n, len(fields)))
    patch = {}
    for (name, mn, val) in chosen:
        risky = mn is not None or val
        wb = None
        if risky:
            wb = rng.random() < bad_rate
        patch[name] = patch_value(rng, name, wb)
        if name == "http_answers":
            for sub in rng.sample(summary()["merge_fields"] + ["answer_429"], rng.choice([0, 1, 2])):
                patch[sub] = patch_value(rng, sub)
    items = list(patch.items())
    rng.shuffle(items)
    return items


def rand_listener(rng, kind, addr):
    F = facts()
    over = {}
    names = [n for n, _ in F["fields"][kind]]
    for n in rng.sample(names, rng.choice([0, 0, 1, 2, 4])):
        if n == "http_answers":
            over[n] = rng.randrange(2)
        elif n.startswith("answer_"):
            over[n] = rng.choice([0, 1, 9, 10])
            if over[n]:
                over["http_answers"] = 1
        elif n == "sozu_id_header":
            over[n] = rng.choice([0, 4, 4, 5, 5, 1, 6, 11, 12])
        elif n == "alpn_protocols":
            over[n] = rng.randrange(4)
        elif n == "public_address":
            over[n] = rng.randrange(5)
        elif n in ("expect_proxy",):
            over[n] = rng.randrange(2)
        elif n in ("strict_sni_binding", "disable_http11", "elide_x_real_ip", "send_x_real_ip"):
            over[n] = rng.randrange(3)
        elif n == "hsts":
            over[n] = rng.randrange(5)
        elif n == "sticky_name":
            over[n] = rng.choice([0, 1, 2])
        else:
            over[n] = rng.choice([0, 1, 5, 61])
    if over.get("http_answers") == 0:
        for n in names:
            if n.startswith("answer_"):
                over[n] = 0
    rest = rng.randrange(4) if kind < 2 else 0
    return add_listener(kind, addr, rng.choice([0, 0, 1]), rest, **over)


def _key_escapes():
    """does RequestHttpFrontend::to_string escape `;` inside its components? (read from the source: until it does,
    two distinct frontends can share a key and the separator characters stay out of the generated cases)"""
    try:
        src = open(os.path.join(vlib.REPO, "command/src/request.rs")).read()
        body = fn_body(strip_comments(src), "fmt", after="impl Display for RequestHttpFrontend") if False else src[src.index("impl Display for RequestHttpFrontend"):][:1500]
        return "key_component(" in body
    except Exception:
        return False


KEY_ESCAPES_SEPARATORS = _key_escapes()


def rand_front_args(rng):
    # hosts / paths / methods: the first pool entries mostly, the ones carrying `;` and `\\` (separator of the
    # frontend key and its escape character) one time in five -- once the key escapes them (KEY_ESCAPES_SEPARATORS)
    if not KEY_ESCAPES_SEPARATORS:
        return [rng.randrange(3), rng.randrange(3), rng.choice([0, 0, 0, 1, 2, 2, 7]), rng.randrange(3),
                rng.choice([0, 0, 1, 2, 3, 4, 4]), rng.choice([0, 1, 1, 2, 3]), rng.choice([0, 1, 2, 2, 2, 5]),
                rng.choice([0, 0, 1, 2, 13, 40, 161, 323])]
    return [rng.randrange(3), rng.choice([0, 1, 2, 0, 1, 2, 2, 5]), rng.choice([0, 0, 0, 1, 2, 2, 7]),
            rng.choice([0, 1, 2, 0, 1, 2, 2, 2, 5, 5, 6, 7]),
            rng.choice([0, 0, 1, 1, 2, 3, 4, 5, 6]), rng.choice([0, 1, 1, 2, 3]), rng.choice([0, 1, 2, 2, 2, 5]),
            rng.choice([0, 0, 1, 2, 13, 40, 161, 323])]


def rand_op(rng, weights=None):
    F = facts()
    r = rng.random()
    c = rng.randrange(3)
    a = rng.choice([0, 0, 1, 1, 2, 3])
    kind = rng.randrange(4)
    if r < 0.08:
        return ["add_cluster", c, rng.choice([0, 0, 5, 37, 66, 143]), rng.choice([0, 0, 1, 2, 3, 4, 5, 6, 8])]
    if r < 0.11:
        return ["remove_cluster", c]
    if r < 0.15:
        return ["set_hc", c, rng.randrange(8)]
    if r < 0.17:
        return ["remove_hc", c]
    if r < 0.27:
        return rand_listener(rng, kind, a)
    if r < 0.31:
        return ["remove_listener", rng.choice([kind, kind, kind, 9]), a]
    if r < 0.36:
        return ["activate", rng.choice([kind, kind, kind, kind, 4]), a]
    if r < 0.39:
        return ["deactivate", rng.choice([kind, kind, kind, kind, 7]), a]
    if r < 0.51:
        return update_listener(kind, a, rand_patch(rng, kind))
    if r < 0.60:
        return ["add_front", rng.randrange(2)] + rand_front_args(rng)
    if r < 0.64:
        return ["remove_front", rng.randrange(2)] + rand_front_args(rng)
    if r < 0.70:
        return ["add_tfront", rng.randrange(2), c, rng.randrange(3), rng.randrange(3)]
    if r < 0.73:
        return ["remove_tfront", rng.randrange(2), c, rng.randrange(3), rng.randrange(3)]
    if r < 0.82:
        return ["add_backend", c, rng.randrange(3), rng.randrange(3), rng.choice([0, 0, 1, 2]), rng.choice([0, 0, 1, 101]), rng.randrange(3)]
    if r < 0.86:
        return ["remove_backend", c, rng.randrange(3), rng.randrange(3)]
    ncert = len(F["cert"])
    nnames = F["sizes"]["names"]
    names = rng.choice([[], [], [], [10], [10, 11], [0]])
    if r < 0.92:
        return ["add_cert", rng.randrange(3), rng.randrange(ncert), rng.randrange(24)] + names
    if r < 0.94:
        return ["remove_cert", rng.randrange(3), rng.choice([0, 1, 2, 3, 6, 7, 8, 9, 900])]
    if r < 0.98:
        return ["replace_cert", rng.randrange(3), rng.randrange(ncert), rng.randrange(24), rng.choice([0, 1, 1, 2, 3, 7, 8, 900])] + names
    return [rng.choice(["noop", "undisp", "empty"]), rng.randrange(3)]


def history(rng, n):
    return [rand_op(rng) for _ in range(n)]


def corpus_cases(pid):
    d = os.path.join(vlib.ROOT, "corpus", pid)
    out = []
    if os.path.isdir(d):
        for f in sorted(os.listdir(d)):
            if f.endswith(".case"):
                for c in vlib.parse_cases(open(os.path.join(d, f)).read()):
                    c.id = "k" + c.id
                    out.append(c)
    return out


DISPATCH_OPS = {"add_cluster", "remove_cluster", "set_hc", "remove_hc", "add_listener", "remove_listener", "activate",
                "deactivate", "update_listener", "add_front", "remove_front", "add_tfront", "remove_tfront",
                "add_backend", "remove_backend", "add_cert", "remove_cert", "replace_cert", "noop", "undisp", "empty"}
SHRINK_KEEP = ("oracle_cert", "oracle_hc", "save", "load", "diff", "replay", "dump", "framing")

COMMON_ASSUMPTIONS = [
    "third-party behaviour is a parameter of the model and universally quantified in the theorems: PEM/X.509 parsing and SHA-256 (fingerprint, intrinsic names), validate_health_check_config, the string grammars of validate_sozu_id_header / validate_alpn_protocols (verdict passed as data, computed by the real validators at run time)",
    "identifiers are modelled as numbers whose order is the Rust order on the generator's pools (equal-length cluster/backend/sticky ids, address pool sorted by SocketAddr order); the http front map key (RequestHttpFrontend::to_string) is modelled as the tuple (address, hostname, kind, path, method), of which it is an injective image since fb79355 (`;` and the escape character are escaped inside the components; strings carrying them are in the pools and drawn as long as the source still escapes)",
    "the opaque payload of an object (every non-identity field: tags, redirect policy, headers, HSTS, TLS versions, answers ...) is compared by equality only; the driver maps the real struct back to the payload index by exhaustive search over the pool, printing POISON when there is none",
    "request_counts (the census) is outside the model and outside the compared state",
]
COMMON_TRUSTED = [
    "translator props/cfgstate_common.py (T-steps): regenerates coq/CfgState/Gen.v from update_{http,https,tcp,udp}_listener, validate_h2_flood_knobs_*, merge_custom_http_answers and the event order of add_certificate / replace_certificate on every run",
    "harness/src/cfgstate.rs: pools, request constructors, canonical dump of the real ConfigState",
]
