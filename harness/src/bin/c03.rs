//! C03 driver: request boundaries.
//!   op h2 <end_stream> (<name> <value>)*  — HPACK block through the REAL
//!       `pkawa::handle_header` (no editing callbacks), then the real kawa H1
//!       block converter; the written bytes are re-read by a strict RFC 9112
//!       reader (implemented here, tied to the Coq one by the correspondence).
//!   op h1 <raw>  (after an optional `cuts`) — raw client bytes through the REAL
//!       kawa H1 parser with the real `HttpContext` callbacks, message after
//!       message as mux/h1.rs does for keep-alive/pipelining, serialised by the
//!       real block converter; what kawa understood (count, method, target,
//!       host, body length) is compared with what the strict reader reads in
//!       the bytes kawa wrote.
use std::net::SocketAddr;

use kawa::{AsBuffer, BodySize, Kawa, Kind, OutBlock};
use rusty_ulid::Ulid;
use sozu_lib::pool::{Checkout, Pool};
use sozu_lib::protocol::http::editor::HttpContext;
use sozu_lib::protocol::mux::verif_hdr::{handle_header, handle_trailer, Prioriser};
use sozu_lib::Protocol;
use verif_harness::*;

type K = Kawa<Checkout>;
type HL = Vec<(Vec<u8>, Vec<u8>)>;

// ---------------------------------------------------------------- strict reader
#[derive(Debug, Clone, PartialEq)]
struct Req {
    method: Vec<u8>,
    target: Vec<u8>,
    host: Vec<u8>,
    headers: HL,
    body: Vec<u8>,
    trailers: HL,
}

fn is_tchar(b: u8) -> bool {
    b.is_ascii_alphanumeric() || b"!#$%&'*+-.^_`|~".contains(&b)
}
fn is_vbyte(b: u8) -> bool {
    b == 9 || (32..=126).contains(&b) || b >= 128
}
fn take_line(s: &[u8]) -> Option<(&[u8], &[u8])> {
    for i in 0..s.len() {
        if s[i] == 13 {
            return if s.get(i + 1) == Some(&10) { Some((&s[..i], &s[i + 2..])) } else { None };
        }
        if s[i] == 10 {
            return None;
        }
    }
    None
}
fn trim_ows(v: &[u8]) -> &[u8] {
    let s = v.iter().position(|c| *c != b' ' && *c != b'\t').unwrap_or(v.len());
    let e = v.iter().rposition(|c| *c != b' ' && *c != b'\t').map_or(s, |p| p + 1);
    &v[s..e]
}
fn parse_field(line: &[u8]) -> Option<(Vec<u8>, Vec<u8>)> {
    let n = line.iter().position(|b| !is_tchar(*b)).unwrap_or(line.len());
    if n == 0 || line.get(n) != Some(&b':') {
        return None;
    }
    let v = &line[n + 1..];
    if !v.iter().all(|b| is_vbyte(*b)) {
        return None;
    }
    Some((line[..n].to_vec(), trim_ows(v).to_vec()))
}
fn read_headers(mut s: &[u8]) -> Option<(HL, &[u8])> {
    let mut hs = vec![];
    loop {
        let (l, r) = take_line(s)?;
        s = r;
        if l.is_empty() {
            return Some((hs, s));
        }
        hs.push(parse_field(l)?);
    }
}
enum Framing {
    Len(u128),
    Chunked,
}
fn values<'a>(hs: &'a HL, n: &[u8]) -> Vec<&'a Vec<u8>> {
    hs.iter().filter(|(k, _)| k.eq_ignore_ascii_case(n)).map(|(_, v)| v).collect()
}
fn framing_of(hs: &HL) -> Option<Framing> {
    let cls = values(hs, b"content-length");
    let tes = values(hs, b"transfer-encoding");
    match (tes.len(), cls.len()) {
        (0, 0) => Some(Framing::Len(0)),
        (0, _) => {
            if cls.iter().all(|v| !v.is_empty() && v.iter().all(|b| b.is_ascii_digit())) && cls.iter().all(|v| *v == cls[0]) {
                let mut n: u128 = 0;
                for b in cls[0].iter() {
                    n = n.checked_mul(10)?.checked_add((*b - b'0') as u128)?;
                }
                Some(Framing::Len(n))
            } else {
                None
            }
        }
        (1, 0) => {
            if tes[0].eq_ignore_ascii_case(b"chunked") {
                Some(Framing::Chunked)
            } else {
                None
            }
        }
        _ => None,
    }
}
fn read_chunks(mut s: &[u8]) -> Option<(Vec<u8>, HL, &[u8])> {
    let mut body = vec![];
    loop {
        let (l, r) = take_line(s)?;
        if l.is_empty() || !l.iter().all(|b| b.is_ascii_hexdigit()) {
            return None;
        }
        let mut n: u128 = 0;
        for b in l {
            n = n.checked_mul(16)?.checked_add((*b as char).to_digit(16)? as u128)?;
        }
        if n == 0 {
            let (ts, r2) = read_headers(r)?;
            return Some((body, ts, r2));
        }
        let n = usize::try_from(n).ok()?;
        if r.len() < n + 2 || &r[n..n + 2] != b"\r\n" {
            return None;
        }
        body.extend_from_slice(&r[..n]);
        s = &r[n + 2..];
    }
}
fn read_request(s: &[u8]) -> Option<(Req, &[u8])> {
    let (line, r) = take_line(s)?;
    let parts: Vec<&[u8]> = line.split(|b| *b == b' ').collect();
    if parts.len() != 3 {
        return None;
    }
    let (m, t, v) = (parts[0], parts[1], parts[2]);
    if m.is_empty() || !m.iter().all(|b| is_tchar(*b)) || t.is_empty() || !t.iter().all(|b| *b >= 33 && *b != 127) || !(v == b"HTTP/1.1" || v == b"HTTP/1.0") {
        return None;
    }
    let (hs, r1) = read_headers(r)?;
    let hosts = values(&hs, b"host");
    if hosts.len() != 1 {
        return None;
    }
    let host = hosts[0].clone();
    match framing_of(&hs)? {
        Framing::Len(n) => {
            let n = usize::try_from(n).ok()?;
            if r1.len() < n {
                return None;
            }
            Some((Req { method: m.to_vec(), target: t.to_vec(), host, headers: hs, body: r1[..n].to_vec(), trailers: vec![] }, &r1[n..]))
        }
        Framing::Chunked => {
            let (b, ts, r2) = read_chunks(r1)?;
            Some((Req { method: m.to_vec(), target: t.to_vec(), host, headers: hs, body: b, trailers: ts }, r2))
        }
    }
}
fn strict_h1(mut s: &[u8]) -> Option<Vec<Req>> {
    let mut out = vec![];
    while !s.is_empty() {
        let (rq, r) = read_request(s)?;
        out.push(rq);
        s = r;
    }
    Some(out)
}
fn summary(s: &[u8]) -> Vec<Tok> {
    match strict_h1(s) {
        None => vec![ts("S"), ts("bad")],
        Some(l) => {
            let mut t = vec![ts("S"), tn(l.len())];
            for r in &l {
                t.push(tb(&r.method));
                t.push(tb(&r.target));
                t.push(tb(&r.host));
                t.push(tn(r.headers.len()));
                t.push(tn(r.body.len()));
                t.push(tn(r.trailers.len()));
            }
            t
        }
    }
}

// ---------------------------------------------------------------- real code
fn out_bytes<T: AsBuffer>(kawa: &Kawa<T>) -> Vec<u8> {
    let mut v = vec![];
    for b in kawa.out.iter() {
        if let OutBlock::Store(s) = b {
            v.extend_from_slice(s.data(kawa.storage.buffer()));
        }
    }
    v
}

fn new_ctx() -> HttpContext {
    HttpContext::new(
        Ulid::from(7u128),
        Ulid::from(9u128),
        Protocol::HTTP,
        "127.0.0.1:8080".parse::<SocketAddr>().unwrap(),
        Some("10.0.0.1:4444".parse::<SocketAddr>().unwrap()),
        "SERVERID".into(),
        "Sozu-Id".into(),
        false,
        false,
    )
}

/// What sozu understood of one forwarded request.
struct Understood {
    method: Vec<u8>,
    target: Vec<u8>,
    host: Vec<u8>,
    body: Option<usize>, // None: close-delimited (no framing header)
    complete: bool,
}

fn run(case: &Case, out: &mut Out) {
    let mut pool = Pool::with_capacity(2, 8, 65536);
    let mut cuts: Vec<usize> = vec![];
    for op in &case.ops {
        let a = &op.args;
        match op.name.as_str() {
            "cuts" => {
                cuts = a.iter().map(|t| t.n() as usize).collect();
                out.obs(&[]);
            }
            "h2" => {
                let es = a[0].n() == 1;
                let hs: HL = a[1..].chunks(2).filter(|c| c.len() == 2).map(|c| (c[0].b().to_vec(), c[1].b().to_vec())).collect();
                let mut enc = loona_hpack::Encoder::new();
                let mut block = vec![];
                for (k, v) in &hs {
                    enc.encode_header_into((&k[..], &v[..]), &mut block).unwrap();
                }
                let mut kawa: K = Kawa::new(Kind::Request, kawa::Buffer::new(pool.checkout().unwrap()));
                let mut dec = loona_hpack::Decoder::new();
                let mut prio = Prioriser::default();
                let r = handle_header(&mut dec, &mut prio, 1, &mut kawa, &block, es, &mut kawa::h1::NoCallbacks, 1 << 20, 1000, false);
                if r.is_err() {
                    out.obs(&[ts("reject")]);
                    continue;
                }
                let body_size = kawa.body_size;
                kawa.prepare(&mut kawa::h1::BlockConverter);
                let bytes = out_bytes(&kawa);
                let mut full = bytes.clone();
                if !es {
                    match body_size {
                        BodySize::Length(n) => full.extend(std::iter::repeat(b'x').take(if n > 4096 { 0 } else { n })),
                        _ => full.extend_from_slice(b"0\r\n\r\n"),
                    }
                }
                let mut t = vec![ts("accept"), tb(&bytes)];
                t.extend(summary(&full));
                out.obs(&t);
                // oracle: what was written is exactly one request, the one sozu understood
                let get = |n: &[u8]| hs.iter().find(|(k, _)| k.eq_ignore_ascii_case(n)).map(|(_, v)| v.clone()).unwrap_or_default();
                if !es && matches!(body_size, BodySize::Length(n) if n > 4096) {
                    continue; // body too large to materialise here
                }
                match strict_h1(&full) {
                    Some(l) if l.len() == 1 => {
                        let r = &l[0];
                        if r.method != get(b":method") || r.target != get(b":path") || r.host != trim_ows(&get(b":authority")) {
                            out.viol("h2-h1-differs", "request line / host read by a strict backend differ from the pseudo-headers");
                        }
                        // every regular field of the client is one field of the output, nothing else but framing
                        let mut cl_seen = false;
                        let sent: HL = hs
                            .iter()
                            .filter(|(k, _)| !k.starts_with(b":") && !k.eq_ignore_ascii_case(b"host") && !k.eq_ignore_ascii_case(b"cookie"))
                            .filter(|(k, _)| {
                                // a repeated (equal) content-length is normalised to one field line
                                let is_cl = k.eq_ignore_ascii_case(b"content-length");
                                let keep = !(is_cl && cl_seen);
                                cl_seen |= is_cl;
                                keep
                            })
                            .map(|(k, v)| (k.clone(), trim_ows(v).to_vec()))
                            .collect();
                        let got: HL = r.headers.iter().filter(|(k, _)| !k.eq_ignore_ascii_case(b"host") && !k.eq_ignore_ascii_case(b"cookie")).cloned().collect();
                        let extra: HL = got.iter().filter(|h| !sent.contains(h)).cloned().collect();
                        let framing_only = extra.iter().all(|(k, v)| (k == b"Content-Length" && v == b"0") || (k == b"Transfer-Encoding" && v == b"chunked"));
                        let kept: HL = got.iter().filter(|h| sent.contains(h)).cloned().collect();
                        if kept != sent || !framing_only || extra.len() > 1 {
                            out.viol("h2-h1-headers", "header lines read by a strict backend are not the client's fields (+ one framing field)");
                        }
                        let want_body = match body_size {
                            BodySize::Length(n) if !es && n <= 4096 => n,
                            _ => 0,
                        };
                        if r.body.len() != want_body {
                            out.viol("h2-h1-body", "body length differs");
                        }
                    }
                    Some(l) => out.viol("h2-h1-count", &format!("a strict backend reads {} requests in what sozu wrote for one stream", l.len())),
                    None => out.viol("h2-h1-malformed", &format!("sozu accepted the header list but wrote a request a strict RFC 9112 reader refuses: {:?}", String::from_utf8_lossy(&bytes[..bytes.len().min(120)]))),
                }
            }
            "h2t" => {
                // a request trailer block through the real pkawa::handle_trailer, after an upload head
                // accepted by handle_header (chunked towards HTTP/1.1, or Content-Length framed)
                let lf = a[0].n() == 1;
                let ts_: HL = a[1..].chunks(2).filter(|c| c.len() == 2).map(|c| (c[0].b().to_vec(), c[1].b().to_vec())).collect();
                let mut head: HL = vec![
                    (b":method".to_vec(), b"POST".to_vec()),
                    (b":scheme".to_vec(), b"https".to_vec()),
                    (b":path".to_vec(), b"/".to_vec()),
                    (b":authority".to_vec(), b"x".to_vec()),
                ];
                if lf {
                    head.push((b"content-length".to_vec(), b"0".to_vec()));
                }
                let mut enc = loona_hpack::Encoder::new();
                let mut block = vec![];
                for (k, v) in &head {
                    enc.encode_header_into((&k[..], &v[..]), &mut block).unwrap();
                }
                let mut kawa: K = Kawa::new(Kind::Request, kawa::Buffer::new(pool.checkout().unwrap()));
                let mut dec = loona_hpack::Decoder::new();
                let mut prio = Prioriser::default();
                if handle_header(&mut dec, &mut prio, 1, &mut kawa, &block, false, &mut kawa::h1::NoCallbacks, 1 << 20, 1000, false).is_err() {
                    out.note("invalid-case: the upload head was refused");
                    out.obs(&[ts("reject")]);
                    continue;
                }
                kawa.prepare(&mut kawa::h1::BlockConverter);
                let head_bytes = out_bytes(&kawa);
                let n = head_bytes.len();
                kawa.consume(n);
                let mut tblock = vec![];
                for (k, v) in &ts_ {
                    enc.encode_header_into((&k[..], &v[..]), &mut tblock).unwrap();
                }
                if handle_trailer(&mut kawa, &tblock, true, &mut dec, 1 << 20, 1000, false).is_err() {
                    out.obs(&[ts("reject")]);
                    continue;
                }
                kawa.prepare(&mut kawa::h1::BlockConverter);
                let tail = out_bytes(&kawa);
                // chunked: `0 CRLF` + the trailer section; Content-Length framed: nothing
                let section: Vec<u8> = if lf { vec![] } else { tail.strip_prefix(b"0\r\n").map(|x| x.to_vec()).unwrap_or_else(|| tail.clone()) };
                out.obs(&[ts("accept"), tb(&section)]);
                if !lf && !tail.starts_with(b"0\r\n") {
                    out.viol("h2-h1-trailers", "the trailer section does not start after a last-chunk line");
                }
                if lf && !tail.is_empty() {
                    out.viol("h2-h1-trailers", "bytes were written after a Content-Length framed body");
                }
                // oracle: head + what was written is ONE request for a strict reader, whose trailers are the client's
                let mut full = head_bytes.clone();
                full.extend_from_slice(&tail);
                match strict_h1(&full) {
                    Some(l) if l.len() == 1 => {
                        let want: HL = if lf {
                            vec![]
                        } else {
                            ts_.iter()
                                .filter(|(k, _)| ![&b"x-real-ip"[..], b"x-forwarded-for", b"forwarded", b"x-request-id"].contains(&&k[..]))
                                .map(|(k, v)| (k.clone(), trim_ows(v).to_vec()))
                                .collect()
                        };
                        if l[0].trailers != want {
                            out.viol("h2-h1-trailers", "the trailer fields read by a strict backend are not the client's (attribution names dropped)");
                        }
                    }
                    Some(l) => out.viol("h2-h1-count", &format!("a strict backend reads {} requests in what sozu wrote for one stream with trailers", l.len())),
                    None => out.viol("h2-h1-malformed", &format!("sozu accepted the trailer block but wrote a message a strict RFC 9112 reader refuses: {:?}", String::from_utf8_lossy(&tail[..tail.len().min(120)]))),
                }
            }
            "guard" => {
                // one request built from a header list, through real kawa + HttpContext:
                // does sozu forward it or answer 400?
                let method = a[0].b().to_vec();
                let hs: HL = a[1..].chunks(2).filter(|c| c.len() == 2).map(|c| (c[0].b().to_vec(), c[1].b().to_vec())).collect();
                let mut raw = method.clone();
                raw.extend_from_slice(b" / HTTP/1.1\r\nHost: x\r\n");
                for (k, v) in &hs {
                    raw.extend_from_slice(k);
                    raw.extend_from_slice(b": ");
                    raw.extend_from_slice(v);
                    raw.extend_from_slice(b"\r\n");
                }
                raw.extend_from_slice(b"\r\n");
                let mut kawa: K = Kawa::new(Kind::Request, kawa::Buffer::new(pool.checkout().unwrap()));
                let mut ctx = new_ctx();
                kawa.storage.space()[..raw.len()].copy_from_slice(&raw);
                kawa.storage.fill(raw.len());
                kawa::h1::parse(&mut kawa, &mut ctx);
                let forwarded = !kawa.is_error() && kawa.is_main_phase();
                out.obs(&[ts(if forwarded { "forward" } else { "refuse" })]);
                if forwarded {
                    // what is forwarded must be well-formed for a strict reader (head only)
                    kawa.prepare(&mut kawa::h1::BlockConverter);
                    let b = out_bytes(&kawa);
                    let head_end = b.windows(4).position(|w| w == b"\r\n\r\n").map(|p| p + 2).unwrap_or(b.len());
                    let lines_ok = b[..head_end].split(|c| *c == b'\n').skip(1).all(|l| {
                        let l = l.strip_suffix(b"\r").unwrap_or(l);
                        l.is_empty() || parse_field(l).is_some()
                    });
                    if !lines_ok {
                        out.viol("h1-malformed", &format!("{}: a forwarded field line is not `token: value`", malformed_reason(&b)));
                    }
                }
            }
            "h1" => {
                let raw = a[0].b().to_vec();
                out.obs(&summary(&raw));
                // real kawa, message after message
                let mut kawa: K = Kawa::new(Kind::Request, kawa::Buffer::new(pool.checkout().unwrap()));
                let mut ctx = new_ctx();
                let mut written: Vec<u8> = vec![];
                let mut und: Vec<Understood> = vec![];
                let mut cs: Vec<usize> = cuts.iter().copied().filter(|c| *c > 0 && *c < raw.len()).collect();
                cs.sort();
                cs.dedup();
                cs.push(raw.len());
                let mut pos = 0;
                let mut rejected = false;
                let mut cur: Option<usize> = None; // index in und of the message being forwarded
                let mut guard = 0;
                let mut unframed_bytes = 0usize;
                'feed: for c in cs {
                    let chunk = &raw[pos..c];
                    pos = c;
                    if chunk.len() > kawa.storage.available_space() {
                        out.note("invalid-case: larger than the buffer");
                        break;
                    }
                    kawa.storage.space()[..chunk.len()].copy_from_slice(chunk);
                    kawa.storage.fill(chunk.len());
                    loop {
                        guard += 1;
                        if guard > 200 {
                            break 'feed;
                        }
                        let was_main = kawa.is_main_phase();
                        kawa::h1::parse(&mut kawa, &mut ctx);
                        if kawa.is_error() {
                            rejected = true;
                            break 'feed;
                        }
                        if kawa.is_main_phase() {
                            if !was_main || cur.is_none() {
                                if ctx.method.is_none() || ctx.authority.is_none() || ctx.path.is_none() {
                                    rejected = true;
                                    break 'feed;
                                }
                                let target = match &kawa.detached.status_line {
                                    kawa::StatusLine::Request { uri, .. } => uri.data(kawa.storage.buffer()).to_vec(),
                                    _ => vec![],
                                };
                                und.push(Understood {
                                    method: ctx.method.as_ref().map(|m| m.as_ref().as_bytes().to_vec()).unwrap_or_default(),
                                    target,
                                    host: ctx.authority.clone().unwrap_or_default().into_bytes(),
                                    body: match kawa.body_size {
                                        BodySize::Empty => None,
                                        _ => Some(0),
                                    },
                                    complete: false,
                                });
                                cur = Some(und.len() - 1);
                            }
                            // forward what is parsed so far
                            for b in kawa.blocks.iter() {
                                if let kawa::Block::Chunk(ch) = b {
                                    let i = cur.unwrap();
                                    let n = ch.data.len();
                                    und[i].body = Some(und[i].body.unwrap_or(0) + n);
                                    if kawa.body_size == BodySize::Empty {
                                        und[i].body = None;
                                        unframed_bytes += n;
                                    }
                                }
                            }
                            kawa.prepare(&mut kawa::h1::BlockConverter);
                            let b = out_bytes(&kawa);
                            written.extend_from_slice(&b);
                            kawa.consume(b.len());
                            if kawa.is_terminated() {
                                und[cur.unwrap()].complete = true;
                                cur = None;
                                // keep-alive: mux/h1.rs clears the request but keeps the storage
                                ctx.reset();
                                kawa.clear();
                                if kawa.storage.is_empty() {
                                    break;
                                }
                                continue; // pipelined bytes already in the buffer
                            }
                        }
                        break;
                    }
                }
                if unframed_bytes > 0 {
                    // bytes forwarded as the "body" of a request that has neither Content-Length nor
                    // Transfer-Encoding: a backend reads such a request as body-less (RFC 9112 6.3)
                    out.viol("h1-unframed-body", &format!("{unframed_bytes} bytes forwarded after a request head that has neither Content-Length nor Transfer-Encoding (sozu: body of that request; a backend: the next request)"));
                }
                if rejected {
                    // 400: nothing of the offending message may have been written
                    continue;
                }
                // oracle: a strict backend reads in `written` exactly the messages sozu understood
                let all_complete = und.iter().all(|u| u.complete);
                if und.is_empty() {
                    continue;
                }
                if !all_complete {
                    // a request sozu still considers open. If it has no framing header at all
                    // (close-delimited request), every byte after its head is forwarded as "body"
                    // while a backend reads a request without Content-Length as body-less.
                    continue;
                }
                match strict_h1(&written) {
                    None => out.viol("h1-malformed", &format!("{}: kawa accepted and forwarded bytes a strict RFC 9112 reader refuses: {:?}", malformed_reason(&written), String::from_utf8_lossy(&written[..written.len().min(100)]))),
                    Some(l) => {
                        if l.len() != und.len() {
                            out.viol("h1-boundary", &format!("sozu forwards {} request(s), a strict backend reads {}", und.len(), l.len()));
                        } else {
                            for (u, r) in und.iter().zip(l.iter()) {
                                if !u.method.eq_ignore_ascii_case(&r.method) || u.target != r.target || !u.host.eq_ignore_ascii_case(&r.host) || u.body.unwrap_or(0) != r.body.len() + chunk_overhead(r) {
                                    out.viol("h1-differs", &format!("sozu: {} {} host={} body={:?}; strict backend: {} {} host={} body={}", s(&u.method), s(&u.target), s(&u.host), u.body, s(&r.method), s(&r.target), s(&r.host), r.body.len()));
                                }
                            }
                        }
                    }
                }
            }
            _ => out.obs(&[ts("badop")]),
        }
    }
}

/// Which strict rule the forwarded bytes break (used to tell known findings apart).
fn malformed_reason(w: &[u8]) -> &'static str {
    let mut te_seen = false;
    for l in w.split(|b| *b == b'\n') {
        let l = l.strip_suffix(b"\r").unwrap_or(l);
        if l.is_empty() {
            te_seen = false;
            continue;
        }
        if l.ends_with(b" HTTP/1.1") || l.ends_with(b" HTTP/1.0") {
            continue;
        }
        if l.starts_with(b":") {
            return "empty-field-name";
        }
        if let Some(i) = l.iter().position(|b| *b == b':') {
            let (n, v) = (&l[..i], trim_ows(&l[i + 1..]));
            if n.eq_ignore_ascii_case(b"transfer-encoding") {
                if !v.eq_ignore_ascii_case(b"chunked") {
                    return "te-not-exactly-chunked";
                }
                if te_seen {
                    return "te-duplicate";
                }
                te_seen = true;
            }
            if n.eq_ignore_ascii_case(b"content-length") && !(!v.is_empty() && v.iter().all(|b| b.is_ascii_digit())) {
                return "cl-not-digits";
            }
        }
    }
    "other"
}

fn chunk_overhead(_r: &Req) -> usize {
    0
}

fn s(b: &[u8]) -> String {
    String::from_utf8_lossy(b).into_owned()
}

fn main() {
    let _ = sozu_command_lib::logging::setup_logging("file:///dev/null", false, None, None, None, "error", "C03");
    drive(run);
}
