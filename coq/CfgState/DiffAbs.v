(** CfgState — replaying per-key chunks against an ABSTRACT view of a bucket
    map (the concrete map may keep empty buckets), and the certificate section
    of [diff] (C06). *)
From stdpp Require Import gmap strings.
From Coq Require Import NArith Lia.
From SV Require Import CfgState.Model CfgState.Spec CfgState.Proofs CfgState.ReplayProofs CfgState.DiffProofs CfgState.DiffChunks.
Open Scope N_scope.

Section fchunks.
  Context {K V X : Type} `{EqDecision K}.
  Variable g : K -> X -> option V -> option V.

  Definition fun_alter (h : option V -> option V) (a : K) (phi : K -> option V) : K -> option V :=
    fun b => if decide (b = a) then h (phi a) else phi b.

  Fixpoint apply_f (phi : K -> option V) (L : list (K * X)) : K -> option V :=
    match L with
    | [] => phi
    | (a, x) :: L' => apply_f (fun_alter (g a x) a phi) L'
    end.

  Lemma apply_f_ext L : forall phi psi, (forall b, phi b = psi b) -> forall b, apply_f phi L b = apply_f psi L b.
  Proof.
    induction L as [|[a x] L IH]; intros phi psi He b; [apply He|].
    cbn [apply_f]. apply IH. intros c. unfold fun_alter. destruct (decide (c = a)); [rewrite He; reflexivity|apply He].
  Qed.

  Lemma apply_f_notin L : forall phi a, a ∉ L.*1 -> apply_f phi L a = phi a.
  Proof.
    induction L as [|[b x] L IH]; intros phi a Hn; [reflexivity|].
    rewrite fmap_cons in Hn. apply not_elem_of_cons in Hn as [Hne Hn]. cbn [apply_f].
    rewrite IH by exact Hn. unfold fun_alter. rewrite decide_False by exact Hne. reflexivity.
  Qed.

  Lemma apply_f_in L : forall phi a x, NoDup (L.*1) -> In (a, x) L -> apply_f phi L a = g a x (phi a).
  Proof.
    induction L as [|[b y] L IH]; intros phi a x Hnd Hin; [destruct Hin|].
    rewrite fmap_cons in Hnd. apply NoDup_cons in Hnd as [Hni Hnd]. cbn [fst] in Hni. cbn [apply_f].
    destruct Hin as [E|Hin].
    - inversion E; subst. rewrite apply_f_notin by exact Hni. unfold fun_alter. rewrite decide_True by reflexivity. reflexivity.
    - rewrite (IH _ a x Hnd Hin). unfold fun_alter. rewrite decide_False; [reflexivity|].
      intros ->. apply Hni. apply elem_of_list_fmap. exists (b, x). split; [reflexivity|apply elem_of_list_In; exact Hin].
  Qed.
End fchunks.

Section achunks.
  Variable fingerprint : N -> option N.
  Variable inames : N -> option (list N).
  Variable hc_valid : N -> bool.
  Variable steps : lkind -> list step.
  Notation replay := (replay fingerprint inames hc_valid steps).

  Context {K V X R : Type} `{EqDecision K}.
  Variable set : state -> R -> state.
  Variable abs : R -> K -> option V.
  Variable Iv : R -> Prop.                          (* invariant of the concrete bucket map *)
  Variable f : K -> X -> list request.
  Variable g : K -> X -> option V -> option V.
  Variable P : K -> X -> option V -> Prop.
  Hypothesis chunk_ok : forall a x s c,
      Iv c -> P a x (abs c a) ->
      exists c', replay (f a x) (set s c) = (set s c', 0%nat) /\ Iv c'
                 /\ forall b, abs c' b = fun_alter (g a x) a (abs c) b.

  Lemma replay_chunks_abs L : forall c s,
    Iv c -> NoDup (L.*1) -> (forall a x, In (a, x) L -> P a x (abs c a)) ->
    exists c', replay (flat_map (fun ax => f (fst ax) (snd ax)) L) (set s c) = (set s c', 0%nat) /\ Iv c'
               /\ forall b, abs c' b = apply_f g (abs c) L b.
  Proof.
    induction L as [|[a x] L IH]; intros c s Hi Hnd HP.
    - exists c. split; [reflexivity|]. split; [exact Hi|]. intros b. reflexivity.
    - rewrite fmap_cons in Hnd. apply NoDup_cons in Hnd as [Hni Hnd]. cbn [fst] in Hni.
      destruct (chunk_ok a x s c Hi (HP a x (or_introl eq_refl))) as (c1 & Hr1 & Hi1 & Ha1).
      destruct (IH c1 s Hi1 Hnd) as (c2 & Hr2 & Hi2 & Ha2).
      { intros b y Hin. rewrite Ha1. unfold fun_alter. rewrite decide_False; [apply HP; right; exact Hin|].
        intros ->. apply Hni. apply elem_of_list_fmap. exists (a, y). split; [reflexivity|apply elem_of_list_In; exact Hin]. }
      exists c2. split; [|split; [exact Hi2|]].
      + cbn [flat_map fst snd]. rewrite replay_app, Hr1, Hr2. reflexivity.
      + intros b. rewrite Ha2. cbn [apply_f]. apply apply_f_ext. exact Ha1.
  Qed.
End achunks.
