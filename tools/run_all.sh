#!/bin/bash
# run every check claimed in MANIFEST.json (quick tier) and print one line each
cd "$(dirname "$0")/.."
for p in $(python3 -c "import json;print(' '.join(c['property_id'] for c in json.load(open('MANIFEST.json'))['checks']))"); do
  s=$(date +%s)
  out=$(./check $p --tier ${1:-quick} 2>&1); rc=$?
  e=$(date +%s)
  echo "$p rc=$rc $((e-s))s $(echo "$out" | grep -c '^VIOLATION') violation-lines $(echo "$out" | grep -c '^KNOWN-FINDING') known | $(echo "$out" | grep '^\[check\] C' | tail -1)"
done
