(** C20 — lemmas about the loader model. *)
From Coq Require Import List ZArith NArith String Bool Lia Permutation.
From SV Require Import Common.Tok C20.Gen C20.Model C20.Proofs.
Import ListNotations.
Open Scope Z_scope.

(** * the configuration holds every declared cluster with all its frontends and backends *)

Definition cluster_matches (cd : cdecl) (cc : ccfg) : Prop :=
  (exists pp, cc_clu cc = build_clu cd pp)
  /\ cc_backs cc = build_backends (cd_id cd) 0 (cd_backs cd)
  /\ map (fun x => f_addr (fst x)) (cc_hfronts cc) ++ map t_addr (cc_tfronts cc) = map fd_addr (cd_fronts cd)
  /\ Forall (fun x => f_cluster (fst x) = cd_id cd) (cc_hfronts cc)
  /\ Forall (fun t => t_cluster t = cd_id cd) (cc_tfronts cc)
  /\ hc_valid (cc_clu cc) = true.

Lemma push_listener_clusters : forall st l, ls_clusters (push_listener st l) = ls_clusters st.
Proof. intros st l. unfold push_listener. repeat (destruct (_ =? _)); reflexivity. Qed.

Lemma http_fronts_conv_addrs : forall cid fs xs, http_fronts_conv cid fs = Ok xs ->
  map (fun x => f_addr (fst (fst x))) xs = map fd_addr fs /\ Forall (fun x => f_cluster (fst (fst x)) = cid) xs.
Proof.
  intros cid fs; induction fs as [|f fs IH]; intros xs H; cbn [http_fronts_conv] in H.
  - inversion H; subst. split; [reflexivity|constructor].
  - destruct (http_front_conv cid f) as [x|e] eqn:E; [|discriminate].
    destruct (http_fronts_conv cid fs) as [xs'|e]; [|discriminate]. inversion H; subst.
    destruct (IH xs' eq_refl) as [IH1 IH2]. cbn [map]. unfold http_front_conv in E.
    destruct (fd_host f); [|discriminate]. destruct (fd_cert f =? -5); [discriminate|].
    destruct (fd_cert f =? -6); [discriminate|].
    destruct (negb (Bool.eqb (fd_key f) (negb (fd_cert f =? -1)))); [discriminate|].
    destruct (negb (fd_hsts f =? -1) && negb (fd_key f && negb (fd_cert f =? -1))); [discriminate|].
    destruct (fd_hsts f =? 2); [discriminate|]. inversion E; subst. cbn [fst f_addr f_cluster].
    split; [now rewrite IH1 | constructor; [reflexivity|exact IH2]].
Qed.

Lemma resolve_http_addrs : forall d fs st xs st', resolve_http d fs st = Ok (xs, st') ->
  map (fun x => f_addr (fst x)) xs = map (fun x => f_addr (fst (fst x))) fs
  /\ Forall2 (fun x y => f_cluster (fst x) = f_cluster (fst (fst y))) xs fs
  /\ ls_clusters st' = ls_clusters st.
Proof.
  intros d fs; induction fs as [|[[f cert] key] fs IH]; intros st xs st' H; cbn [resolve_http] in H.
  - inversion H; subst. repeat split; constructor.
  - assert (Fin : forall (fr : front) (cv : Z) st1,
             (if mem_key (fkey fr) (ls_routes st1) then Err EDuplicateFrontend
              else match resolve_http d fs (add_route st1 (fkey fr)) with
                   | Ok (xs0, st'') => Ok ((fr, cv) :: xs0, st'')
                   | Err e => Err e
                   end) = Ok (xs, st') ->
             f_addr fr = f_addr f -> f_cluster fr = f_cluster f ->
             ls_clusters st1 = ls_clusters st ->
             map (fun x => f_addr (fst x)) xs = map (fun x => f_addr (fst (fst x))) ((f, cert, key) :: fs)
             /\ Forall2 (fun x y => f_cluster (fst x) = f_cluster (fst (fst y))) xs ((f, cert, key) :: fs)
             /\ ls_clusters st' = ls_clusters st).
    { intros fr cv st1 H1 Ha Hcl Hc. destruct (mem_key (fkey fr) (ls_routes st1)); [discriminate|].
      destruct (resolve_http d fs (add_route st1 (fkey fr))) as [[xs0 st'']|e] eqn:E; [|discriminate].
      inversion H1; subst. destruct (IH _ _ _ E) as (I1 & I2 & I3). cbn [map fst]. repeat split.
      - now rewrite I1, Ha.
      - constructor; [exact Hcl|exact I2].
      - rewrite I3. exact Hc. }
    destruct (known_proto st (f_addr f)) as [p|].
    + destruct ((p =? 2) || (p =? 3)); [discriminate|]. destruct (p =? 0).
      * destruct (negb (cert =? -1)); [discriminate|]. exact (Fin _ _ st H eq_refl eq_refl eq_refl).
      * destruct (negb (cert =? -1)); [exact (Fin _ _ st H eq_refl eq_refl eq_refl)|].
        destruct (find _ (ls_https st)) as [l0|]; [|discriminate]. exact (Fin _ _ st H eq_refl eq_refl eq_refl).
    + destruct (build_listener d _) as [l|e]; [|discriminate].
      exact (Fin _ _ (push_listener st l) H eq_refl eq_refl (push_listener_clusters st l)).
Qed.

Lemma tcp_fronts_conv_addrs : forall ex cid fs has seen ts h, tcp_fronts_conv ex has cid seen fs = Ok (ts, h) ->
  map t_addr ts = map fd_addr fs /\ Forall (fun t => t_cluster t = cid) ts.
Proof.
  intros ex cid fs; induction fs as [|f fs IH]; intros has seen ts h H; cbn [tcp_fronts_conv] in H.
  - inversion H; subst. split; [reflexivity|constructor].
  - destruct (negb _); [discriminate|].
    destruct (is_some (fd_host f) || is_some (fd_path f) || negb (fd_cert f =? -1)); [discriminate|].
    destruct (mem_key _ seen); [discriminate|].
    destruct (tcp_fronts_conv ex _ cid _ fs) as [[ts' h']|e] eqn:E; [|discriminate].
    inversion H; subst. destruct (IH _ _ _ _ E) as [I1 I2]. cbn [map t_addr t_cluster].
    split; [now rewrite I1|constructor; [reflexivity|exact I2]].
Qed.

Lemma resolve_tcp_addrs : forall d ts st xs st', resolve_tcp d ts st = Ok (xs, st') ->
  map t_addr xs = map t_addr ts /\ map t_cluster xs = map t_cluster ts /\ ls_clusters st' = ls_clusters st.
Proof.
  intros d ts; induction ts as [|t ts IH]; intros st xs st' H; cbn [resolve_tcp] in H.
  - inversion H; subst. repeat split.
  - assert (Fin : forall udp st1,
             match resolve_tcp d ts st1 with
             | Ok (xs0, st'') => Ok (mk_tfront udp (t_cluster t) (t_addr t) (t_tags t) :: xs0, st'')
             | Err e => Err e
             end = Ok (xs, st') -> ls_clusters st1 = ls_clusters st ->
             map t_addr xs = map t_addr (t :: ts) /\ map t_cluster xs = map t_cluster (t :: ts) /\ ls_clusters st' = ls_clusters st).
    { intros udp st1 H1 Hc. destruct (resolve_tcp d ts st1) as [[xs0 st'']|e] eqn:E; [|discriminate].
      inversion H1; subst. destruct (IH _ _ _ E) as (I1 & I2 & I3). cbn [map t_addr t_cluster].
      repeat split; congruence. }
    destruct (owned_by_other st (t_cluster t) (t_addr t)); [discriminate|].
    destruct (known_proto st (t_addr t)) as [p|].
    + destruct ((p =? 0) || (p =? 1)); [discriminate|]. exact (Fin (p =? 3) st H eq_refl).
    + destruct (build_listener d _) as [l|e]; [|discriminate].
      exact (Fin false (push_listener st l) H (push_listener_clusters st l)).
Qed.

(** no accepted TCP/UDP frontend sits on an address that an earlier cluster declared *)
Lemma owned_by_other_clusters : forall st st' cid a, ls_clusters st' = ls_clusters st ->
  owned_by_other st' cid a = owned_by_other st cid a.
Proof. intros st st' cid a E. unfold owned_by_other. now rewrite E. Qed.

Lemma resolve_tcp_unowned : forall d ts st xs st', resolve_tcp d ts st = Ok (xs, st') ->
  Forall (fun t => owned_by_other st (t_cluster t) (t_addr t) = false) ts.
Proof.
  intros d ts; induction ts as [|t ts IH]; intros st xs st' H; cbn [resolve_tcp] in H.
  - constructor.
  - destruct (owned_by_other st (t_cluster t) (t_addr t)) eqn:Eo; [discriminate|].
    assert (Fin : forall udp st1,
             match resolve_tcp d ts st1 with
             | Ok (xs0, st'') => Ok (mk_tfront udp (t_cluster t) (t_addr t) (t_tags t) :: xs0, st'')
             | Err e => Err e
             end = Ok (xs, st') -> ls_clusters st1 = ls_clusters st ->
             Forall (fun t0 => owned_by_other st (t_cluster t0) (t_addr t0) = false) (t :: ts)).
    { intros udp st1 H1 Hc. destruct (resolve_tcp d ts st1) as [[xs0 st'']|e] eqn:E; [|discriminate].
      constructor; [exact Eo|]. eapply Forall_impl; [|exact (IH _ _ _ E)].
      intros t0 H0. cbv beta in H0. now rewrite (owned_by_other_clusters st st1) in H0. }
    destruct (known_proto st (t_addr t)) as [p|].
    + destruct ((p =? 0) || (p =? 1)); [discriminate|]. exact (Fin (p =? 3) st H eq_refl).
    + destruct (build_listener d _) as [l|e]; [|discriminate].
      exact (Fin false (push_listener st l) H (push_listener_clusters st l)).
Qed.

Lemma forall2_cluster : forall (cid : bytes) (xs : list (front * Z)) (ys : list (front * Z * bool)),
  Forall2 (fun x y => f_cluster (fst x) = f_cluster (fst (fst y))) xs ys ->
  Forall (fun y => f_cluster (fst (fst y)) = cid) ys -> Forall (fun x => f_cluster (fst x) = cid) xs.
Proof. intros cid xs ys H; induction H; intros A; constructor; inversion A; subst; [congruence|auto]. Qed.

Lemma populate_cluster_exact : forall d c st st', populate_cluster d c st = Ok st' ->
  exists cc, ls_clusters st' = ls_clusters st ++ [cc] /\ cluster_matches c cc.
Proof.
  intros d c st st' H. unfold populate_cluster in H.
  destruct (negb (hc_valid (build_clu c (-1)))) eqn:Ehc; [discriminate|]. apply negb_false_iff in Ehc.
  destruct (negb (nodup_keys _)); [discriminate|].
  destruct (cd_proto c =? 1).
  - destruct (tcp_fronts_conv _ _ _ _) as [[ts has]|e] eqn:E1; [|discriminate].
    destruct (resolve_tcp d ts st) as [[ts' st1]|e] eqn:E2; [|discriminate].
    inversion H; subst. eexists. split.
    + unfold add_cluster_cfg. cbn [ls_clusters]. apply resolve_tcp_addrs in E2 as (_ & _ & E2). now rewrite E2.
    + apply tcp_fronts_conv_addrs in E1 as [A1 A2]. apply resolve_tcp_addrs in E2 as (B1 & B2 & _).
      unfold cluster_matches. cbn [cc_clu cc_backs cc_hfronts cc_tfronts map app]. repeat split; eauto.
      * congruence.
      * apply Forall_forall. intros t Ht. rewrite Forall_forall in A2.
        assert (In (t_cluster t) (map t_cluster ts')) by now apply in_map.
        rewrite B2 in H0. apply in_map_iff in H0 as [t0 [E0 H0]]. rewrite <- E0. now apply A2.
  - destruct (http_fronts_conv (cd_id c) (cd_fronts c)) as [fs|e] eqn:E1; [|discriminate].
    destruct (resolve_http d fs st) as [[fs' st1]|e] eqn:E2; [|discriminate].
    inversion H; subst. eexists. split.
    + unfold add_cluster_cfg. cbn [ls_clusters]. apply resolve_http_addrs in E2 as (_ & _ & E2). now rewrite E2.
    + apply http_fronts_conv_addrs in E1 as [A1 A2]. apply resolve_http_addrs in E2 as (B1 & B2 & _).
      unfold cluster_matches. cbn [cc_clu cc_backs cc_hfronts cc_tfronts map]. rewrite app_nil_r. repeat split; eauto.
      * congruence.
      * eapply forall2_cluster; eauto.
Qed.

Lemma populate_clusters_exact : forall d cs st st', populate_clusters d cs st = Ok st' ->
  exists ccs, ls_clusters st' = ls_clusters st ++ ccs /\ Forall2 cluster_matches cs ccs.
Proof.
  intros d cs; induction cs as [|c cs IH]; intros st st' H; cbn [populate_clusters] in H.
  - inversion H; subst. exists []. split; [now rewrite app_nil_r|constructor].
  - destruct (populate_cluster d c st) as [st1|e] eqn:E; [|discriminate].
    apply populate_cluster_exact in E as [cc [E1 E2]]. apply IH in H as [ccs [H1 H2]].
    exists (cc :: ccs). split; [rewrite H1, E1, <- app_assoc; reflexivity | now constructor].
Qed.

Lemma populate_listeners_clusters : forall d ls st st', populate_listeners d ls st = Ok st' -> ls_clusters st' = ls_clusters st.
Proof.
  intros d ls; induction ls as [|l ls IH]; intros st st' H; cbn [populate_listeners] in H.
  - now inversion H.
  - destruct (is_some (known_proto st (ld_addr l))); [discriminate|]. destruct (ld_proto l =? -1); [discriminate|].
    destruct (is_some (ld_public l) && (ld_expect l =? 1)); [discriminate|].
    destruct (build_listener d l) as [b|e]; [|discriminate].
    apply IH in H. rewrite H. destruct (ld_expect l =? 1); cbn [add_expect ls_clusters]; apply push_listener_clusters.
Qed.

Lemma load_in_inv : forall d order cf, load_in d order = Ok cf ->
  parses d = true /\ nodup_bytes (map ld_addr (d_listeners d)) = true
  /\ exists st st', populate_listeners d (d_listeners d) (mk_lstate [] [] [] [] [] [] [] []) = Ok st
       /\ populate_clusters d order st = Ok st'
       /\ (existsb has_h2 (ls_https st') && (buffer_of d <? h2_min_buffer_size)) = false
       /\ d_autosave d = false
       /\ cf = mk_config (ls_http st') (ls_https st') (ls_tcp st') (ls_udp st') (ls_clusters st')
                         (negb (d_activate d =? 0)) (d_metrics d =? 1).
Proof.
  intros d order cf H. unfold load_in in H.
  destruct (parses d); [|discriminate]. destruct (nodup_bytes (map ld_addr (d_listeners d))); [|discriminate].
  cbn [negb] in H. destruct (populate_listeners d _ _) as [st|e] eqn:E1; [|discriminate].
  destruct (populate_clusters d order st) as [st'|e] eqn:E2; [|discriminate].
  destruct (existsb has_h2 (ls_https st') && (buffer_of d <? h2_min_buffer_size)) eqn:E3; [discriminate|].
  destruct (d_autosave d); [discriminate|]. inversion H; subst.
  repeat split. exists st, st'. repeat split; assumption.
Qed.

Lemma load_in_exact : forall d order cf, load_in d order = Ok cf ->
  Forall2 cluster_matches order (cf_clusters cf)
  /\ cf_activate cf = negb (d_activate d =? 0) /\ cf_metrics cf = (d_metrics d =? 1).
Proof.
  intros d order cf H. apply load_in_inv in H as (_ & _ & st & st' & E1 & E2 & _ & _ & E).
  subst cf. cbn [cf_clusters cf_activate cf_metrics]. repeat split.
  apply populate_clusters_exact in E2 as [ccs [H1 H2]].
  apply populate_listeners_clusters in E1. cbn [ls_clusters] in E1. rewrite E1 in H1. cbn [app] in H1. now rewrite H1.
Qed.

(** * acceptance implies the documented constraints *)

Definition listener_ok (d : decl) (l : ldecl) : Prop :=
  ld_proto l <> -1                                                   (* a protocol is given *)
  /\ (is_some (ld_public l) && (ld_expect l =? 1)) = false           (* public_address excludes expect_proxy *)
  /\ (ld_proto l = 0 -> ld_hsts l = -1 /\ sid_ok l = true)          (* no HSTS on plain HTTP; a usable sozu_id_header *)
  /\ (ld_proto l = 1 ->
        ld_hsts l <> 2                                               (* an [hsts] block names [enabled] *)
        /\ sid_ok l = true /\ listener_cert_check l = None           (* a default certificate is readable, parses and has its key *)
        /\ (forall p, ld_alpn l = Some p -> forallb (fun x => bytes_eqb x b_h2 || bytes_eqb x b_http11) p = true)
        /\ (ld_dh11 l = 1 -> exists p, ld_alpn l = Some p /\ p <> [] /\ memb b_http11 p = false)).

Definition constraints (d : decl) (cf : config) : Prop :=
  d_malformed d = false
  /\ Forall (fun l => known_lproto (ld_proto l) = true) (d_listeners d)        (* no unknown protocol word *)
  /\ Forall (fun c => known_cproto (cd_proto c) = true) (d_clusters d)
  /\ nodup_bytes (map cd_id (d_clusters d)) = true
  /\ nodup_bytes (map ld_addr (d_listeners d)) = true                           (* one listener per address *)
  /\ Forall (listener_ok d) (d_listeners d)
  /\ (existsb has_h2 (cf_https cf) = true -> h2_min_buffer_size <= buffer_of d) (* H2 needs the buffer *)
  /\ d_autosave d = false.

Lemma build_listener_ok : forall d l b, build_listener d l = Ok b ->
  (ld_proto l = 0 -> ld_hsts l = -1 /\ sid_ok l = true)
  /\ (ld_proto l = 1 ->
        ld_hsts l <> 2 /\ sid_ok l = true /\ listener_cert_check l = None
        /\ (forall p, ld_alpn l = Some p -> forallb (fun x => bytes_eqb x b_h2 || bytes_eqb x b_http11) p = true)
        /\ (ld_dh11 l = 1 -> exists p, ld_alpn l = Some p /\ p <> [] /\ memb b_http11 p = false)).
Proof.
  intros d l b H. unfold build_listener in H. split.
  - intros E. rewrite E in H. simpl (0 =? 0) in H. cbv iota in H. destruct (ld_hsts l =? -1) eqn:Eh; [|discriminate].
    cbn [negb] in H. destruct (sid_ok l) eqn:Es; [|discriminate]. split; [now apply Z.eqb_eq in Eh|reflexivity].
  - intros E. rewrite E in H. simpl (1 =? 0) in H. simpl (1 =? 1) in H. cbv iota in H.
    destruct (resolve_alpn l) as [alpn|e] eqn:Ea; [|discriminate].
    destruct (listener_cert_check l) eqn:Ec; [discriminate|]. destruct (sid_ok l) eqn:Es; [|discriminate]. cbn [negb] in H.
    destruct (ld_hsts l =? 2) eqn:Eh; [discriminate|]. apply Z.eqb_neq in Eh. split; [exact Eh|]. split; [reflexivity|]. split; [reflexivity|].
    unfold resolve_alpn in Ea. destruct (ld_alpn l) as [[|p ps]|] eqn:El.
    + split; [intros p Hp; inversion Hp; reflexivity|].
      intros Ed. rewrite Ed in Ea. cbn in Ea. discriminate.
    + destruct (forallb (fun x => bytes_eqb x b_h2 || bytes_eqb x b_http11) (p :: ps)) eqn:Ef; [|discriminate]. cbn [negb] in Ea.
      split; [intros q Hq; inversion Hq; subst; exact Ef|].
      intros Ed. rewrite Ed in Ea. simpl (1 =? 1) in Ea. cbn [andb] in Ea.
      destruct (memb b_http11 (p :: ps)) eqn:Em; [discriminate|].
      exists (p :: ps). repeat split; [discriminate|exact Em].
    + split; [intros p Hp; discriminate|].
      intros Ed. rewrite Ed in Ea. cbn in Ea. discriminate.
Qed.

Lemma populate_listeners_ok : forall d ls st st', populate_listeners d ls st = Ok st' -> Forall (listener_ok d) ls.
Proof.
  intros d ls; induction ls as [|l ls IH]; intros st st' H; cbn [populate_listeners] in H; [constructor|].
  destruct (is_some (known_proto st (ld_addr l))); [discriminate|].
  destruct (ld_proto l =? -1) eqn:Ep; [discriminate|]. apply Z.eqb_neq in Ep.
  destruct (is_some (ld_public l) && (ld_expect l =? 1)) eqn:Ei; [discriminate|].
  destruct (build_listener d l) as [b|e] eqn:Eb; [|discriminate].
  constructor; [|eapply IH; exact H].
  apply build_listener_ok in Eb as [B1 B2]. unfold listener_ok. split; [exact Ep|]. split; [exact Ei|]. split; [exact B1|exact B2].
Qed.

Lemma load_in_constraints : forall d order cf, load_in d order = Ok cf -> constraints d cf.
Proof.
  intros d order cf H. apply load_in_inv in H as (Hp & Hn & st & st' & E1 & E2 & E3 & E4 & E).
  unfold parses in Hp. repeat (apply andb_true_iff in Hp as [Hp ?]). apply negb_true_iff in Hp.
  unfold constraints. repeat split; try assumption.
  - apply Forall_forall. intros l Hl. eapply forallb_forall in H1; eauto.
  - apply Forall_forall. intros c Hc. eapply forallb_forall in H0; eauto.
  - eapply populate_listeners_ok; eauto.
  - subst cf. cbn [cf_https]. intros Hh. rewrite Hh in E3. cbn [andb] in E3. apply Z.ltb_ge in E3. exact E3.
Qed.
