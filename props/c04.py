"""C04 — routing depends only on the configured frontends, by documented precedence."""
import os, re, subprocess, tempfile
import vlib
from vlib import Case

ID = "C04"
COQ_DIRS = ["Common", "C04"]
COQ_TARGETS = ["C04/Props.vo", "C04/Run.vo"]
PROPS_MODULES = ["C04.Props"]
RUN_MODULE = "C04.Run"
RUN_FN = "run_case"
HARNESS_BIN = "c04"
HARNESS_BINS = ["c04"]
SHRINK_KEEP = ("rx", "probe", "permcheck")
CLAIMED = False
RULE = ("cases: histories of 1-14 add/del of HttpFrontend (position pre/tree/post; hostnames from a colliding pool of "
        "exact, wildcard, '*', nested, regex-segment and malformed names; PREFIX/EQUALS/REGEX paths that are prefixes of "
        "each other; optional method; cluster / deny / redirect / auth policies), probes (host, path, method) after the "
        "history and between its operations, then `permcheck` (the implementation is rebuilt from the live tree "
        "frontends in every order for <= 4 of them). Regex answers for every (regex, string) pair of the case are "
        "computed by the real regex crate (c04 --tables) and given to the model as `rx` rows. Non-trivial and distinct: "
        ">= 2 successful adds to the tree, >= 1 successful removal or refused duplicate, and probes with >= 2 distinct "
        "outcomes; distinct by op text.")
ASSUMPTIONS = [
    "regex compilation and matching are oracles (answers of the real regex crate, passed in the case); theorems are quantified over them",
    "idna::domain_to_ascii is the identity on the hostnames used (lower-case ASCII); Method::new canonicalisation is not modelled (methods are upper-case tokens)",
    "the children HashMap of TrieNode is modelled as an association list with unique keys (its iteration order is never observed by lookup/insert/remove)",
    "Route::Frontend is observed through RouteResult.{cluster_id, redirect, required_auth} only (no rewrite templates, headers, HSTS)",
]
TRUSTED = ["translator props/c04.py:translate pins the PartialEq arms of PathRule/DomainRule, the selection-loop comparisons and the trie's Failed/assert sites in lib/src/router/{mod,pattern_trie}.rs"]


def _src(rel):
    return open(os.path.join(vlib.REPO, rel)).read()


def translate():
    """the constructs the model hard-codes must still be the source's"""
    fails = []
    m = _src("lib/src/router/mod.rs")
    t = _src("lib/src/router/pattern_trie.rs")
    pe = re.search(r"impl std::cmp::PartialEq for PathRule \{(.*?)\n\}", m, re.S)
    if not pe:
        fails.append("router/mod.rs: impl PartialEq for PathRule not found")
    else:
        arms = re.findall(r"\(PathRule::(\w+)\(\w+\), PathRule::(\w+)\(\w+\)\)", pe.group(1))
        if sorted(arms) != sorted(MODEL_PATH_EQ_ARMS):
            fails.append("router/mod.rs: PartialEq for PathRule has arms %s, the model has %s" % (sorted(arms), sorted(MODEL_PATH_EQ_ARMS)))
    de = re.search(r"impl std::cmp::PartialEq for DomainRule \{(.*?)\n\}", m, re.S)
    if not de or len(re.findall(r"\(DomainRule::\w+(?:\(\w+\))?, DomainRule::\w+(?:\(\w+\))?\)", de.group(1))) != 4:
        fails.append("router/mod.rs: PartialEq for DomainRule no longer has the four arms Any/Wildcard/Exact/Regex")
    if "pub struct MethodRule" not in m or not re.search(r"#\[derive\([^)]*PartialEq[^)]*\)\]\s*pub struct MethodRule", m):
        fails.append("router/mod.rs: MethodRule no longer derives PartialEq")
    for needle, what in MODEL_LOOKUP_PINS:
        if not re.search(needle, m, re.S):
            fails.append("router/mod.rs: " + what)
    for needle, what in MODEL_TRIE_PINS:
        if not re.search(needle, t, re.S):
            fails.append("router/pattern_trie.rs: " + what)
    return fails


# what coq/C04/Model.v and coq/Common/Trie.v mirror (updated together with them)
MODEL_PATH_EQ_ARMS = [("Prefix", "Prefix"), ("Regex", "Regex")]
MODEL_LOOKUP_PINS = [
    (r"PathRuleResult::Prefix\(size\) => \{\s*if size >= prefix_length \{", "selection loop: the prefix comparison is no longer `size >= prefix_length`"),
    (r"PathRuleResult::Regex \| PathRuleResult::Equals => \{\s*match method_rule\.matches\(method\) \{\s*MethodRuleResult::Equals => \{\s*return Ok", "selection loop: Regex|Equals with a method-specific rule no longer returns immediately"),
    (r"paths\.retain\(\|\(p, m, _\)\| p != path \|\| m != method\);", "remove_tree_rule no longer retains on `p != path || m != method`"),
    (r"if !paths\.iter\(\)\.any\(\|\(p, m, _\)\| p == path && m == method\) \{\s*paths\.push", "add_tree_rule no longer de-duplicates on (path, method)"),
    (r"self\.tree\.lookup_with_path\(hostname_b, true, trie_path\)", "lookup no longer walks the tree with accept_wildcard = true"),
]
MODEL_TRIE_PINS = [
    (r"assert_ne!\(insert_result, InsertResult::Failed\);", "insert no longer asserts on a Failed recursion"),
    (r"if prefix\.is_empty\(\) && self\.wildcard\.is_some\(\) && accept_wildcard", "lookup: wildcard test changed"),
    (r"if child\.is_empty\(\) \{\s*self\.children\.remove\(suffix\);", "remove_recursive no longer prunes an emptied child"),
]

# ---------------------------------------------------------------------------
# pools

PLAIN_HOSTS = [b"a.com", b"x.a.com", b"*.a.com", b"b.com", b"*", b"*.com", b"y.x.a.com", b"*.x.a.com", b"com"]
REGEX_HOSTS = [b"/x[0-9]/.a.com", b"w./[a-z]+/.a.com", b"/[a-z]+/.a.com", b"/x.*/.a.com", b"v./x[0-9]/.a.com", b"/.*/"]
BAD_HOSTS = [b"abc/", b"/x/.", b".com", b"a*.com", b"", b"./x/.com", b"/[/.a.com", b"a/b.com", b"x/.a.com", b".", b"a..com"]
PATHS = [(0, b"/"), (0, b"/a"), (0, b"/a/b"), (0, b""), (2, b"/a"), (2, b"/a/b"), (2, b"/"),
         (1, b"^/a.*"), (1, b"/[0-9]+"), (1, b"/a/b$")]
BAD_PATHS = [(1, b"("), (7, b"/a"), (1, b"a(?!b)")]
METHODS = [None, None, b"GET", b"POST"]
PROBE_HOSTS = [b"a.com", b"x.a.com", b"x1.a.com", b"w.xyz.a.com", b"b.com", b"c.org", b"localhost", b"y.x.a.com",
               b"zz.a.com", b"v.x1.a.com", b"com"]
ODD_PROBE_HOSTS = [b".a.com", b"", b"a.com.", b"x..a.com", b"*.a.com", b"abc/"]
PROBE_PATHS = [b"/", b"/a", b"/a/b", b"/a/b/c", b"/ab", b"/12", b""]
PROBE_METHODS = [b"GET", b"POST", b"PUT"]
POLICIES = ["cluster"] * 6 + ["deny", "redirect", "auth", "fwd_nocluster", "red9", "unauth"]


def front(ident_ids, pos, host, kind, pval, method, policy):
    key = (pos, host, kind, pval, method)
    cid = ident_ids.setdefault(key, len(ident_ids))
    c = b"c%d" % cid
    hasc, red, auth = 1, -1, -1
    if policy == "deny":
        hasc = 0
    elif policy == "redirect":
        red = 1
    elif policy == "auth":
        auth = 1
    elif policy == "fwd_nocluster":
        hasc, red = 0, 0
    elif policy == "red9":
        red = 9
    elif policy == "unauth":
        red = 2
    return [pos, host, kind, pval, 1 if method is not None else 0, method or b"", hasc, c if hasc else b"", red, auth]


def history_case(rng, cid, family):
    ids = {}
    hosts = list(PLAIN_HOSTS)
    if family == "regex":
        hosts = PLAIN_HOSTS[:4] + REGEX_HOSTS
    elif family == "bad":
        hosts = PLAIN_HOSTS[:3] + BAD_HOSTS + REGEX_HOSTS[:1]
    # a small colliding sub-pool per case
    hs = rng.sample(hosts, min(len(hosts), rng.randint(2, 4)))
    ps = rng.sample(PATHS, rng.randint(2, 5))
    if family == "bad" and rng.random() < 0.5:
        ps.append(rng.choice(BAD_PATHS))
    ms = rng.sample(METHODS, rng.randint(1, 3))
    treeish = rng.random()
    ops, added = [], []
    probes_h = rng.sample(PROBE_HOSTS, rng.randint(3, 6)) + [h for h in hs if b"*" not in h and b"/" not in h][:2]
    if rng.random() < 0.2 or family == "bad":
        probes_h += rng.sample(ODD_PROBE_HOSTS, 2)
    probes_p = rng.sample(PROBE_PATHS, rng.randint(3, 5))
    probes_m = rng.sample(PROBE_METHODS, rng.randint(1, 2))

    def some_probes(k):
        out = []
        for _ in range(k):
            out.append(["probe", rng.choice(probes_h), rng.choice(probes_p), rng.choice(probes_m)])
        return out

    for _ in range(rng.randint(1, 14)):
        r = rng.random()
        if r < 0.68 or not added:
            pos = 2 if rng.random() < (0.8 if treeish < 0.7 else 0.4) else rng.choice([0, 1])
            host = rng.choice(hs)
            if pos != 2 and family == "plain" and rng.random() < 0.15:
                host = rng.choice(REGEX_HOSTS[:2])       # regex DomainRule in pre/post
            kind, pval = rng.choice(ps)
            f = front(ids, pos, host, kind, pval, rng.choice(ms), rng.choice(POLICIES))
            ops.append(["add"] + f)
            added.append(f)
        elif r < 0.93:
            f = rng.choice(added)
            ops.append(["del"] + f)
        else:
            # removal of something never added
            kind, pval = rng.choice(ps)
            ops.append(["del"] + front(ids, rng.choice([0, 1, 2, 2]), rng.choice(hs), kind, pval, rng.choice(ms), "cluster"))
        if rng.random() < 0.3:
            ops += some_probes(2)
    allp = [["probe", h, p, m] for h in probes_h for p in probes_p for m in probes_m]
    rng.shuffle(allp)
    ops += allp[:rng.randint(8, 30)]
    ops.append(["permcheck"])
    return Case(cid, ops, dict(family=family))


def leaf_case(rng, cid):
    """one host, many path/method rules: the selection loop"""
    ids = {}
    host = rng.choice([b"a.com", b"*.a.com"])
    rules = [(k, v, m) for (k, v) in PATHS for m in (None, b"GET", b"POST")]
    pick = rng.sample(rules, rng.randint(2, 4))
    ops = []
    for (k, v, m) in pick:
        ops.append(["add"] + front(ids, 2, host, k, v, m, "cluster"))
    if rng.random() < 0.5:
        (k, v, m) = rng.choice(pick)
        ops.append(["del"] + front(ids, 2, host, k, v, m, "cluster"))
        if rng.random() < 0.5:
            ops.append(["add"] + front(ids, 2, host, k, v, m, "cluster"))
    h = b"a.com" if host == b"a.com" else b"q.a.com"
    for p in PROBE_PATHS:
        for m in (b"GET", b"POST", b"PUT"):
            ops.append(["probe", h, p, m])
    ops.append(["permcheck"])
    return Case(cid, ops, dict(family="leaf"))


def with_tables(cases):
    """complete the cases with their rx rows, computed by the real regex crate"""
    if not cases:
        return cases
    binp = vlib.harness_path(HARNESS_BIN)
    d = os.path.join(vlib.BUILD, "run", ID)
    os.makedirs(d, exist_ok=True)
    fd, inp = tempfile.mkstemp(prefix="tab_in_", dir=d)
    os.close(fd)
    outp = inp + ".out"
    try:
        with open(inp, "w") as f:
            for c in cases:
                f.write(c.text())
        subprocess.run([binp, "--tables", inp, outp], check=True, timeout=600)
        done = vlib.parse_cases(open(outp).read())
    finally:
        for p in (inp, outp):
            try:
                os.remove(p)
            except OSError:
                pass
    for c, dcase in zip(cases, done):
        c.ops = dcase.ops
    return cases


def gen_cases(rng, tier):
    n = {"quick": 2400, "thorough": 40000, "search": 12000}.get(tier, 2400)
    out = []
    for i in range(n):
        r = i % 10
        if r < 4:
            out.append(history_case(rng, "p%d" % i, "plain"))
        elif r < 6:
            out.append(leaf_case(rng, "l%d" % i))
        elif r < 8:
            out.append(history_case(rng, "r%d" % i, "regex"))
        else:
            out.append(history_case(rng, "b%d" % i, "bad"))
    return with_tables(out)


def corpus_cases():
    d = os.path.join(vlib.ROOT, "corpus", ID)
    out = []
    if os.path.isdir(d):
        for f in sorted(os.listdir(d)):
            if f.endswith(".case"):
                for c in vlib.parse_cases(open(os.path.join(d, f)).read()):
                    c.id = "k" + c.id
                    out.append(c)
    return out


def nontrivial(case, o):
    adds = rem = 0
    outcomes = set()
    for op, ob in zip(case.ops, o["obs"]):
        if op[0] == "add" and op[1] == 2 and ob == ["ok"]:
            adds += 1
        elif op[0] == "del" and ob == ["ok"]:
            rem += 1
        elif op[0] == "add" and ob[:1] == ["err"]:
            rem += 1
        elif op[0] == "probe":
            outcomes.add(tuple(ob))
    return adds >= 2 and rem >= 1 and len(outcomes) >= 2


LEVEL_TEXT = ("Machine-checked proof (Coq 8.16) over an executable model of Router + TrieNode: refinement of lookup to the "
              "documented precedence on the set of live frontends for every add/remove history, with order-independence, "
              "removed-never-routes and unrelated-change corollaries; the model is tied to lib/src/router on every run by "
              "a construct translator and a differential correspondence run of the real Router against the extracted "
              "model, with the property's own oracle (documented precedence, permutation rebuilds) evaluated on the "
              "implementation.")
LEVEL_NOTE = ("Trusted: Coq kernel; extraction and ocaml/driver.ml for the correspondence only; regex and idna are "
              "oracles; HashMap modelled as association list. Regex-segment hostnames in the tree are modelled and "
              "checked by correspondence but excluded from the refinement theorem (see known findings).")
TECHNIQUE = "Rocq/Coq proof over an executable Gallina model + differential correspondence (extracted OCaml vs real crate)"
