(** C14 — property theorems (statements; proofs are in C14/Proofs.v). *)
From Coq Require Import List ZArith Bool Lia.
From SV Require Import C14.Gen C14.Model C14.Proofs.
Import ListNotations.
Open Scope Z_scope.

(** 1. Never over the peer's limits.  Whatever the windows (including windows a
    SETTINGS shrink drove negative), the peer's max frame size and the queued
    body, what one stream puts on the wire in a write pass is: DATA frames each
    within [max_frame]; in total at most [max 0 (min stream_window
    connection_window)] (so nothing when either window is <= 0); both windows
    decrease by exactly that total (no byte escapes the books); no body byte is
    lost.  Since every accepted WINDOW_UPDATE / SETTINGS adds exactly its
    increment / delta to the same window ([overflow_is_error] below), the books
    [window = credit granted - bytes sent] are preserved along every schedule. *)
Theorem never_over_window :
  forall fuel c x x' cw' frames,
    0 <= max_frame c -> Forall (fun b => 0 <= b) (body x) ->
    I32_MIN <= swin x <= I32_MAX -> I32_MIN <= cwin c <= I32_MAX ->
    write_stream fuel c x = Some (x', cw', frames) ->
    Forall (fun f => 0 <= f /\ f <= max_frame c) frames /\
    0 <= sumz frames <= Z.max 0 (Z.min (swin x) (cwin c)) /\
    swin x' = swin x - sumz frames /\ cw' = cwin c - sumz frames /\
    sumz frames + sumz (body x') = sumz (body x) /\ sid x' = sid x.
Proof. exact write_stream_sound. Qed.

Example never_over_window_nonvacuous :
  write_stream 100 (mkconn 20000 65535 16384 100 2 true [] false) (mkstream 1 65535 [40000]) =
  Some (mkstream 1 45535 [20000], 0, [16384; 3616]) /\
  write_stream 100 (mkconn 20000 65535 16384 100 2 true [] false) (mkstream 1 (-5) [40000]) =
  Some (mkstream 1 (-5) [40000], 20000, []).
Proof. vm_compute. split; reflexivity. Qed.

(** 2. Zero increments and overflows are errors of the prescribed kind, and an
    accepted update adds exactly its increment (connection: GOAWAY; stream:
    RST_STREAM); SETTINGS_INITIAL_WINDOW_SIZE applies its delta to every
    stream or is a connection error. *)
Theorem overflow_is_error :
  (forall c inc, 0 <= inc <= I32_MAX -> I32_MIN <= cwin c ->
     match on_window_update c 0 inc with
     | (_, GoAway ProtocolError) => inc = 0
     | (_, GoAway FlowControlError) => inc <> 0 /\ I32_MAX < cwin c + inc
     | (c', Continue) => inc <> 0 /\ cwin c' = cwin c + inc /\ cwin c' <= I32_MAX /\
                         streams c' = streams c /\ (cwin c <= 0 -> 0 < cwin c' -> writable c' = true)
     | (_, RstStream _ _) => False
     end) /\
  (forall c s inc x, s <> 0 -> 0 <= inc <= I32_MAX -> find_stream s (streams c) = Some x -> I32_MIN <= swin x ->
     match on_window_update c s inc with
     | (_, RstStream s' ProtocolError) => s' = s /\ inc = 0
     | (_, RstStream s' FlowControlError) => s' = s /\ inc <> 0 /\ I32_MAX < swin x + inc
     | (c', Continue) => inc <> 0 /\ swin x + inc <= I32_MAX /\ cwin c' = cwin c
     | (_, GoAway _) => False
     end) /\
  (forall c v, 0 <= v ->
     match on_settings_initial_window c v with
     | (c', Continue) =>
       v <= FLOW_CONTROL_MAX_WINDOW /\ init_win c' = v /\ cwin c' = cwin c /\
       map sid (streams c') = map sid (streams c) /\
       map swin (streams c') = map (fun x => swin x + (v - init_win c)) (streams c)
     | (_, GoAway FlowControlError) =>
       FLOW_CONTROL_MAX_WINDOW < v \/
       exists x, In x (streams c) /\ (I32_MAX < swin x + (v - init_win c) \/ swin x + (v - init_win c) < I32_MIN)
     | (_, GoAway ProtocolError) => False
     | (_, RstStream _ _) => False
     end).
Proof.
  split; [exact window_update_conn|]. split; [exact window_update_stream|exact settings_initial_window_spec].
Qed.

Example overflow_is_error_nonvacuous :
  snd (on_window_update (conn_new true) 0 2147418113) = GoAway FlowControlError /\
  snd (on_window_update (conn_new true) 0 2147418112) = Continue /\
  snd (on_window_update (conn_new true) 0 0) = GoAway ProtocolError.
Proof. vm_compute. repeat split; reflexivity. Qed.

(** 3. Identifiers: 31 bits, strictly above everything issued before, parity of
    the role from an even watermark, [None] once the space is exhausted; new
    streams only while fewer than the peer's MAX_CONCURRENT_STREAMS are open. *)
Theorem ids_legal :
  (forall last client issued next, 0 <= last -> next_stream_id last client = Some (issued, next) ->
     next = last + 2 /\ 0 <= issued <= STREAM_ID_MAX /\ last - 0 <= issued + 0 /\ issued < next /\
     (Z.even last = true -> Z.odd issued = client)) /\
  (forall last client, STREAM_ID_MAX + 1 <= last -> next_stream_id last client = None) /\
  (forall c w chunks c' r, start_stream c w chunks = (c', r) ->
     (r <> None -> Z.of_nat (length (streams c)) < max_conc c /\ length (streams c') = S (length (streams c))) /\
     (r = None -> c' = c)).
Proof.
  split; [exact next_stream_id_spec|]. split; [exact next_stream_id_exhausted|exact start_stream_bound].
Qed.

Example ids_legal_nonvacuous :
  next_stream_id 0 true = Some (1, 2) /\ next_stream_id 2147483646 true = Some (2147483647, 2147483648) /\
  next_stream_id 2147483648 true = None.
Proof. vm_compute. repeat split; reflexivity. Qed.

(** 4. Progress.  With both windows positive, a legal max frame size and bytes
    left, a write pass emits at least one DATA byte and strictly reduces what
    is left (no zero-length spin, no stall with positive credit); every
    transition of a window from <= 0 to > 0 arms WRITABLE (theorem 2).
    Full statement (whole body sent under any legal eventually-sufficient
    schedule, by induction on the bytes left) follows from this measure
    decrease for chunk lists whose entries are positive; the iteration itself is
    not mechanised: [progress] is the step it rests on. *)
Theorem progress :
  forall fuel c x b rest x' cw' frames,
    body x = b :: rest -> 0 < b -> Forall (fun k => 0 <= k) rest ->
    0 < swin x <= I32_MAX -> 0 < cwin c <= I32_MAX -> 0 < max_frame c -> (0 < fuel)%nat ->
    write_stream fuel c x = Some (x', cw', frames) ->
    sumz (body x') < sumz (body x) /\ 0 < sumz frames.
Proof. exact progress_round. Qed.

Example progress_nonvacuous :
  write_stream 10 (mkconn 1 65535 16384 100 2 true [] false) (mkstream 1 1 [70000]) =
  Some (mkstream 1 0 [69999], 0, [1]).
Proof. vm_compute. reflexivity. Qed.

(** 5. Receiver: coalesced WINDOW_UPDATE increments stay legal (1 .. 2^31-1). *)
Theorem replenish_legal :
  forall cap q s inc, 0 < inc -> Forall (fun e => 0 < snd e <= I32_MAX) q ->
    Forall (fun e => 0 < snd e <= I32_MAX) (queue_window_update cap q s inc).
Proof. exact queue_window_update_legal. Qed.

Example replenish_legal_nonvacuous :
  queue_window_update 3 [(1, 10); (3, 2147483000)] 3 70000 = [(1, 10); (3, 2147483647)].
Proof. vm_compute. reflexivity. Qed.

(** Known finding (open): [start_stream] attaches a stream with whatever window
    the shared [Stream] object carries ([w]); nothing resets it to the backend
    connection's [init_win].  When [w] is larger (an H2 client that announced a
    large window) the write pass can exceed what the backend granted that stream:
    the theorem [never_over_window] is about the windows sozu holds, so the
    peer-side statement needs [w <= init_win]; this is the witness without it. *)
Example start_stream_window_refuted :
  exists c w chunks,
    init_win c = 65535 /\ cwin c = 1000000 /\
    let '(c', _) := start_stream c w chunks in
    match write_pass 100 c' with
    | Some (_, out) => exists s n, In (s, n) out /\ 65535 < fold_right Z.add 0 (map snd out)
    | None => False
    end.
Proof.
  exists (mkconn 1000000 65535 16384 100 0 true [] false), 6291456, [200000].
  split; [reflexivity|]. split; [reflexivity|].
  vm_compute. exists 1, 16384. split; [left; reflexivity|reflexivity].
Qed.
