(** C19 — executable model of the sans-io UDP flow core.

    Mirrors, function by function,
      lib/src/protocol/udp/manager.rs   (UdpManager)
      lib/src/protocol/udp/flow.rs      (UdpFlow)
      lib/src/protocol/udp/mod.rs       (FlowKey, Output, ClusterConfig, ...)
      lib/src/protocol/udp/proxy_protocol.rs (dgram_header)
    with [Common/Slab.v] as the exact [slab::Slab] (so FlowIds coincide).

    Representation choices
    - time: [N] milliseconds since the driver's base [Instant]; durations [N] ms.
    - an address is its IP octets (4 = V4, otherwise V6) and a port; flowinfo /
      scope_id of V6 addresses are always 0 in the driver and not represented.
    - the flow table is an association list used only through get/insert/remove
      (the manager never iterates its HashMap outside [check_invariants]).
    - the output queue: every entry point returns the outputs it pushed; the
      queue is FIFO and only the manager appends, so the concatenation of the
      per-call lists is what [poll_output] yields.
    - [DefaultHasher] (affinity hash) is the Section variable [hash].
    - GHOST state, not in the Rust code, used only to state theorems:
      [f_inc] (a unique incarnation number per admitted flow), [m_ninc] (the
      next incarnation number), [m_hw] (the debug-only
      [max_flows_high_water]), and the label [option N] attached to every
      output naming the incarnation it was emitted for.  [Run.v] erases them.

    No proofs in this file. *)
From Coq Require Import List NArith Bool Arith.
From SV Require Import Common.Slab.
Import ListNotations.

(* ---------------------------------------------------------------- types *)

Record addr := mkaddr { a_ip : list N; a_port : N }.

Definition addr_eq_dec (a b : addr) : {a = b} + {a <> b}.
Proof. decide equality; [apply N.eq_dec | apply (list_eq_dec N.eq_dec)]. Defined.
Definition addr_eqb (a b : addr) : bool := if addr_eq_dec a b then true else false.

Definition is_v4 (a : addr) : bool := Nat.eqb (length (a_ip a)) 4.

(** [FlowKey::from_src] (mod.rs:63): the key IS an address, port zeroed when
    the cluster keys on the source IP only. *)
Definition key_of (src : addr) (with_port : bool) : addr :=
  if with_port then src else mkaddr (a_ip src) 0.

(** [ClusterConfig] (mod.rs:206) *)
Record cfg := mkcfg {
  c_cluster : list N; c_with_port : bool; c_responses : N; c_requests : N;
  c_front : N; c_back : N; c_send_pp : bool; c_pp_every : bool }.

Inductive phase := Awaiting | Established | Closing.
Definition phase_eqb (a b : phase) : bool :=
  match a, b with
  | Awaiting, Awaiting | Established, Established | Closing, Closing => true
  | _, _ => false
  end.

(** [UdpFlow] (flow.rs:53) + ghost [f_inc] *)
Record flow := mkflow {
  f_client : addr; f_backend_id : option (list N); f_backend_addr : option addr;
  f_phase : phase; f_cfg : cfg; f_req : N; f_resp : N; f_deadline : N; f_gen : N;
  f_first : bool; f_pending : option (list N);
  f_inc : N }.

Inductive drop_reason := DInvalid | DTruncated | DNoBackend | DShed | DUnknownFlow.
Inductive metric :=
| MCreated | MEvicted | MShed | MIn (n : N) | MOut (n : N) | MDropped (r : drop_reason).

(** [Output] (mod.rs:126); [Transmit.segment_size] is always [None]. *)
Inductive output :=
| SelectBackend (id : nat) (cluster : list N) (key : N)
| OpenUpstream (id : nat) (backend : addr)
| SendToBackend (dst : addr) (payload : list N)
| SendToClient (dst : addr) (payload : list N)
| ArmTimer (deadline : N)
| Metric (m : metric)
| CloseFlow (id : nat)
| Drop (r : drop_reason).

(** an output with its ghost label: the incarnation it was emitted for *)
Definition lout : Type := (option N * output)%type.

(** [ManagerInput] + the three other public entry points *)
Inductive input :=
| IClient (src : addr) (payload : list N)
| IBackend (id : nat) (payload : list N)
| IResolved (id : nat) (backend : list N) (a : addr)
| ISetCluster (c : cfg)
| ISetMaxFlows (n : N)
| ISetMaxRx (n : N)
| IDrain
| ITimeout
| IAbort (id : nat)
| ICloseAll.

(** [UdpManager] (manager.rs:60) + ghosts [m_hw], [m_ninc] *)
Record mgr := mkmgr {
  m_table : list (addr * nat); m_flows : slab flow; m_max_flows : N; m_max_rx : N;
  m_cluster : cfg; m_draining : bool; m_armed : option N;
  m_hw : N; m_ninc : N }.

Definition set_table (m : mgr) t := mkmgr t (m_flows m) (m_max_flows m) (m_max_rx m) (m_cluster m) (m_draining m) (m_armed m) (m_hw m) (m_ninc m).
Definition set_flows (m : mgr) s := mkmgr (m_table m) s (m_max_flows m) (m_max_rx m) (m_cluster m) (m_draining m) (m_armed m) (m_hw m) (m_ninc m).
Definition set_armed (m : mgr) a := mkmgr (m_table m) (m_flows m) (m_max_flows m) (m_max_rx m) (m_cluster m) (m_draining m) a (m_hw m) (m_ninc m).

(* ------------------------------------------------------------ the table *)

Fixpoint tget (t : list (addr * nat)) (k : addr) : option nat :=
  match t with
  | [] => None
  | (k', v) :: t' => if addr_eqb k' k then Some v else tget t' k
  end.
Definition tremove (t : list (addr * nat)) (k : addr) : list (addr * nat) :=
  filter (fun kv => negb (addr_eqb (fst kv) k)) t.
Definition tinsert (t : list (addr * nat)) (k : addr) (v : nat) : list (addr * nat) :=
  (k, v) :: tremove t k.

Definition opt_nat_eqb (a b : option nat) : bool :=
  match a, b with
  | Some x, Some y => Nat.eqb x y
  | None, None => true
  | _, _ => false
  end.
Definition opt_N_eqb (a b : option N) : bool :=
  match a, b with
  | Some x, Some y => N.eqb x y
  | None, None => true
  | _, _ => false
  end.

(* ------------------------------------------------- proxy_protocol.rs:47 *)

Definition pp_signature : list N := [13;10;13;10;0;13;10;81;85;73;84;10]%N.
Definition be16 (n : N) : list N := [N.div n 256; N.modulo n 256]%N.

Definition dgram_header (client backend : addr) : list N :=
  if is_v4 client && is_v4 backend then
    pp_signature ++ [33; 18]%N ++ be16 12 ++ a_ip client ++ a_ip backend
      ++ be16 (a_port client) ++ be16 (a_port backend)
  else if negb (is_v4 client) && negb (is_v4 backend) then
    pp_signature ++ [33; 34]%N ++ be16 36 ++ a_ip client ++ a_ip backend
      ++ be16 (a_port client) ++ be16 (a_port backend)
  else pp_signature ++ [33; 0]%N ++ be16 0.

(* -------------------------------------------------------------- flow.rs *)

Definition u32_max : N := 4294967295%N.
Definition u64_mod : N := 18446744073709551616%N.
Definition sat_inc (x : N) : N := N.min (x + 1) u32_max.

Definition set_flow_live (f : flow) phase' bid baddr pending :=
  mkflow (f_client f) bid baddr phase' (f_cfg f) (f_req f) (f_resp f) (f_deadline f) (f_gen f)
         (f_first f) pending (f_inc f).

(** [UdpFlow::new] (flow.rs:94) *)
Definition flow_new (client : addr) (c : cfg) (now : N) (inc : N) : flow :=
  mkflow client None None Awaiting c 0 0 (now + c_front c) 0 (c_send_pp c) None inc.

(** [touch] (flow.rs:114) *)
Definition touch (f : flow) (timeout now : N) : flow :=
  mkflow (f_client f) (f_backend_id f) (f_backend_addr f) (f_phase f) (f_cfg f) (f_req f) (f_resp f)
         (now + timeout) (N.modulo (f_gen f + 1) u64_mod) (f_first f) (f_pending f) (f_inc f).

(** [on_client_datagram] (flow.rs:141) *)
Definition flow_on_client (f : flow) (now : N) : flow :=
  touch (mkflow (f_client f) (f_backend_id f) (f_backend_addr f) (f_phase f) (f_cfg f)
                (sat_inc (f_req f)) (f_resp f) (f_deadline f) (f_gen f) (f_first f) (f_pending f) (f_inc f))
        (c_front (f_cfg f)) now.

(** [on_backend_datagram] (flow.rs:167) *)
Definition flow_on_backend (f : flow) (now : N) : flow :=
  touch (mkflow (f_client f) (f_backend_id f) (f_backend_addr f) (f_phase f) (f_cfg f)
                (f_req f) (sat_inc (f_resp f)) (f_deadline f) (f_gen f) (f_first f) (f_pending f) (f_inc f))
        (c_back (f_cfg f)) now.

Definition requests_exhausted (f : flow) : bool :=
  negb (N.eqb (c_requests (f_cfg f)) 0) && N.leb (c_requests (f_cfg f)) (f_req f).
Definition responses_exhausted (f : flow) : bool :=
  negb (N.eqb (c_responses (f_cfg f)) 0) && N.leb (c_responses (f_cfg f)) (f_resp f).
(** [teardown_reason().is_some()] (flow.rs:232) *)
Definition teardown_due (f : flow) : bool := responses_exhausted f || requests_exhausted f.

(** [take_proxy_protocol] (flow.rs:266) *)
Definition take_pp (f : flow) : bool * flow :=
  if negb (c_send_pp (f_cfg f)) then (false, f)
  else if c_pp_every (f_cfg f) then (true, f)
  else if f_first f then
    (true, mkflow (f_client f) (f_backend_id f) (f_backend_addr f) (f_phase f) (f_cfg f) (f_req f)
                  (f_resp f) (f_deadline f) (f_gen f) false (f_pending f) (f_inc f))
  else (false, f).

(* ----------------------------------------------------------- manager.rs *)

Section Manager.
Variable hash : bool -> addr -> N.

(** [UdpManager::new] *)
Definition mgr_new (c : cfg) (max_flows max_rx : N) : mgr :=
  mkmgr [] sempty max_flows max_rx c false None max_flows 0.

Definition opt_min (a : option N) (d : N) : option N :=
  match a with None => Some d | Some x => Some (N.min x d) end.

(** the [min()] of [reschedule] (manager.rs:581) *)
Definition min_deadline (s : slab flow) : option N :=
  fold_left (fun acc kf => if phase_eqb (f_phase (snd kf)) Closing then acc
                           else opt_min acc (f_deadline (snd kf)))
            (sitems s) None.

(** [reschedule] (manager.rs:580) *)
Definition reschedule (m : mgr) : mgr * list lout :=
  let next := min_deadline (m_flows m) in
  if opt_N_eqb next (m_armed m) then (m, [])
  else (set_armed m next, match next with Some d => [(None, ArmTimer d)] | None => [] end).

(** [drop_datagram] (manager.rs:644) *)
Definition drop_datagram (r : drop_reason) : list lout :=
  [(None, Metric (MDropped r)); (None, Drop r)].

(** [close_flow] (manager.rs:598) *)
Definition close_flow (m : mgr) (id : nat) : mgr * list lout :=
  match sget (m_flows m) id with
  | None => (m, [])
  | Some f =>
    if phase_eqb (f_phase f) Closing then (m, [])
    else
      let key := key_of (f_client f) (c_with_port (m_cluster m)) in
      let t := m_table m in
      let t' :=
        if opt_nat_eqb (tget t key) (Some id) then tremove t key
        else
          let own := key_of (f_client f) (c_with_port (f_cfg f)) in
          if opt_nat_eqb (tget t own) (Some id) then tremove t own else t in
      let m1 := set_flows (set_table m t') (sremove (m_flows m) id) in
      let '(m2, o) := reschedule m1 in
      (m2, [(Some (f_inc f), Metric MEvicted); (Some (f_inc f), CloseFlow id)] ++ o)
  end.

(** tail shared by the three forwarding sites: close on an exhausted cap, else re-arm *)
Definition finish (m : mgr) (id : nat) (teardown : bool) : mgr * list lout :=
  if teardown then close_flow m id else reschedule m.

(** [forward_on_existing_flow] (manager.rs:349) *)
Definition forward_on_existing_flow (m : mgr) (id : nat) (payload : list N) (now : N) : mgr * list lout :=
  match sget (m_flows m) id with
  | None => (m, drop_datagram DUnknownFlow)
  | Some f =>
    match f_phase f with
    | Awaiting =>
      let f1 := touch (set_flow_live f (f_phase f) (f_backend_id f) (f_backend_addr f) (Some payload))
                      (c_front (f_cfg f)) now in
      reschedule (set_flows m (sset (m_flows m) id f1))
    | Established =>
      let f1 := flow_on_client f now in
      match f_backend_addr f1 with
      | None => (m, [])      (* [expect]: panics in the implementation; excluded by the invariant *)
      | Some backend =>
        let '(pp, f2) := take_pp f1 in
        let out := if pp then dgram_header (f_client f2) backend ++ payload else payload in
        let m1 := set_flows m (sset (m_flows m) id f2) in
        let '(m2, o) := finish m1 id (teardown_due f2) in
        (m2, [(Some (f_inc f), Metric (MIn (N.of_nat (length payload))));
              (Some (f_inc f), SendToBackend backend out)] ++ o)
      end
    | Closing => (m, drop_datagram DShed)
    end
  end.

(** [on_client_datagram] (manager.rs:245) *)
Definition on_client_datagram (m : mgr) (src : addr) (payload : list N) (now : N) : mgr * list lout :=
  if N.ltb (m_max_rx m) (N.of_nat (length payload)) then (m, drop_datagram DTruncated)
  else match c_cluster (m_cluster m) with
  | [] => (m, drop_datagram DNoBackend)
  | _ :: _ =>
    match payload with
    | [] => (m, drop_datagram DInvalid)
    | _ :: _ =>
      let key := key_of src (c_with_port (m_cluster m)) in
      match tget (m_table m) key with
      | Some id => forward_on_existing_flow m id payload now
      | None =>
        if m_draining m then (m, drop_datagram DShed)
        else if N.leb (m_max_flows m) (N.of_nat (slen (m_flows m))) then
          (m, (None, Metric MShed) :: drop_datagram DShed)
        else
          let inc := m_ninc m in
          let f0 := flow_new src (m_cluster m) now inc in
          let f := set_flow_live f0 (f_phase f0) (f_backend_id f0) (f_backend_addr f0) (Some payload) in
          let key_hash := hash (c_with_port (f_cfg f)) (key_of (f_client f) (c_with_port (f_cfg f))) in
          let '(s', id) := sinsert (m_flows m) f in
          let m1 := mkmgr (tinsert (m_table m) key id) s' (m_max_flows m) (m_max_rx m) (m_cluster m)
                          (m_draining m) (m_armed m) (m_hw m) (inc + 1) in
          let '(m2, o) := reschedule m1 in
          (m2, [(Some inc, Metric MCreated);
                (Some inc, SelectBackend id (c_cluster (m_cluster m)) key_hash)] ++ o)
      end
    end
  end.

(** [on_backend_resolved] (manager.rs:397) *)
Definition on_backend_resolved (m : mgr) (id : nat) (backend : list N) (a : addr) (now : N) : mgr * list lout :=
  match sget (m_flows m) id with
  | None => (m, drop_datagram DUnknownFlow)
  | Some f =>
    if negb (phase_eqb (f_phase f) Awaiting) then (m, [])
    else
      let f1 := set_flow_live f Established (Some backend) (Some a) (f_pending f) in
      let open := (Some (f_inc f), OpenUpstream id a) in
      match f_pending f1 with
      | Some payload =>
        let f2 := set_flow_live f1 (f_phase f1) (f_backend_id f1) (f_backend_addr f1) None in
        let f3 := flow_on_client f2 now in
        let '(pp, f4) := take_pp f3 in
        let out := if pp then dgram_header (f_client f4) a ++ payload else payload in
        let m1 := set_flows m (sset (m_flows m) id f4) in
        let '(m2, o) := finish m1 id (teardown_due f4) in
        (m2, [open; (Some (f_inc f), Metric (MIn (N.of_nat (length payload))));
              (Some (f_inc f), SendToBackend a out)] ++ o)
      | None =>
        (* unreachable in practice (an awaiting flow always buffers a datagram);
           note the CURRENT cluster's front_timeout, not the flow's own *)
        let f2 := touch f1 (c_front (m_cluster m)) now in
        let '(m2, o) := reschedule (set_flows m (sset (m_flows m) id f2)) in
        (m2, open :: o)
      end
  end.

(** [on_backend_datagram] (manager.rs:460) *)
Definition on_backend_datagram (m : mgr) (id : nat) (payload : list N) (now : N) : mgr * list lout :=
  if N.ltb (m_max_rx m) (N.of_nat (length payload)) then (m, drop_datagram DTruncated)
  else match sget (m_flows m) id with
  | None => (m, drop_datagram DUnknownFlow)
  | Some f =>
    if negb (phase_eqb (f_phase f) Established) then (m, drop_datagram DUnknownFlow)
    else
      let f1 := flow_on_backend f now in
      let m1 := set_flows m (sset (m_flows m) id f1) in
      let '(m2, o) := finish m1 id (teardown_due f1) in
      (m2, [(Some (f_inc f), Metric (MOut (N.of_nat (length payload))));
            (Some (f_inc f), SendToClient (f_client f1) payload)] ++ o)
  end.

(** [handle_timeout] (manager.rs:514): the loop body, then forget the armed
    deadline (the firing spent the shell's one-shot timer) and [reschedule] *)
Definition timeout_one (now : N) (acc : mgr * list lout) (id : nat) : mgr * list lout :=
  let '(m, outs) := acc in
  match sget (m_flows m) id with
  | Some f =>
    if N.leb (f_deadline f) now && negb (phase_eqb (f_phase f) Closing) then
      let '(m', o) := close_flow m id in (m', outs ++ o)
    else acc
  | None => acc
  end.

Definition handle_timeout (m : mgr) (now : N) : mgr * list lout :=
  let due := map fst (filter (fun kf => N.leb (f_deadline (snd kf)) now) (sitems (m_flows m))) in
  let '(m1, o1) := fold_left (timeout_one now) due (m, []) in
  let '(m2, o2) := reschedule (set_armed m1 None) in
  (m2, o1 ++ o2).

(** [close_all] (manager.rs:221); [abort_flow] = [close_flow] *)
Definition close_one (acc : mgr * list lout) (id : nat) : mgr * list lout :=
  let '(m, outs) := acc in
  let '(m', o) := close_flow m id in (m', outs ++ o).

Definition close_all (m : mgr) : mgr * list lout :=
  fold_left close_one (map fst (sitems (m_flows m))) (m, []).

(** [handle_input] / [handle_timeout] / [abort_flow] / [close_all] *)
Definition step (m : mgr) (now : N) (i : input) : mgr * list lout :=
  match i with
  | IClient src p => on_client_datagram m src p now
  | IBackend id p => on_backend_datagram m id p now
  | IResolved id b a => on_backend_resolved m id b a now
  | ISetCluster c =>
    (mkmgr (m_table m) (m_flows m) (m_max_flows m) (m_max_rx m) c (m_draining m) (m_armed m) (m_hw m) (m_ninc m), [])
  | ISetMaxFlows n =>
    (mkmgr (m_table m) (m_flows m) n (m_max_rx m) (m_cluster m) (m_draining m) (m_armed m) (N.max (m_hw m) n) (m_ninc m), [])
  | ISetMaxRx n =>
    (mkmgr (m_table m) (m_flows m) (m_max_flows m) n (m_cluster m) (m_draining m) (m_armed m) (m_hw m) (m_ninc m), [])
  | IDrain =>
    (mkmgr (m_table m) (m_flows m) (m_max_flows m) (m_max_rx m) (m_cluster m) true (m_armed m) (m_hw m) (m_ninc m), [])
  | ITimeout => handle_timeout m now
  | IAbort id => close_flow m id
  | ICloseAll => close_all m
  end.

(** a history: timestamped inputs; the trace pairs each with what it emitted *)
Fixpoint run (m : mgr) (h : list (N * input)) : mgr * list (N * input * list lout) :=
  match h with
  | [] => (m, [])
  | (now, i) :: h' =>
    let '(m1, o) := step m now i in
    let '(m2, tr) := run m1 h' in
    (m2, (now, i, o) :: tr)
  end.

End Manager.
