(** Model of [command/src/buffer/growable.rs] ([Buffer]).

    Abstraction: the model keeps the capacity, the read position and the
    pending data ([memory[position..end]]); the bytes outside that window are
    never observable through the API, so they are not represented.  What the
    unsafe [ptr::copy] in [shift] does to memory is therefore *modelled*
    (data preserved, position reset), not verified.

    Every definition mirrors the Rust method of the same name, including the
    two automatic-shift heuristics of [consume] and [fill]. *)
From Coq Require Import List Arith NArith Lia.
Import ListNotations.

Ltac case_if := match goal with |- context [if ?c then _ else _] => destruct c eqn:? end.

Record buf := mkbuf { cap : nat; pos : nat; dat : list N }.

Definition endp (b : buf) : nat := pos b + length (dat b).
Definition avail_data (b : buf) : nat := length (dat b).
Definition avail_space (b : buf) : nat := cap b - endp b.

Definition buf_ok (b : buf) : Prop := endp b <= cap b.

Definition with_capacity (c : nat) : buf := mkbuf c 0 [].

(** [Buffer::shift] *)
Definition shift (b : buf) : buf := mkbuf (cap b) 0 (dat b).

(** [Buffer::grow]: no-op when the capacity is already at least [n]. *)
Definition grow (b : buf) (n : nat) : buf :=
  if n <=? cap b then b else mkbuf n (pos b) (dat b).

(** [Buffer::shrink]: shifts first, even when it then refuses to shrink. *)
Definition shrink (b : buf) (target : nat) : buf :=
  if cap b <=? target then b
  else let b' := shift b in
       if target <? endp b' then b' else mkbuf target 0 (dat b').

(** [Buffer::consume]: returns the new buffer and the count consumed. *)
Definition consume (b : buf) (count : nat) : buf * nat :=
  let cnt := Nat.min count (avail_data b) in
  let b1 := mkbuf (cap b) (pos b + cnt) (skipn cnt (dat b)) in
  (if cap b / 2 <? pos b1 then shift b1 else b1, cnt).

(** [space().write(bytes)] followed by [fill(n)]: the [n = min (len bytes)
    space] first bytes are appended; then the fill heuristic may shift. *)
Definition fill_bytes (b : buf) (bs : list N) : buf * nat :=
  let cnt := Nat.min (length bs) (avail_space b) in
  let b1 := mkbuf (cap b) (pos b) (dat b ++ firstn cnt bs) in
  (if avail_space b1 <? avail_data b1 + cnt then shift b1 else b1, cnt).

(** [impl Write for Buffer] + [write_all]: loops [write] until everything is
    written or a write returns 0 (then [WriteZero]).  Fuel: each successful
    iteration writes at least one byte. *)
Fixpoint write_all (fuel : nat) (b : buf) (bs : list N) : buf * bool :=
  match bs with
  | [] => (b, true)
  | _ =>
    match fuel with
    | O => (b, false)
    | S fuel' =>
      let '(b', n) := fill_bytes b bs in
      if n =? 0 then (b', false) else write_all fuel' b' (skipn n bs)
    end
  end.

(* ------------------------------------------------------------------ *)
(** Lemmas: the invariant [buf_ok] and what each operation does to [dat]. *)

Lemma with_capacity_ok c : buf_ok (with_capacity c).
Proof. unfold buf_ok, endp; simpl; lia. Qed.

Lemma shift_ok b : buf_ok b -> buf_ok (shift b).
Proof. unfold buf_ok, endp, shift; simpl; lia. Qed.

Lemma shift_dat b : dat (shift b) = dat b.
Proof. reflexivity. Qed.

Lemma shift_cap b : cap (shift b) = cap b.
Proof. reflexivity. Qed.

Lemma grow_ok b n : buf_ok b -> buf_ok (grow b n).
Proof.
  unfold grow; intros H. destruct (n <=? cap b) eqn:E; [exact H|].
  apply Nat.leb_gt in E. unfold buf_ok, endp in *; simpl; lia.
Qed.

Lemma grow_dat b n : dat (grow b n) = dat b.
Proof. unfold grow; destruct (n <=? cap b); reflexivity. Qed.

Lemma grow_pos b n : pos (grow b n) = pos b.
Proof. unfold grow; destruct (n <=? cap b); reflexivity. Qed.

Lemma grow_cap b n : cap (grow b n) = Nat.max (cap b) n.
Proof.
  unfold grow; destruct (n <=? cap b) eqn:E; simpl.
  - apply Nat.leb_le in E; lia.
  - apply Nat.leb_gt in E; lia.
Qed.

Lemma shrink_ok b t : buf_ok b -> buf_ok (shrink b t).
Proof.
  unfold shrink; intros H. destruct (cap b <=? t); [exact H|].
  destruct (t <? endp (shift b)) eqn:E.
  - apply shift_ok, H.
  - apply Nat.ltb_ge in E. unfold buf_ok, endp, shift in *; simpl in *; lia.
Qed.

Lemma shrink_dat b t : dat (shrink b t) = dat b.
Proof.
  unfold shrink. destruct (cap b <=? t); [reflexivity|].
  destruct (t <? endp (shift b)); reflexivity.
Qed.

Lemma shrink_cap_le b t : cap (shrink b t) <= cap b.
Proof.
  unfold shrink. destruct (cap b <=? t) eqn:E; [lia|].
  apply Nat.leb_gt in E.
  destruct (t <? endp (shift b)); simpl; lia.
Qed.

Lemma shrink_cap_ge b t : t <= cap b -> t <= cap (shrink b t).
Proof.
  unfold shrink; intros H. destruct (cap b <=? t) eqn:E; [lia|].
  destruct (t <? endp (shift b)); simpl; lia.
Qed.

Lemma consume_ok b n : buf_ok b -> buf_ok (fst (consume b n)).
Proof.
  unfold consume, buf_ok, endp, avail_data; intros H. cbn [fst pos cap dat].
  pose proof (skipn_length (Nat.min n (length (dat b))) (dat b)) as L.
  destruct (cap b / 2 <? pos b + Nat.min n (length (dat b)));
    unfold shift; cbn [fst pos cap dat]; lia.
Qed.

Lemma consume_dat b n : dat (fst (consume b n)) = skipn n (dat b).
Proof.
  unfold consume, avail_data; simpl.
  assert (E : skipn (Nat.min n (length (dat b))) (dat b) = skipn n (dat b)).
  { destruct (Nat.le_ge_cases n (length (dat b))) as [L|L].
    - rewrite Nat.min_l by lia; reflexivity.
    - rewrite Nat.min_r by lia. rewrite !skipn_all2 by lia. reflexivity. }
  case_if; simpl; exact E.
Qed.

Lemma consume_cap b n : cap (fst (consume b n)) = cap b.
Proof. unfold consume; simpl. case_if; reflexivity. Qed.

Lemma consume_cnt b n : snd (consume b n) = Nat.min n (avail_data b).
Proof. reflexivity. Qed.

Lemma fill_bytes_ok b bs : buf_ok b -> buf_ok (fst (fill_bytes b bs)).
Proof.
  unfold fill_bytes, buf_ok, avail_space, avail_data, endp; intros H; simpl.
  set (cnt := Nat.min (length bs) (cap b - (pos b + length (dat b)))).
  assert (L : length (firstn cnt bs) = cnt).
  { rewrite firstn_length. unfold cnt. lia. }
  case_if; unfold shift; cbn [fst pos cap dat]; rewrite app_length, L; unfold cnt; lia.
Qed.

Lemma fill_bytes_dat b bs :
  dat (fst (fill_bytes b bs)) = dat b ++ firstn (snd (fill_bytes b bs)) bs.
Proof. unfold fill_bytes; simpl. case_if; reflexivity. Qed.

Lemma fill_bytes_cap b bs : cap (fst (fill_bytes b bs)) = cap b.
Proof. unfold fill_bytes; simpl. case_if; reflexivity. Qed.

Lemma fill_bytes_cnt b bs : snd (fill_bytes b bs) = Nat.min (length bs) (avail_space b).
Proof. reflexivity. Qed.

(** After [fill_bytes] the buffer holds the old data followed by the bytes
    that fitted, and the free space shrinks by exactly that count — or more
    space is *gained* by the shift, never lost. *)
Lemma fill_bytes_space b bs :
  buf_ok b ->
  avail_space b - snd (fill_bytes b bs) <= avail_space (fst (fill_bytes b bs)).
Proof.
  unfold fill_bytes, buf_ok, avail_space, avail_data, endp; intros H; simpl.
  set (cnt := Nat.min (length bs) (cap b - (pos b + length (dat b)))).
  assert (L : length (firstn cnt bs) = cnt).
  { rewrite firstn_length. unfold cnt. lia. }
  case_if; unfold shift; cbn [fst pos cap dat]; rewrite app_length, L; lia.
Qed.

Arguments fill_bytes : simpl never.
Arguments consume : simpl never.

Lemma write_all_ok fuel : forall b bs, buf_ok b -> buf_ok (fst (write_all fuel b bs)).
Proof.
  induction fuel as [|f IH]; intros b bs H; destruct bs as [|x xs]; cbn [write_all fst]; try exact H.
  pose proof (fill_bytes_ok b (x :: xs) H) as Hf.
  destruct (fill_bytes b (x :: xs)) as [b' n] eqn:E; cbn [fst snd] in Hf.
  destruct (n =? 0); [exact Hf|]. apply IH, Hf.
Qed.

Lemma write_all_cap fuel : forall b bs, cap (fst (write_all fuel b bs)) = cap b.
Proof.
  induction fuel as [|f IH]; intros b bs; destruct bs as [|x xs]; cbn [write_all fst]; try reflexivity.
  pose proof (fill_bytes_cap b (x :: xs)) as Hc.
  destruct (fill_bytes b (x :: xs)) as [b' n] eqn:E; cbn [fst snd] in Hc.
  destruct (n =? 0); [exact Hc|]. rewrite IH. exact Hc.
Qed.

(** When the bytes fit in the free space, [write_all] appends exactly them. *)
Lemma write_all_fits fuel : forall b bs,
  buf_ok b -> length bs <= avail_space b -> length bs <= fuel ->
  snd (write_all fuel b bs) = true /\ dat (fst (write_all fuel b bs)) = dat b ++ bs.
Proof.
  induction fuel as [|f IH]; intros b bs Hok Hfit Hfuel.
  - destruct bs; simpl in *; [split; [reflexivity|now rewrite app_nil_r]|lia].
  - destruct bs as [|x xs]; cbn [write_all].
    { split; [reflexivity|cbn [fst]; now rewrite app_nil_r]. }
    pose proof (fill_bytes_cnt b (x :: xs)) as Hn.
    pose proof (fill_bytes_dat b (x :: xs)) as Hd.
    pose proof (fill_bytes_ok b (x :: xs) Hok) as Hk.
    destruct (fill_bytes b (x :: xs)) as [b' n] eqn:E; cbn [fst snd] in Hn, Hd, Hk.
    rewrite Nat.min_l in Hn by exact Hfit. subst n.
    destruct (length (x :: xs) =? 0) eqn:Z; [apply Nat.eqb_eq in Z; simpl in Z; lia|].
    rewrite skipn_all.
    destruct f; cbn [write_all fst snd]; (split; [reflexivity|]); rewrite Hd, firstn_all; reflexivity.
Qed.

(** ... and leaves at least the remaining room. *)
Lemma write_all_fits_space fuel b bs :
  buf_ok b -> length bs <= avail_space b -> length bs <= fuel ->
  avail_space b - length bs <= avail_space (fst (write_all fuel b bs)).
Proof.
  intros Hok Hfit Hfuel. destruct fuel as [|f].
  - destruct bs; simpl in *; lia.
  - destruct bs as [|x xs]; cbn [write_all].
    { cbn [fst length]. lia. }
    pose proof (fill_bytes_cnt b (x :: xs)) as Hn.
    pose proof (fill_bytes_space b (x :: xs) Hok) as Hs.
    destruct (fill_bytes b (x :: xs)) as [b' n] eqn:E; cbn [fst snd] in Hn, Hs.
    rewrite Nat.min_l in Hn by exact Hfit. subst n.
    destruct (length (x :: xs) =? 0) eqn:Z; [apply Nat.eqb_eq in Z; simpl in Z; lia|].
    rewrite skipn_all. destruct f; cbn [write_all fst]; exact Hs.
Qed.
