(** C04 — lemmas. *)
From Coq Require Import List Arith NArith ZArith Bool Lia.
From SV Require Import Common.Trie C04.Model.
Import ListNotations.

Lemma split_last_app c l p s : split_last c l = Some (p, s) -> l = p ++ s.
Proof.
  revert p s; induction l as [|x r IH]; cbn [split_last]; intros p s H; [discriminate|].
  destruct (split_last c r) as [[p' s']|] eqn:E.
  - inversion H; subst. cbn. f_equal. apply IH; reflexivity.
  - destruct (N.eqb x c); inversion H; subst; reflexivity.
Qed.
