"""C13 — backends see the client's request plus truthful, unspoofable proxy metadata."""
import os, re
import vlib
from vlib import Case
import props.hdr_facts as F

ID = "C13"
COQ_DIRS = ["Common", "C13"]
COQ_TARGETS = ["C13/Props.vo", "C13/Run.vo"]
PROPS_MODULES = ["C13.Props"]
RUN_MODULE = "C13.Run"
RUN_FN = "run_case"
HARNESS_BIN = "c13"
HARNESS_BINS = ["c13", "c03bb", "c03h2bb"]
SHRINK_KEEP = ("ctx", "req", "rsp", "go")
RULE = ("cases: one listener/session context (peer v4/v6/absent, public address, http/https, sticky name, closing, "
        "elide/send X-Real-IP, correlation header name incl. names colliding with the reserved ones), a header list "
        "drawn from small colliding pools (every proxy-owned name in several case variants and positions, duplicates, "
        "empty/adversarial values that imitate sozu's own elements, cookies incl. the sticky one, optional trailers), "
        "pushed through front H1 (real kawa parse at a seeded segmentation) or front H2 (real pkawa::handle_header on an "
        "HPACK block) and serialised toward H1 (kawa block converter) or H2 (H2BlockConverter); then optionally a "
        "optionally a per-frontend request policy (rewrite host / path, header inject / delete); backend response through on_response_headers and optional per-frontend response edits (HSTS: append / set-if-absent / set). A separate malformed stream (forbidden bytes in names/values, "
        "broken cookie grammar) must be rejected. Non-trivial and distinct: the request is forwarded, carries >=1 "
        "client-supplied proxy-owned header and >=2 other end-to-end headers; distinct by op text.")
ASSUMPTIONS = [
    "Display of IpAddr/SocketAddr is an oracle: its text is part of the context; the theorems assume only its alphabet [0-9a-fA-F:.] (checked by the driver on every address it renders)",
    "kawa's H1 parser and block converter and loona-hpack are oracles; the model contains only the view they hand to the editor (Host detached, Cookie crumbs, OWS trimming) for the generated family, validated differentially",
    "acceptance of an HTTP/2 header list (pkawa validation) is C03's subject; C13 drives handle_header with lists it accepts",
    "the opentelemetry feature (traceparent rewriting) is off, as in the default build",
]
TRUSTED = ["translator props/c13.py:translate compares the arm order and literals of on_request_headers / on_response_headers / handle_trailer / the converter's Header arm with /repo"]


TRANSLATE_FALLBACK = ("a fact is soft only when the construct holding it cannot be FOUND; found-but-different or not understood fails the "
                      "check. Two facts can be soft: the headers on_request_headers pushes when some go through a private helper (the "
                      "in-process correspondence compares the written header list, names, values and order, with the model's on every "
                      "case) and the connection-specific names when is_connection_specific_header is renamed (every such name, in "
                      "several spellings, is sent toward an H2 backend on every check). Tested: the helper with two pushes swapped, and "
                      "the renamed function with keep-alive dropped, both exit 1 through the correspondence. Everything else is hard: "
                      "the arm chain, the literals, handle_trailer / elide_proxy_owned_trailers (named by the harness hooks, a rename "
                      "does not build) and their call sites, the converter's Header arm, the reserved list of validate_sozu_id_header")

ARM_NAMES = [b"connection", b"x-forwarded-proto", b"x-forwarded-port", b"x-forwarded-for", b"x-real-ip", b"forwarded",
             b"user-agent", b"x-request-id"]
PUSHED = [b"x-forwarded-for", b"forwarded", b"x-real-ip", b"x-forwarded-port", b"x-forwarded-proto", b"connection", b"x-request-id", b"<id>"]


def _fact(fails, what, assumed, fn, hard=False):
    """SOFT (`unreadable:`) only when the construct cannot be found at all (function gone / renamed); found but
    different or not understood is a HARD failure (when in doubt, hard)."""
    try:
        d = fn()
        if d:
            fails.append("%s: %s (the model assumes %s)" % (what, d, assumed))
    except F.Unreadable as ex:
        if not hard and (getattr(ex, "absent", False) or re.match(r"fn \w+ not found", str(ex))):
            fails.append("unreadable: %s: %s; the model assumes %s" % (what, ex, assumed))
        else:
            fails.append("%s: not the modelled construct: %s (the model assumes %s)" % (what, ex, assumed))
    except Exception as ex:
        fails.append("%s: not the modelled construct: %r (the model assumes %s)" % (what, ex, assumed))


def _absent(msg):
    ex = F.Unreadable(msg)
    ex.absent = True
    return ex


def _names(text):
    """ordered lower-cased header-name-like byte string literals of text, with offsets"""
    return [(o, x.lower()) for o, x in F.byte_strings(text) if re.fullmatch(rb"[A-Za-z0-9-]{2,}", x)]


def translate():
    """T-order / T-const, reading values: the order in which on_request_headers tests the names, the order of the
    headers it pushes, the literals of the Forwarded element, the elision lists, the H2 filter's names."""
    fails = []
    rd = lambda rel: F.strip_comments(open(os.path.join(vlib.REPO, rel)).read())
    ed, pk, cv = rd("lib/src/protocol/kawa_h1/editor.rs"), rd("lib/src/protocol/mux/pkawa.rs"), rd("lib/src/protocol/mux/converter.rs")
    ed = F.subst_consts(ed, F.consts(ed))
    pk = F.subst_consts(pk, F.consts(pk))
    cv = F.subst_consts(cv, F.consts(cv))

    def arms():
        req = F.fn_body(ed, "on_request_headers")
        cut = req.find("push_block(")
        head = req if cut < 0 else req[:cut]
        seq, seen = [], set()
        for o, n in _names(head):
            if n in ARM_NAMES and n not in seen:
                seen.add(n)
                seq.append((o, n))
        mi = re.search(r"\w+\(\s*\w+\s*,\s*(?:&\s*)?self\.sozu_id_header", head)
        if mi:
            seq.append((mi.start(), b"<id>"))
        seq = [n for _, n in sorted(seq)]
        want = ARM_NAMES + [b"<id>"]
        if set(seq) != set(want):
            raise F.Unreadable("names tested before the first push: %r" % seq)
        return None if seq == want else "the names are tested in the order %r" % seq
    _fact(fails, "editor.rs on_request_headers arm chain", "connection, X-Forwarded-Proto, -Port, -For, X-Real-IP (when eliding), Forwarded, User-Agent, X-Request-Id, correlation header", arms, hard=True)

    def pushed():
        req = F.fn_body(ed, "on_request_headers")
        got = []
        for m in re.finditer(r"key\s*:\s*(?:kawa::)?Store::\w+\(\s*(b\"[^\"]+\"|[^;]*?sozu_id_header[^;]*?)\)\s*,", req):
            t = m.group(1)
            got.append(F.unescape(t[2:-1]).lower() if t.startswith('b"') else b"<id>")
        got = [g for g in got if g != b"traceparent"]     # cfg(feature = "opentelemetry"), off in the build
        if len(got) < len(PUSHED) and re.search(r"\bfn\s+\w+\([^)]*\)\s*\{[^{}]*push_block\(\s*(?:kawa::)?Block::Header", ed):
            # the pushes go through a private helper: the literal `key: Store::..` blocks are not all in this function
            raise _absent("header blocks pushed here: %r (others through a helper)" % got)
        if sorted(got) != sorted(PUSHED):
            raise F.Unreadable("header blocks pushed: %r" % got)
        return None if got == PUSHED else "headers are pushed in the order %r" % got
    _fact(fails, "editor.rs on_request_headers pushes", "X-Forwarded-For, Forwarded, X-Real-IP, X-Forwarded-Port, X-Forwarded-Proto, Connection, X-Request-Id, correlation header", pushed)

    def literals():
        lits = [x for _, x in F.byte_strings(ed)]
        for need in (b';for="', b'";by=', b", proto=", b"proto=", b"; Path=/"):
            if need not in lits:
                raise F.Unreadable("literal %r is not in editor.rs" % need)
        if not re.search(r'", \{\w+\}"', ed):
            raise F.Unreadable('the `", {peer}"` element appended to X-Forwarded-For is not recognised')
    _fact(fails, "editor.rs literals", 'proto=<p>;for="<peer>";by=<public>, `, ` separators, `; Path=/`', literals, hard=True)

    def trailer_list():
        got = {n for _, n in _names(F.fn_body(pk, "handle_trailer"))}
        want = {b"x-real-ip", b"x-forwarded-for", b"forwarded", b"x-request-id"}
        if not want & got:
            raise F.Unreadable("no elided name is spelled in handle_trailer")
        return None if got == want else "handle_trailer names %r" % sorted(got)
    _fact(fails, "pkawa.rs handle_trailer elision", "x-real-ip | x-forwarded-for | forwarded | x-request-id", trailer_list, hard=True)

    def owned_trailers():
        body = F.fn_body(pk, "elide_proxy_owned_trailers")
        got = {n for _, n in _names(body)}
        want = {b"x-real-ip", b"x-forwarded-for", b"forwarded", b"x-request-id"}
        if not want & got or not re.search(r"\w+\(\s*\w+\s*,\s*&?\s*sozu_id_header\s*\)", body):
            raise F.Unreadable("names %r / the correlation header test are not recognised" % sorted(got))
        return None if got == want else "elide_proxy_owned_trailers names %r" % sorted(got)
    _fact(fails, "pkawa.rs elide_proxy_owned_trailers", "the four attribution names + the correlation header", owned_trailers, hard=True)

    def call_sites():
        h1, h2 = rd("lib/src/protocol/mux/h1.rs"), rd("lib/src/protocol/mux/h2.rs")
        n1, n2 = len(re.findall(r"\belide_proxy_owned_trailers\s*\(", h1)), len(re.findall(r"\belide_proxy_owned_trailers\s*\(", h2))
        if n1 == 0 and n2 == 0:
            raise _absent("no call to elide_proxy_owned_trailers in h1.rs / h2.rs")
        if n1 < 2 or n2 < 1:
            raise F.Unreadable("elide_proxy_owned_trailers is called %d time(s) in h1.rs and %d in h2.rs" % (n1, n2))
        # in h1.rs the call runs as soon as the parser is IN the trailer section (lines parsed so far are forwarded at once)
        for mc in re.finditer(r"\belide_proxy_owned_trailers\s*\(", h1):
            back = h1[max(0, mc.start() - 700):mc.start()]
            mp = list(re.finditer(r"matches!\(\s*[\w.]*parsing_phase\s*,([^()]*)\)", back))
            if not mp:
                raise F.Unreadable("the parsing phases on which h1.rs elides the trailers are not recognised")
            phases = set(re.findall(r"ParsingPhase::(\w+)", mp[-1].group(1)))
            if not {"Trailers", "Terminated"} <= phases:
                return "h1.rs elides the proxy-owned trailers only in phase(s) %r: fields parsed while the section is incomplete are forwarded before" % sorted(phases)
    _fact(fails, "h1.rs / h2.rs trailer filtering", "both H1 parse sites and the H2 trailer path call elide_proxy_owned_trailers", call_sites, hard=True)

    def conn_specific():
        got = {n for _, n in _names(F.fn_body(pk, "is_connection_specific_header"))}
        want = {b"connection", b"proxy-connection", b"transfer-encoding", b"upgrade", b"keep-alive"}
        if not got:
            raise F.Unreadable("no name is spelled in is_connection_specific_header")
        return None if got == want else "connection-specific names %r" % sorted(got)
    _fact(fails, "pkawa.rs is_connection_specific_header", "connection, proxy-connection, transfer-encoding, upgrade, keep-alive", conn_specific)

    def h2_arm():
        m = re.search(r"impl\s*<[^>]*>\s*BlockConverter<[^>]*>\s*for\s+H2BlockConverter", cv)
        body = cv[m.start():] if m else cv
        lits = {n for _, n in _names(body)}
        for need in (b"host", b"http2-settings", b"trailer", b"te", b"trailers"):
            if need not in lits:
                raise F.Unreadable("literal %r is not in the converter" % need)
        # the first-byte dispatch in front of the name tests: every name must be reachable in both cases
        md = re.search(r"\bmatch\s+\w+\.first\(\)\s*\{", body)
        if md:
            i0 = body.find("{", md.start())
            inner = body[i0 + 1:F.matching(body, i0)]
            reach = {}
            for ma in re.finditer(r"Some\(([^()]*)\)\s*=>\s*\{", inner):
                first = F.pattern_set(ma.group(1))
                a0 = inner.find("{", ma.end() - 1)
                arm = inner[a0:F.matching(inner, a0) + 1]
                names = {n for _, n in _names(arm)}
                for callee in set(re.findall(r"\b(\w+)\(\s*\w+\s*\)", arm)):
                    try:
                        names |= {n for _, n in _names(F.fn_body(pk, callee))}
                    except F.Unreadable:
                        pass
                for n in names:
                    reach.setdefault(n, set()).update(first)
            for n in (b"connection", b"proxy-connection", b"transfer-encoding", b"upgrade", b"keep-alive", b"host", b"http2-settings", b"trailer", b"te"):
                need = {n[0], n[:1].upper()[0]}
                if not need <= reach.get(n, set()):
                    return "the first-byte dispatch does not lead %r (both cases) to its test" % n
        sets = []
        for mm in re.finditer(r"\.any\(\s*\|\s*&?\s*(\w+)\s*\|", body):
            st = body.find("(", mm.start())
            try:
                sets.append(F.eval_pred(body[mm.end():F.matching(body, st, "(", ")")], mm.group(1)))
            except F.Unreadable:
                pass
        if (set(range(0, 33)) | set(range(127, 256))) not in sets or (set(range(0, 9)) | set(range(10, 32)) | {127}) not in sets:
            raise F.Unreadable("the defensive name / value byte filters of the Header arm are not recognised")
    _fact(fails, "converter.rs Header arm", "host, http2-settings, trailer, te != trailers dropped; names <= 0x20 or >= 0x7f and values with C0/DEL dropped", h2_arm, hard=True)

    def retry_once():
        rt = rd("lib/src/protocol/mux/router.rs")
        con = F.fn_body(rt, "connect")
        m = re.search(r"let\s+(\w+)\s*=\s*stream\.attempts\s*==\s*0\s*;", con)
        inc = re.search(r"stream\.attempts\s*\+=\s*1\s*;", con)
        if not m or not inc or m.start() > inc.start():
            return "connect does not tell the first attempt from a retry (attempts == 0 read before the increment)"
        call = re.search(r"\.route_from_request\(([^;]*?)\)\s*\.map_err", con, re.S)
        if not call or not re.search(r"\b%s\b" % m.group(1), call.group(1)):
            return "route_from_request is not told whether this is the first attempt"
        sig = re.search(r"fn\s+route_from_request\s*<[^>]*>\s*\(([^)]*)\)", rt, re.S)
        flag = [x.strip().split(":")[0].strip() for x in sig.group(1).split(",") if re.search(r":\s*bool\s*$", x.strip())] if sig else []
        body = F.fn_body(rt, "route_from_request")
        ap = re.search(r"\bapply_request_rewrites_and_headers\s*\(", body)
        if not ap or len(flag) != 1:
            raise F.Unreadable("the call of apply_request_rewrites_and_headers / the flag parameter are not recognised")
        if not re.search(r"if\s+%s\s*\{\s*$" % flag[0], body[:ap.start()].rstrip()):
            return "the request policy is applied on every connection attempt (not guarded by the first-attempt flag)"
    _fact(fails, "router.rs connect / route_from_request", "the request-side policy is applied on the first connection attempt only", retry_once, hard=True)

    def h2_scheme():
        h2 = rd("lib/src/protocol/mux/h2.rs")
        m = re.search(r"let\s+scheme\s*:[^=]*=\s*if\s+([^{]*?)\s*(==|!=)\s*Protocol::(HTTPS|HTTP)\s*\{\s*b\"(\w+)\"\s*\}\s*else\s*\{\s*b\"(\w+)\"\s*\}\s*;", h2)
        if not m:
            raise F.Unreadable("the scheme given to the H2 converter (write_streams) is not recognised")
        if "listener" not in m.group(1) or "protocol()" not in m.group(1):
            return "the scheme given to the H2 converter is not read from the listener's protocol (%s)" % re.sub(r"\s+", "", m.group(1))
        then_, else_ = m.group(4), m.group(5)
        on_match = (m.group(2) == "==")
        val = {}
        val[m.group(3)] = then_ if on_match else else_
        val["HTTP" if m.group(3) == "HTTPS" else "HTTPS"] = else_ if on_match else then_
        if val != {"HTTPS": "https", "HTTP": "http"}:
            return ":scheme toward an HTTP/2 backend is %r (the model: the listener's protocol)" % val
        cv_ = rd("lib/src/protocol/mux/converter.rs")
        if not re.search(r"encode_header_into\(\s*\(\s*b\":scheme\"\s*,\s*self\.scheme\s*\)", cv_):
            return "the converter does not write :scheme from the value it was built with"
    _fact(fails, "h2.rs write_streams / converter.rs :scheme", ":scheme toward an HTTP/2 backend = the listener's protocol", h2_scheme, hard=True)

    def group_closed():
        # a header group is only started when its closing Flags block is queued (HPACK contexts stay in step)
        body = re.sub(r"\s+", "", F.fn_body(cv, "call"))
        m = re.search(r"if([^{]*)\{kawa\.blocks\.push_front\(block\);returnfalse;\}", body)
        if not m:
            return "H2BlockConverter::call does not put a header block back when its group is not closed yet"
        conj = set(m.group(1).split("&&"))
        want = {"self.out.is_empty()", "matches!(block,Block::Header(_))", "matches!(kawa.parsing_phase,ParsingPhase::Trailers)",
                "!kawa.blocks.iter().any(|b|matches!(b,Block::Flags(_)))"}
        got = set(conj)
        if got != want:
            return "a trailer field is held back on %r (the model: nothing encoded yet, a Header block, parser in the trailer section, no Flags block queued)" % sorted(got)
    _fact(fails, "converter.rs H2BlockConverter::call", "a trailer section is started only when the Flags block closing it is queued", group_closed, hard=True)

    def request_id():
        h1 = rd("lib/src/protocol/mux/h1.rs")
        mr = re.search(r"stream\.context\.reset\(\)\s*;", h1)
        if not mr:
            raise F.Unreadable("the keep-alive reset of the request context is not found")
        if not re.search(r"stream\.context\.id\s*=\s*Ulid::generate\(\)\s*;\s*$", h1[:mr.start()].rstrip()):
            return "the keep-alive reset does not give the next request an id of its own (context.id = Ulid::generate() before context.reset())"
    _fact(fails, "h1.rs keep-alive reset", "every request of a keep-alive connection gets its own id", request_id, hard=True)

    # ---- not observed by any driver: stays hard, read as values
    def reserved():
        st = rd("command/src/state.rs")
        body = F.fn_body(st, "validate_sozu_id_header")
        got = [x for _, x in F.byte_strings(body) if re.fullmatch(rb"[a-z0-9-]{2,}", x)]
        if len(got) < 5:
            # the list may have been moved to a constant
            m = re.search(r"\b(?:const|static)\s+\w+\s*:[^=;]*=\s*&?\[(.*?)\]\s*;", st, re.S)
            cand = [x for _, x in F.byte_strings(m.group(1))] if m else []
            got = [x for x in cand if re.fullmatch(rb"[a-z0-9-]{2,}", x)] if b"x-request-id" in cand else got
        model = re.search(r"Definition reserved_id_names.*?\]\.", open(os.path.join(vlib.COQ, "C13/Model.v")).read(), re.S).group(0)
        want = [x.encode() for x in re.findall(r'B "([a-z0-9-]+)"', model)]
        if set(got) != set(want):
            return "reserved names %r differ from the model's reserved_id_names (%r)" % (sorted(set(got) ^ set(want)), "symmetric difference")
        if not re.search(r"eq_ignore_ascii_case|to_ascii_lowercase|to_lowercase", body):
            return "the reserved names are no longer compared case-insensitively"
        if len(re.findall(r"\bvalidate_sozu_id_header\s*\(", st)) < 5:
            return "the add and update paths of the HTTP/HTTPS listeners no longer all call validate_sozu_id_header"
    _fact(fails, "state.rs validate_sozu_id_header", "the 23 reserved names, case-insensitive, on the add and update paths", reserved, hard=True)
    return fails


# ---------------------------------------------------------------------------
V4 = ["10.0.0.1", "192.168.1.254", "1.2.3.4", "255.255.255.255", "0.0.0.0", "127.0.0.1", "203.0.113.7"]
V6 = ["::1", "::", "2001:db8::1", "fe80::1", "2001:db8:85a3::8a2e:370:7334", "::ffff:1.2.3.4", "ff02::1:ff00:42",
      "1:2:3:4:5:6:7:8", "2001:db8:0:1:1:1:1:1", "64:ff9b::c000:221"]
CROCK = "0123456789ABCDEFGHJKMNPQRSTVWXYZ"
IDNAMES = ["Sozu-Id"] * 6 + ["X-Edge-Id", "x-corr", "Sozu-Id", "X-Request-Id", "Forwarded", "X-Real-IP", "Connection", "Via"]
OWNED = ["X-Forwarded-For", "x-forwarded-for", "X-FORWARDED-FOR", "Forwarded", "FORWARDED", "forwarded", "X-Real-IP",
         "x-real-ip", "X-Forwarded-Proto", "x-forwarded-proto", "X-Forwarded-Port", "X-FORWARDED-PORT", "X-Request-Id",
         "x-request-id", "X-REQUEST-ID", "Connection", "connection", "CONNECTION", "Sozu-Id", "sozu-id", "SOZU-ID",
         "X-Edge-Id", "x-corr"]
OTHER = ["Accept", "accept", "X-A", "x-a", "X-B", "User-Agent", "Via", "X-Forwarded", "X-Forwarded-Fo", "X-Forwarded-For2",
         "Forwarded-For", "X-Real-IPs", "X-Request-Idx", "Sozu-Idx", "TE", "Upgrade", "Keep-Alive", "Proxy-Connection",
         "Trailer", "HTTP2-Settings", "X^~", "a", "Content-Type", "Authorization"]
VALUES = ["", "a", "b", "1.2.3.4", "close", "Close", "CLOSE", "keep-alive", "https", "http", "8080", "80", "for=1.1.1.1",
          "a, b", "6.6.6.6, 10.0.0.1", "10.0.0.1", "x\ty", "a  ", 'proto=https;for="9.9.9.9:1";by=1.1.1.1',
          "trailers", "gzip", "01ARZ3NDEKTSV4RRFFQ69G5FAV", "unknown, ::1", "a,", ",", "  lead", "close, upgrade", "x" * 70]
COOKIES = ["a=b", "a=b; c=d", "SERVERID=s1", "a=b; SERVERID=s1; c=d", "SERVERID=s1; SERVERID=s2", "x", "", "a=b;c=d",
           "a=b; ", "a==b", "a=b=c; d", "SERVERIDx=1", "serverid=1", "SOZUBALANCEID=zz; a=b", "a=b;  c=d", "=v", "k=",
           "a=b ; c=d", "a b=c d"]
BAD_COOKIES = ["a=b\x01", "a=b; c\x7f=d", "a=b, \x80"]
STICKY = ["SERVERID", "SERVERID", "SOZUBALANCEID"]
METHODS = ["GET", "POST", "HEAD", "OPTIONS", "PUT", "DELETE", "get", "M-SEARCH"]
TARGETS = ["/", "/a/b?c=d", "/%20x", "/a;b=c", "//x", "/" + "p" * 40]
HOSTS = ["example.com", "a.example.com:8080", "EXAMPLE.com", "[::1]:80", "x"]


def b(s):
    return s.encode("latin1") if isinstance(s, str) else s


def ulid(rng):
    return rng.choice("01234567") + "".join(rng.choice(CROCK) for _ in range(25))


def ip(rng):
    return rng.choice(V4 + V6) if rng.random() < 0.7 else rng.choice(V6)


def ctx_op(rng):
    has_peer = rng.random() < 0.9
    ss = rng.random() < 0.5
    return ["ctx", int(has_peer), b(ip(rng)), rng.choice([54321, 1, 65535, 443, 8080]), b(ip(rng)),
            rng.choice([80, 443, 8080, 65535, 1]), int(rng.random() < 0.5), b(rng.choice(STICKY)),
            int(rng.random() < 0.25), int(rng.random() < 0.5), int(rng.random() < 0.5), b(ulid(rng)),
            b(rng.choice(IDNAMES)), int(ss), b(rng.choice(["s1", "s2", "srv-0", ""])) if ss else b""]


def header_list(rng, front, idname, n_lo=0, n_hi=9):
    hs = []
    n = rng.randint(n_lo, n_hi)
    for _ in range(n):
        r = rng.random()
        if r < 0.45:
            name = rng.choice(OWNED + [idname, idname.lower(), idname.upper()])
        elif r < 0.85:
            name = rng.choice(OTHER)
        else:
            name = "Cookie" if rng.random() < 0.7 else rng.choice(["cookie", "COOKIE"])
        if name.lower() == "cookie":
            val = rng.choice(COOKIES)
        else:
            val = rng.choice(VALUES)
        hs.append((name, val))
    return hs


def h2_clean(hs, authority, rng):
    """lower-case the names and drop what HTTP/2 validation refuses (C03's subject)"""
    out = []
    for (n, v) in hs:
        n = n.lower()
        if n in ("connection", "proxy-connection", "transfer-encoding", "upgrade", "keep-alive"):
            continue
        if n == "te":
            v = "trailers"
        if n == "content-length":
            continue
        out.append((n, v))
    if rng.random() < 0.3:
        out.insert(rng.randint(0, len(out)), ("host", authority))
    return out


def request_case(rng, cid, with_rsp):
    ops = [ctx_op(rng)]
    idname = ops[0][12].decode()
    front = rng.choice([1, 1, 2])
    back = rng.choice([1, 1, 2])
    authority = rng.choice(HOSTS)
    method = rng.choice(METHODS if front == 1 else [m for m in METHODS if m != "get"] + ["GET"])
    target = rng.choice(TARGETS)
    hs = header_list(rng, front, idname)
    trailers = []
    body_raw, body_dec = b"", b""
    if front == 1:
        if rng.random() < 0.92:
            hs.insert(rng.randint(0, len(hs)), (rng.choice(["Host", "host", "HOST"]), authority))
        mode = rng.random()
        if mode < 0.25:
            hs.append(("Transfer-Encoding", "chunked"))
            body_raw, body_dec = b"3\r\nabc\r\n0\r\n", b"abc"
            if rng.random() < 0.6:
                trailers = header_list(rng, front, idname, 1, 3)
                trailers = [(n, v) for (n, v) in trailers if n.lower() not in ("cookie",)] or [("X-T", "1")]
            else:
                body_raw += b"\r\n"
        elif mode < 0.5:
            body_dec = b(rng.choice(["", "x", "hello"]))
            body_raw = body_dec
            hs.insert(rng.randint(0, len(hs)), ("Content-Length", str(len(body_dec))))
        hs = [(n, v) for (n, v) in hs if not (n.lower() in ("te", "upgrade") and False)]
    else:
        hs = h2_clean(hs, authority, rng)
        if rng.random() < 0.3:
            trailers = [(n.lower(), v) for (n, v) in header_list(rng, front, idname, 1, 3)]
            trailers = [(n, v) for (n, v) in trailers
                        if n not in ("connection", "proxy-connection", "transfer-encoding", "upgrade", "keep-alive", "te", "cookie", "host")] or [("grpc-status", "0")]
    for (n, v) in hs:
        ops.append(["h", b(n), b(v)])
    for (n, v) in trailers:
        ops.append(["t", b(n), b(v)])
    if body_raw or body_dec:
        ops.append(["body", body_raw, body_dec])
    if rng.random() < 0.3:
        # per-frontend request policy: rewrite host / path, inject / delete request headers
        if rng.random() < 0.4:
            ops.append(["rwhost", b(rng.choice(["new.example", "backend.internal:8080"]))])
        if rng.random() < 0.3:
            ops.append(["rwpath", b(rng.choice(["/new", "/v2/a?b=c"]))])
        for _ in range(rng.randint(0, 3)):
            ops.append(["hreq", b(rng.choice(["X-New", "X-A", "x-a", "Accept", "Host", "host", "X-Forwarded-Host", "Sozu-Id", "X-Forwarded-For", "Via", "X-B"])),
                        b(rng.choice(["", "", "v", "evil.example", "1.1.1.1"]))])
    if front == 1:
        total = 40 + sum(len(n) + len(v) + 4 for n, v in hs)
        if rng.random() < 0.6:
            ops.append(["cuts"] + sorted(rng.randint(1, total) for _ in range(rng.randint(1, 4))))
        ops.append(["req", front, back, b(method), b(target)])
    else:
        ops.append(["req", front, back, b(method), b(target), b(authority), b(rng.choice(["http", "https"]))])
    owned_in = sum(1 for n, _ in hs if n.lower() in [o.lower() for o in OWNED] or n.lower() == idname.lower())
    tags = dict(owned=owned_in, other=len(hs) - owned_in)
    if with_rsp:
        rfront = rng.choice([1, 1, 2])
        rback = front  # the response goes back to the protocol the request came from
        rhs = []
        for _ in range(rng.randint(0, 6)):
            r = rng.random()
            name = rng.choice(["Connection", "connection", "Set-Cookie", "Sozu-Id", idname, "Server", "X-A", "Strict-Transport-Security",
                               "Content-Type", "Via", "X-Request-Id", "Keep-Alive", "Upgrade"]) if r < 0.8 else rng.choice(OTHER)
            rhs.append((name, rng.choice(VALUES + ["SERVERID=evil; Path=/", "max-age=1"])))
        if rfront == 2:
            rhs = [(n.lower(), v) for (n, v) in rhs if n.lower() not in ("connection", "proxy-connection", "transfer-encoding", "upgrade", "keep-alive", "te")]
        else:
            rhs = [(n, v) for (n, v) in rhs if n.lower() not in ("host", "cookie")]
            bd = b(rng.choice(["", "ok", "hello"]))
            rhs.insert(rng.randint(0, len(rhs)), ("Content-Length", str(len(bd))))
            ops_body = ["body", bd, bd]
        for (n, v) in rhs:
            ops.append(["h", b(n), b(v)])
        if rfront == 1 and bd:
            ops.append(ops_body)
        if rng.random() < 0.45:
            # per-frontend response edits (HSTS is a SetIfAbsent / Set edit of strict-transport-security)
            for _ in range(rng.randint(1, 3)):
                key = rng.choice(["strict-transport-security", "Strict-Transport-Security", "X-A", "server", "Sozu-Id", "X-New", "connection"])
                ops.append(["edit", rng.choice([0, 0, 1, 1, 2]), b(key), b(rng.choice(["max-age=31536000; includeSubDomains", "v", "", "max-age=1"]))])
        ops.append(["rsp", rfront, rback, b(rng.choice(["200", "404", "500"]))])
    return Case(cid, ops, tags)


def malformed_case(rng, cid):
    ops = [ctx_op(rng)]
    hs = [("Host", "example.com")] + header_list(rng, 1, "Sozu-Id", 0, 4)
    kind = rng.choice(["value", "name", "cookie"])
    if kind == "value":
        bad = (rng.choice(OTHER + OWNED), "a" + rng.choice(["\x01", "\x7f", "\x80", "\x00", "\x0b"]) + "b")
    elif kind == "name":
        bad = ("X" + rng.choice(["(", ")", "[", "]", "{", "}", ",", ";", "=", "@", "\x7f"]) + "Y", "v")
    else:
        bad = ("Cookie", rng.choice(BAD_COOKIES))
    hs.insert(rng.randint(0, len(hs)), bad)
    for (n, v) in hs:
        ops.append(["h", b(n), b(v)])
    ops.append(["req", 1, rng.choice([1, 2]), b"GET", b"/"])
    return Case(cid, ops, dict(owned=0, other=0))


def gen_cases(rng, tier):
    n = {"quick": 6000, "thorough": 100000, "search": 20000}.get(tier, 6000)
    out = []
    for i in range(n):
        r = i % 10
        if r < 5:
            out.append(request_case(rng, "q%d" % i, False))
        elif r < 9:
            out.append(request_case(rng, "r%d" % i, True))
        else:
            out.append(malformed_case(rng, "m%d" % i))
    return out


def bb_cases(rng, tier):
    """raw HTTP/1.1 requests for the black-box tier (real worker + recording backend, driver c03bb):
    adversarial header lists on the default listener (correlation header Sozu-Id)"""
    n = {"quick": 100, "thorough": 1200}.get(tier, 100)
    out = []
    for i in range(n):
        k = rng.randint(1, 3)
        raw = b""
        for _ in range(k):
            hs = [(nm, v) for (nm, v) in header_list(rng, 1, "Sozu-Id", 0, 7)
                  if nm.lower() not in ("te", "upgrade", "connection", "content-length", "transfer-encoding", "cookie") and nm != ""]
            hs.insert(rng.randint(0, len(hs)), ("Host", rng.choice(["x", "example.com", "a.b:8080"])))
            body = b""
            if rng.random() < 0.4:
                hs.append(("Transfer-Encoding", "chunked"))
                body = b"3\r\nabc\r\n0\r\n"
                for (nm, v) in header_list(rng, 1, "Sozu-Id", 0, 3):
                    if nm.lower() != "cookie" and nm != "":
                        body += b(nm) + b": " + b(v) + b"\r\n"
                body += b"\r\n"
            else:
                hs.append(("Content-Length", "0"))
            raw += b(rng.choice(["GET", "POST"])) + b" " + b(rng.choice(TARGETS)) + b" HTTP/1.1\r\n"
            for (nm, v) in hs:
                raw += b(nm) + b": " + b(v) + b"\r\n"
            raw += b"\r\n" + body
        ops = []
        if rng.random() < 0.6:
            ops.append(["cuts"] + sorted(rng.randint(1, max(1, len(raw) - 1)) for _ in range(rng.randint(1, 4))))
        ops.append(["raw", raw])
        out.append(Case("y%d" % i, ops, dict(kind="bb")))
    out += trailer_split_cases(rng, {"quick": 10, "thorough": 120}.get(tier, 10))
    out += h1_to_h2c_cases(rng, {"quick": 16, "thorough": 200}.get(tier, 16))
    # a frontend with a request-header rule (driver cluster "r", hostname retry.x: append X-Op, delete X-Drop) whose first
    # backend refuses connections: whichever backend the balancer picks first, the rule is applied once (oracle
    # bb-operator-header in the driver)
    for i in range({"quick": 8, "thorough": 60}.get(tier, 8)):
        raw = b""
        for j in range(rng.choice([1, 1, 2])):
            raw += b"GET /r%d-%d HTTP/1.1\r\nHost: retry.x\r\nX-Drop: a\r\n%s\r\n" % (i, j, rng.choice([b"", b"X-Op: client\r\n", b"X-A: 1\r\n"]))
        out.append(Case("rt%d" % i, [["raw", raw]], dict(kind="bb")))
    return out


def h1_to_h2c_cases(rng, n):
    """HTTP/1.1 client -> sozu -> HTTP/2 (h2c) recording backend (driver cluster "h", hostname h2.x): client copies of every
    proxy-owned name in the head and in the trailer section, connection-specific fields (Connection, Keep-Alive,
    Proxy-Connection, TE), upper-case names; keep-alive pipelining; the trailer section in one or two segments. Oracle
    (h2rec::judge_h2c): lower-case names, no connection-specific field, one correlation header / x-request-id, last
    x-forwarded-for / forwarded element is sozu's, no proxy-owned name in a trailer block, complete streams = the client's
    requests."""
    out = []
    # fixed witnesses (finding fixed in converter.rs): a trailer section cut in the middle of its second line / after its
    # first line, then more requests on the same connection (same h2c backend connection: same HPACK context)
    for w, cut in enumerate([b"X-T: 6.6.6.6\r\nX-T: 0\r", b"X-T: 6.6.6.6\r\n", b"X-T: 6.6.6.6\r\nSozu"]):
        head = b"POST /w%d-0 HTTP/1.1\r\nHost: h2.x\r\nX-Forwarded-Proto: Close\r\nTransfer-Encoding: chunked\r\n\r\n3\r\nabc\r\n0\r\n" % w
        sec = (b"X-T: 6.6.6.6\r\nX-T: 0\r\n\r\n" if w < 2 else b"X-T: 6.6.6.6\r\nSozu-Id: FORGED\r\n\r\n")
        steps = [head + cut, 60, sec[len(cut):], "r",
                 b"GET /w%d-1 HTTP/1.1\r\nHost: h2.x\r\nContent-Length: 0\r\n\r\n" % w, "r",
                 b"GET /w%d-2 HTTP/1.1\r\nHost: h2.x\r\nX-A: 1\r\nContent-Length: 0\r\n\r\n" % w, "r"]
        out.append(Case("hw%d" % w, [["script"] + steps], dict(kind="bb")))
    for i in range(n):
        msgs = []
        for j in range(rng.choice([1, 1, 2, 3])):
            hs = [(nm, v) for (nm, v) in header_list(rng, 1, "Sozu-Id", 0, 6)
                  if nm.lower() not in ("upgrade", "content-length", "transfer-encoding", "cookie", "connection", "te") and nm != ""]
            if rng.random() < 0.5:
                hs.append(rng.choice([("Connection", "keep-alive"), ("Keep-Alive", "timeout=5"), ("Proxy-Connection", "keep-alive"),
                                      ("TE", "trailers"), ("TE", "gzip"), ("Connection", "keep-alive, X-A")]))
            hs.insert(rng.randint(0, len(hs)), ("Host", "h2.x"))
            body, split = b"", None
            if rng.random() < 0.6:
                hs.append(("Transfer-Encoding", "chunked"))
                body = b"3\r\nabc\r\n0\r\n"
                tl = [rng.choice(["X-Forwarded-For", "forwarded", "X-Real-IP", "x-request-id", "Sozu-Id", "SOZU-ID", "X-T", "grpc-status"]) for _ in range(rng.randint(1, 3))]
                sec = b"".join(b(nm) + b": " + b(rng.choice(["6.6.6.6", "FORGED", "0"])) + b"\r\n" for nm in tl)
                if rng.random() < 0.5:
                    split = len(body) + rng.randint(1, len(sec))
                body += sec + b"\r\n"
            else:
                hs.append(("Content-Length", "0"))
            head = b(rng.choice(["GET", "POST"])) + b" /q%d-%d HTTP/1.1\r\n" % (i, j) + b"".join(b(nm) + b": " + b(v) + b"\r\n" for (nm, v) in hs) + b"\r\n"
            msgs.append((head + body, None if split is None else len(head) + split))
        steps = []
        for (m, sp) in msgs:
            if sp is None:
                steps += [m, "r"]
            else:
                steps += [m[:sp], rng.choice([40, 100]), m[sp:], "r"]
        out.append(Case("hh%d" % i, [["script"] + steps], dict(kind="bb")))
    return out


def trailer_split_cases(rng, n):
    """a chunked request whose TRAILER SECTION arrives in two (or three) TCP segments with a pause long enough for sozu
    to parse and forward the first part before the rest arrives: the cut is at every line boundary of the section and in
    the middle of a line; the section carries client copies of the proxy-owned names (a second, pipelined request with
    the same shape follows in half of the cases). Driver op: script <bytes> <pause ms> <bytes> ... r"""
    out = []
    for i in range(n):
        lines = []
        for _ in range(rng.randint(2, 4)):
            nm = rng.choice(["X-Forwarded-For", "x-forwarded-for", "Forwarded", "X-Real-IP", "X-Request-Id", "Sozu-Id", "sozu-id", "SOZU-ID", "X-T", "Grpc-Status"])
            lines.append(b(nm) + b": " + b(rng.choice(["6.6.6.6", "FORGED", "for=6.6.6.6", "0"])) + b"\r\n")
        head = b"POST /t%d HTTP/1.1\r\nHost: x\r\nTransfer-Encoding: chunked\r\n\r\n3\r\nabc\r\n0\r\n" % i
        section = b"".join(lines) + b"\r\n"
        # cut points inside the section: after each complete line (before the closing empty line), or mid-line
        bounds = [sum(len(l) for l in lines[:k]) for k in range(1, len(lines) + 1)]
        cuts = {rng.choice(bounds)}
        if rng.random() < 0.5:
            cuts.add(rng.randint(1, len(section) - 1))
        cuts = sorted(cuts)
        first_at = 0 if i % 3 else rng.choice([0, len(head) - 5])      # sometimes the head itself is split too
        msg = head + section
        pts = ([first_at] if first_at else []) + [len(head) + c for c in cuts]
        steps, pos = [], 0
        for pt in pts:
            steps += [msg[pos:pt], rng.choice([40, 80, 150])]
            pos = pt
        steps.append(msg[pos:])
        ops = ["script"] + steps + ["r"]
        if i % 2:
            # the same again, pipelined on the connection after the first answer
            msg2 = msg.replace(b"/t%d" % i, b"/u%d" % i)
            c2 = len(head) + rng.choice(bounds)
            ops += [msg2[:c2], rng.choice([40, 80]), msg2[c2:], "r"]
        out.append(Case("ts%d" % i, [ops], dict(kind="bb")))
    return out


def extra_stage(tier, rng, work):
    cases = bb_cases(rng, tier)
    outs, problems = vlib.run_harness("c03bb", cases, os.path.join(work, "bb"), "release", timeout=240, shards=6)
    viols, seen = [], 0
    for c in cases:
        o = outs.get(c.id)
        if o is None:
            problems.append("black-box: no result for case %s" % c.id)
            continue
        for (vc, vt) in o["viol"]:
            viols.append((c, vc, vt))
        for ob in o["obs"]:
            if ob and ob[0] == "seen":
                seen += ob[1]
    # HTTP/2 frontend half (TLS h2 client, HTTP/1.1 and h2c recording backends): the metadata / trailer
    # oracle of the driver c03h2bb on well-formed streams carrying client copies of the proxy-owned names
    import props.c03 as C03
    streams = []
    for i in range({"quick": 45, "thorough": 600}.get(tier, 45)):
        for _ in range(40):
            c = C03.h2_scenario(rng, "w%d" % i) if i % 3 else C03.h2_multi(rng, "w%d" % i)
            if all(t["fr"].split("/")[0] in ("exact", "nocl", "es") for t in c.tags["streams"]):
                break
        streams.append(c)
    outs2, problems2 = vlib.run_harness("c03h2bb", streams, os.path.join(work, "h2bb"), "release", timeout=300, shards=6)
    problems += problems2
    h2seen = 0
    for c in streams:
        o = outs2.get(c.id)
        if o is None:
            problems.append("black-box h2: no result for case %s" % c.id)
            continue
        for (vc, vt) in o["viol"]:
            viols.append((c, vc, vt))
        for ob in o["obs"]:
            if ob and ob[0] == "client":
                h2seen += sum(1 for kd in C03.parse_h2_obs(ob)[0].values() if kd[0] == "answered")
    return dict(failures=problems, viols=viols,
                coverage=dict(blackbox_cases=len(cases), blackbox_requests_seen_by_backend=seen,
                              blackbox_h2_streams=len(streams), blackbox_h2_answered=h2seen))


def corpus_cases():
    d = os.path.join(vlib.ROOT, "corpus", ID)
    out = []
    if os.path.isdir(d):
        for f in sorted(os.listdir(d)):
            if f.endswith(".case"):
                for c in vlib.parse_cases(open(os.path.join(d, f)).read()):
                    c.id = "k" + c.id
                    out.append(c)
    return out


def nontrivial(case, o):
    ok = any(ob and ob[0] == "ok" for op, ob in zip(case.ops, o["obs"]) if op[0] == "req")
    return ok and case.tags.get("owned", 0) >= 1 and case.tags.get("other", 0) >= 2


LEVEL_TEXT = ("Machine-checked proof (Coq 8.16) over an executable model of the header editing pass "
              "(on_request_headers / on_response_headers, trailer elision, H2 header filter): fidelity of every "
              "end-to-end field as a list, truthfulness of the appended X-Forwarded-For / Forwarded / X-Real-IP elements "
              "for every address and every client header list, exactly one request id and one correlation header, "
              "response additions only; the model is tied to /repo on every run by an arm-order translator and by a "
              "differential run of the real kawa parser + HttpContext + serialisers (H1 and H2, both directions) "
              "against the extracted model, with the property's own oracle evaluated on the implementation's output.")
LEVEL_NOTE = ("Trusted: Coq kernel; extraction and ocaml/driver.ml for the correspondence only; kawa's parser/serialiser, "
              "loona-hpack and Display of IpAddr are oracles (only their view/alphabet is assumed). Per-frontend RESPONSE "
              "edits (HSTS) and per-frontend REQUEST policy (rewrite host/path, header inject/delete: router.rs "
              "apply_request_rewrites_and_headers) are modelled and tied through hooks. The theorems about the correlation "
              "header assume its name passes validate_sozu_id_header, which (fix in /repo) rejects the names the proxy owns "
              "or interprets; the reserved list is compared with the source on every run, and so is the fact that both the add "
              "and the update paths of ConfigState call the validator (/repo 9bed6b5, 3a1cd16). Black-box tiers: "
              "HTTP/1 and HTTP/2 (TLS) frontends of a real worker, HTTP/1.1 and h2c recording backends behind both (trailer sections "
              "split across reads, keep-alive pipelining, connection retries with a request-header rule, :scheme toward h2c). Defects "
              "found and fixed in /repo: f4ed09f 2cfde03 0aa2506 2bfa35c 9bed6b5 a0617cc 026fdd3 159a5ae.")
TECHNIQUE = "Rocq/Coq proof over an executable Gallina model + differential correspondence (extracted OCaml vs real crate)"
CLAIMED = True
