(** C18 — token interface of the model for the correspondence check. *)
From Coq Require Import List Arith ZArith NArith String Bool.
From SV Require Import Common.Tok Common.Buf C18.Gen C18.Model.
Import ListNotations.
Open Scope string_scope.
Open Scope list_scope.

Definition rd_bits (a : rd) : Z :=
  ((if rr a then 1 else 0) + (if rw a then 2 else 0) + (if re a then 4 else 0) + (if rh a then 8 else 0))%Z.
Definition rd_of_bits (z : Z) : rd :=
  mkrd (Z.odd z) (Z.odd (z / 2)) (Z.odd (z / 4)) (Z.odd (z / 8)).

Definition addr_toks (a : option paddr) : list tok :=
  match a with
  | None => [TS "none"]
  | Some AUnspec => [TS "unspec"]
  | Some (A4 s d sp dp) => [TS "v4"; TB s; TB d; tn_N sp; tn_N dp]
  | Some (A6 s d sp dp) => [TS "v6"; TB s; TB d; tn_N sp; tn_N dp]
  | Some (AUnix s d) => [TS "unix"; TB s; TB d]
  end.

Definition res_tok (r : option result) : tok :=
  match r with
  | Some Continue => TS "cont" | Some Close => TS "close" | Some Upgrade => TS "upgrade"
  | None => TS "close"   (* the driver does not make the call that never returns; it reports and closes *)
  end.

Definition state_toks (e : env) : list tok :=
  let s := se e in
  [TS (match s with SExpect _ => "expect" | SSend _ => "send" | SRelay _ => "relay" | SPipe _ => "pipe" | SDone => "closed" end);
   TN (rd_bits (fr_int s)); TN (rd_bits (fr_ev s)); TN (rd_bits (br_int s)); TN (rd_bits (br_ev s));
   tn_bool (match s with SPipe p => check_connections p | _ => false end);
   (* has the backend peer seen the client's end-of-stream (observable once its socket is drained) *)
   tn_bool (match s with
            | SPipe p => bfin p && negb (wclosed (bsock e)) && (match wcap (bsock e) with None => true | Some _ => false end)
            | _ => false end)]
  ++ match s with
     | SExpect x => addr_toks (xaddr x)
     | SRelay x => addr_toks (raddr x)
     | _ => [TS "na"]
     end.

Definition clear_out (s : sock) : sock := mksock (inq s) (ieof s) (ierr s) (wcap s) (wclosed s) [].

(** the bytes each peer received since the last report, and the unread client bytes *)
Definition io_toks (e : env) : env * list tok :=
  (mkenv (se e) (clear_out (fsock e)) (clear_out (bsock e)) (bsize e) (back_avail e) (hdr0 e),
   [TB (outq (fsock e)); TB (outq (bsock e)); tn_nat (List.length (inq (fsock e)))]).

Definition s_inq (s : sock) (v : list N) := mksock v (ieof s) (ierr s) (wcap s) (wclosed s) (outq s).
Definition s_eof (s : sock) := mksock (inq s) true (ierr s) (wcap s) (wclosed s) (outq s).
Definition s_err (s : sock) := mksock (inq s) (ieof s) true (wcap s) (wclosed s) (outq s).
Definition s_wcap (s : sock) (v : option nat) := mksock (inq s) (ieof s) (ierr s) v (wclosed s) (outq s).
Definition s_wclosed (s : sock) := mksock (inq s) (ieof s) (ierr s) (wcap s) true (outq s).

Definition e_f (e : env) (f : sock) := mkenv (se e) f (bsock e) (bsize e) (back_avail e) (hdr0 e).
Definition e_b (e : env) (b : sock) := mkenv (se e) (fsock e) b (bsize e) (back_avail e) (hdr0 e).

Definition dummy_hdr (v6 : bool) : list N :=
  if v6 then into_bytes (header_new Proxy (repeat 0%N 15 ++ [1%N]) 1%N (repeat 0%N 15 ++ [1%N]) 2%N)
  else into_bytes (header_new Proxy [127;0;0;1]%N 1%N [127;0;0;1]%N 2%N).

Definition new_env (mode : string) (size : nat) (v6 : bool) : env :=
  let s :=
    if mode =? "pipe" then SPipe (pipe_new size true)
    else if mode =? "expect" then SExpect expect_new
    else if mode =? "send" then SSend send_new
    else SRelay (relay_new size) in
  mkenv s sock0 sock0 size (negb (mode =? "pipe")) (dummy_hdr v6).

Definition connected (e : env) : env :=
  if back_avail e then
    match se e with
    | SSend x => mkenv (SSend (send_connected x)) (fsock e) (bsock e) (bsize e) false (hdr0 e)
    | SRelay x => mkenv (SRelay (relay_connected x)) (fsock e) (bsock e) (bsize e) false (hdr0 e)
    | _ => e
    end
  else e.

Definition mk_addr (kind : Z) (src dst : list N) (sp dp : N) : paddr :=
  if Z.eqb kind 4 then A4 src dst sp dp
  else if Z.eqb kind 6 then A6 src dst sp dp
  else if Z.eqb kind 1 then AUnix src dst
  else AUnspec.

Definition is_done (e : env) : bool := match se e with SDone => true | _ => false end.

Definition finish (e : env) (r : option result) : env * list tok :=
  let st := state_toks e in
  let e1 := match r with Some Close | None => e_se e SDone | _ => e end in
  let '(e2, io) := io_toks e1 in
  (e2, res_tok r :: st ++ io).

(** a fair drain: both peers readable and writable, [ready], up to 8 rounds *)
Fixpoint drain (n : nat) (e : env) (r : option result) : env * option result :=
  match n with
  | O => (e, r)
  | S n' =>
    let rw_ := mkrd true true false false in
    let s1 := set_fr_ev (se e) (rd_or (fr_ev (se e)) rw_) in
    let s2 := set_br_ev s1 (rd_or (br_ev s1) rw_) in
    let '(e', r') := ready 5%nat (e_se e s2) in
    match r' with
    | Some Continue => drain n' e' r'
    | _ => (e', r')
    end
  end.

Definition step (e : env) (op : list tok) : env * list tok :=
  let bad := (e, [TS "badop"]) in
  match op with
  | TS name :: args =>
    if name =? "enc" then
      match args with
      | [TN vn; TN c; TN fam; TN kind; TB src; TB dst; TN sp; TN dp] =>
        let cmd := if Z.eqb c 1 then Proxy else Local in
        let h := if Z.eqb vn 1 then header_new cmd src (Z.to_N sp) dst (Z.to_N dp)
                 else mkh cmd (Z.to_N fam) (mk_addr kind src dst (Z.to_N sp) (Z.to_N dp)) in
        (e, [TB (into_bytes h); tn_nat (16 + addr_len (haddr h))%nat])
      | _ => bad end
    else if name =? "parse" then
      match args with
      | [TB i] =>
        (e, match parse_v2 i with
            | PIncomplete => [TS "incomplete"]
            | PError => [TS "error"]
            | POk rest h =>
              [TS "ok"; tn_nat (List.length i - List.length rest)%nat;
               TN (match hcmd h with Proxy => 1 | Local => 0 end); tn_N (hfam h)] ++ addr_toks (Some (haddr h))
            end)
      | _ => bad end
    else if (name =? "bb") || (name =? "bbs") then (e, [])      (* black-box run: no model observation *)
    else if name =? "new" then
      match args with
      | [TS mode; TN size; TN fam] =>
        let e' := new_env mode (Z.to_nat size) (Z.eqb fam 6) in (e', state_toks e')
      | _ => bad end
    else if name =? "fin" then
      match args with [TB b] => (e_f e (s_inq (fsock e) (inq (fsock e) ++ b)), []) | _ => bad end
    else if name =? "feof" then (e_f e (s_eof (fsock e)), [])
    else if name =? "ferr" then (e_f e (s_err (fsock e)), [])
    else if name =? "fwin" then
      match args with
      | [TN n] =>
        (e_f e (s_wcap (fsock e)
                  (if (n <? 0)%Z then None
                   else Some (match wcap (fsock e) with Some c => c | None => O end + Z.to_nat n)%nat)), [])
      | _ => bad end
    else if name =? "fwzero" then (e_f e (s_wcap (fsock e) (Some O)), [])
    else if name =? "fwclose" then (e_f e (s_wclosed (fsock e)), [])
    else if name =? "bin" then
      match args with
      | [TB b] => (if ieof (bsock e) then e else e_b e (s_inq (bsock e) (inq (bsock e) ++ b)), [])
      | _ => bad end
    else if name =? "beof" then (e_b e (s_eof (bsock e)), [])
    else if name =? "bclose" then (e_b e (s_wclosed (s_eof (bsock e))), [])
    else if name =? "bblock" then
      (if wclosed (bsock e) || is_done e then e else e_b e (s_wcap (bsock e) (Some O)), [])
    else if name =? "bunblock" then (e_b e (s_wcap (bsock e) None), [])
    else if name =? "bsndbuf" then (e, [])
    else if name =? "connected" then let e' := connected e in (e', state_toks e')
    else if name =? "ev" then
      match args with
      | [TN f; TN b] =>
        let s1 := set_fr_ev (se e) (rd_or (fr_ev (se e)) (rd_of_bits f)) in
        let s2 := set_br_ev s1 (rd_or (br_ev s1) (rd_of_bits b)) in
        let e' := e_se e s2 in (e', state_toks e')
      | _ => bad end
    else if is_done e then (e, [TS "closed"])
    else if name =? "ready" then let '(e', r) := ready 5%nat e in finish e' r
    else if name =? "drain" then let '(e', r) := drain 8%nat e (Some Continue) in finish e' r
    else if name =? "bwp" then
      (* back_writable with the write window the kernel granted on the implementation (model_ops) *)
      match args with
      | [TN n] =>
        let e1 := e_b e (s_wcap (bsock e) (Some (Z.to_nat n))) in
        let '(e2, r) := h_back_writable e1 in
        finish (e_b e2 (s_wcap (bsock e2) None)) r
      | _ => bad end
    else if name =? "upgrade" then
      let '(e', ok) := upgrade e in finish e' (Some (if ok then Continue else Close))
    else if name =? "h" then
      match args with
      | [TS hn] =>
        let '(e', r) :=
          if hn =? "readable" then h_readable e
          else if hn =? "writable" then h_writable e
          else if hn =? "back_readable" then h_back_readable e
          else if hn =? "back_writable" then h_back_writable e
          else if hn =? "front_hup" then h_front_hup e
          else h_back_hup e in
        finish e' r
      | _ => bad end
    else bad
  | _ => bad
  end.

Fixpoint run_from (e : env) (ops : list (list tok)) : list (list tok) :=
  match ops with
  | [] => []
  | op :: ops' => let '(e', o) := step e op in o :: run_from e' ops'
  end.

Definition run_case (ops : list (list tok)) : list (list tok) :=
  run_from (mkenv SDone sock0 sock0 O false []) ops.
